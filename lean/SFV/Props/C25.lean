import SFV.Lemmas.ShellRun
/-! # C25 — commands run exactly once with verbatim arguments, environment and output

Property theorems only. Models: `SFV/Model/Sh.lean` (shlex.quote, sh lexer, `cd`/`export` interpreter),
`SFV/Model/ShellRun.lean` (renderers assembled from `SFV/Gen/CmdTemplates.lean`, which is regenerated from the
source on every run; the end-marker framing; the shell-then-subprocess policy). -/
namespace SFV.C25
open SFV.Sh SFV.ShellRun SFV.Gen.Cmd

/-- **The sub-shell text reaches `sh -c` verbatim**: whatever text `_build_shell_command` puts together, the
    persistent shell reads `sh -c <shlex.quote(text)> 2>&1` as the words `sh`, `-c`, *that text*, and the redirection. -/
theorem wrap_verbatim (inner : Str) :
    lexLine (render bsc_wrap [inner]) =
      .ok [W ['s', 'h'], W ['-', 'c'], W inner, W ['2'], .op ['>', '&'], W ['1']] := by
  have e : render bsc_wrap [inner] = ['s', 'h', ' ', '-', 'c', ' '] ++ (shlexQuote inner ++ [' ', '2', '>', '&', '1']) := by
    simp [render, renderPiece, bsc_wrap, arg]
  have h0 : feed init ['s', 'h', ' ', '-', 'c', ' '] = { out := [W ['s', 'h'], W ['-', 'c']] } := by decide
  unfold lexLine
  rw [e, feed_append, h0, feed_append, feed_shlexQuote _ _ rfl]
  simp [feed, step, stepUnq, isBlank, isOpChar, isOp2, isPattern, finish, LexSt.pushLit, LexSt.flush, LexSt.emit,
    LexSt.push, W]

/-- **Environment and working directory reach the command verbatim through `_build_shell_command`** — for every
    directory string, every list of variables (names: identifiers) with arbitrary values, and every command text
    that lexes: the sub-shell text lexes to `cd`/`export` statements followed by the command's own items, and
    interpreting it runs the command's items in the directory `wd` with every variable set to exactly its value. -/
theorem env_workdir_verbatim_shell (wd : Str) (env : List (Str × Str)) (cmd : Str) (items : List Item) (e : Env)
    (hk : ∀ kv ∈ env, keyOk kv.1 = true) (hcmd : lexLine cmd = .ok items) :
    ∃ pre, lexLine (bscInner (some wd) env cmd) = .ok (pre ++ items) ∧
      runItems e (pre ++ items) = runItems { cwd := some wd, vars := applyEnv e.vars env } items := by
  refine ⟨[W kwCd, W wd, .op [';']] ++ exportItems (.op [';']) env, ?_, ?_⟩
  · have hin : bscInner (some wd) env cmd
        = ((render bsc_cd [wd] ++ bsc_sep) ++ (env.map (fun kv => render bsc_export [kv.1, kv.2] ++ bsc_sep)).flatten) ++ cmd := by
      unfold bscInner bscParts
      rw [joinSep_snoc]
      simp [List.map_map, Function.comp_def]
    rw [hin]
    have hfeed : feed init ((render bsc_cd [wd] ++ bsc_sep) ++
        (env.map (fun kv => render bsc_export [kv.1, kv.2] ++ bsc_sep)).flatten)
        = { out := [W kwCd, W wd, .op [';']] ++ exportItems (.op [';']) env } := by
      rw [feed_append, feed_bsc_cdSeg]
      -- every key is an identifier: use the segment lemma under that hypothesis
      have : ∀ (l : List (Str × Str)), (∀ kv ∈ l, keyOk kv.1 = true) → ∀ o : List Item,
          feed { out := o } (l.map (fun kv => render bsc_export [kv.1, kv.2] ++ bsc_sep)).flatten
            = { out := o ++ exportItems (.op [';']) l } := by
        intro l
        induction l with
        | nil => intro _ o; simp [feed, exportItems]
        | cons kv r ih =>
          intro hl o
          rw [List.map_cons, List.flatten_cons, feed_append]
          rw [feed_between _ _ { out := o } rfl (feed_bsc_exportSeg kv.1 kv.2 (hl kv (by simp))),
            ih (fun x hx => hl x (List.mem_cons_of_mem _ hx))]
          simp [exportItems, List.append_assoc]
      exact this env hk _
    rw [lexLine_append _ _ _ hfeed, hcmd]; rfl
  · have h1 : [W kwCd, W wd, .op [';']] ++ exportItems (.op [';']) env ++ items
        = W kwCd :: W wd :: .op [';'] :: (exportItems (.op [';']) env ++ items) := by simp
    rw [h1, runItems_cd e wd _ (by decide), runItems_exports _ (by decide) env _ _ hk]

/-- non-vacuity: a directory with a space and a quote, a value with `$`, backticks and quotes, a real command -/
example : ∃ pre, lexLine (bscInner (some "a 'b".toList) [("K".toList, "$HOME `id` \"q\"".toList)] "echo hi".toList)
    = .ok (pre ++ [W "echo".toList, W "hi".toList]) :=
  (env_workdir_verbatim_shell _ _ _ _ {} (by decide) (by decide)).imp fun _ h => h.1

/-- what "verbatim" means for `create_command` (the subprocess path of `BaseConnector.run`, and `LocalConnector.run`) -/
def CreateCommandVerbatim (wd : Str) (env : List (Str × Str)) (cmd : Str) : Prop :=
  ∀ (items : List Item) (e : Env), lexLine cmd = .ok items →
    ∃ pre, lexLine (createCommand (some wd) env cmd) = .ok (pre ++ items) ∧
      runItems e (pre ++ items) = runItems { cwd := some wd, vars := applyEnv e.vars env } items

/-- **Environment and working directory reach the command verbatim through `create_command`** (the subprocess path of
    `BaseConnector.run`, `LocalConnector.run`, queue-manager job scripts) — for every directory string and every value, since
    commit 1a0529c quotes both with `shlex.quote`. -/
theorem env_workdir_verbatim_create_command (wd : Str) (env : List (Str × Str)) (cmd : Str)
    (hk : ∀ kv ∈ env, keyOk kv.1 = true) : CreateCommandVerbatim wd env cmd := by
  intro items e hcmd
  refine ⟨[W kwCd, W wd, .op ['&', '&']] ++ exportItems (.op ['&', '&']) env, ?_, ?_⟩
  · have hfeed : feed init (render cc_cd [wd] ++ (env.map (fun kv => render cc_export [kv.1, kv.2])).flatten)
        = { out := [W kwCd, W wd, .op ['&', '&']] ++ exportItems (.op ['&', '&']) env } := by
      rw [feed_append, feed_cc_cdSeg wd]
      have : ∀ (l : List (Str × Str)), (∀ kv ∈ l, keyOk kv.1 = true) → ∀ o : List Item,
          feed { out := o } (l.map (fun kv => render cc_export [kv.1, kv.2])).flatten
            = { out := o ++ exportItems (.op ['&', '&']) l } := by
        intro l
        induction l with
        | nil => intro _ o; simp [feed, exportItems]
        | cons kv r ih =>
          intro hl o
          rw [List.map_cons, List.flatten_cons, feed_append]
          rw [feed_between _ _ { out := o } rfl (feed_cc_exportSeg kv.1 kv.2 (hl kv (by simp))),
            ih (fun x hx => hl x (List.mem_cons_of_mem _ hx))]
          simp [exportItems, List.append_assoc]
      exact this env hk _
    unfold createCommand
    rw [lexLine_append _ _ _ hfeed, hcmd]; rfl
  · have h1 : [W kwCd, W wd, .op ['&', '&']] ++ exportItems (.op ['&', '&']) env ++ items
        = W kwCd :: W wd :: .op ['&', '&'] :: (exportItems (.op ['&', '&']) env ++ items) := by simp
    rw [h1, runItems_cd e wd _ (by decide), runItems_exports _ (by decide) env _ _ hk]

/-- non-vacuity: the values that used to be expanded (`$HOME`), executed (backticks) or to unbalance the line (`"`) -/
example : CreateCommandVerbatim "a b".toList [("K".toList, "$HOME `id` \"q\"".toList)] "echo hi".toList :=
  env_workdir_verbatim_create_command _ _ _ (by decide)

/-- **the redirections of `create_command` quote their file names** (`< f`, `> f`, `2>f`): generated obligation — fails to check as
    soon as one of them stops using `shlex.quote`; hence each is verbatim for every file name -/
theorem redirections_quoted :
    [cc_stdin, cc_stdout, cc_stderr].all (fun t => allShQuoted t && placed ⟨.unq, false⟩ t) = true := by decide

theorem redirections_verbatim (t : Template) (ht : t ∈ [cc_stdin, cc_stdout, cc_stderr]) (st : LexSt) (hst : shape st = ⟨.unq, false⟩)
    (f : Str) : feed st (render t [f]) = specFeed st [f] t := by
  have h := List.all_eq_true.mp redirections_quoted t ht
  simp only [Bool.and_eq_true] at h
  refine feed_render_quoted t st [f] h.1 (by rw [hst]; exact h.2) ?_
  simp only [List.mem_cons, List.mem_nil_iff, or_false] at ht
  rcases ht with rfl | rfl | rfl <;> simp [safeArgsOk, cc_stdin, cc_stdout, cc_stderr]

/-- `cmd > <quote f>` after a command word: the shell sees the redirection operator and the file name `f` as one literal word -/
example : lexLine (['c', 'a', 't'] ++ render cc_stdout ["a b$x".toList]) =
    .ok [W ['c', 'a', 't'], .op ['>'], W "a b$x".toList] := by decide

/-! ### the built-in queue-manager template -/

/-- the job script `QueueManagerConnector.run` submits with the built-in template `#!/bin/sh\n\n{{streamflow_command}}`:
    the template text (extracted from queue_manager.py) followed by `create_command(...)` -/
def queueManagerDefaultScript (wd : Str) (env : List (Str × Str)) (cmd : Str) : Str :=
  qm_default_prefix ++ createCommand (some wd) env cmd

/-- **The built-in queue-manager job script runs the command with the working directory and environment verbatim**: the shebang
    line is a comment for `sh`, the rest is exactly `create_command`'s text — for every directory, every value, every command. -/
theorem queue_manager_default_script_verbatim (wd : Str) (env : List (Str × Str)) (cmd : Str) (items : List Item) (e : Env)
    (hk : ∀ kv ∈ env, keyOk kv.1 = true) (hcmd : lexLine cmd = .ok items) :
    ∃ pre, lexLine (queueManagerDefaultScript wd env cmd) = .ok (pre ++ items) ∧
      runItems e (pre ++ items) = runItems { cwd := some wd, vars := applyEnv e.vars env } items := by
  obtain ⟨pre, h1, h2⟩ := env_workdir_verbatim_create_command wd env cmd hk items e hcmd
  have hpre : feed init qm_default_prefix = { out := [.op ['\n'], .op ['\n']] } := by decide
  refine ⟨[.op ['\n'], .op ['\n']] ++ pre, ?_, ?_⟩
  · unfold queueManagerDefaultScript
    rw [lexLine_append _ _ _ hpre, h1]
    simp [prefixRes]
  · rw [← h2]
    have : ∀ rest : List Item, runItems e ([.op ['\n'], .op ['\n']] ++ rest) = runItems e rest := by
      intro rest
      unfold runItems
      have hs : splitSeq ([Item.op ['\n'], Item.op ['\n']] ++ rest) = [] :: [] :: splitSeq rest := by
        simp [splitSeq, isSep]
      rw [hs]
      simp [runSegs, wordsOf, runSimple]
    rw [List.append_assoc, this]

example : ∃ pre, lexLine (queueManagerDefaultScript "a b".toList [("K".toList, "$HOME".toList)] "echo hi".toList)
    = .ok (pre ++ [W "echo".toList, W "hi".toList]) :=
  (queue_manager_default_script_verbatim _ _ _ _ {} (by decide) (by decide)).imp fun _ h => h.1

/-- `CommandTemplateMap.get_command` renders `export K="v"` the same way: the value `$HOME` is expanded, a value with
    `"` unbalances the script (known finding) -/
theorem get_command_env_false :
    lexLine (getCommandEnv [("K".toList, "$HOME".toList)])
      = .ok [W kwExport, .word { cs := "K=$HOME".toList, exp := true }] ∧
    lexLine (getCommandEnv [("A".toList, "x".toList), ("K".toList, "q\"uote".toList)]) = .unterminated := by decide

/-- **Framing is exact for every chunking.** The shell's answer `out ++ marker ++ ":" ++ rc ++ "\n"`, cut into
    non-empty chunks in any way whatsoever, is read by `_read_with_output` as `(out.strip(), rc)`, consuming every chunk
    — provided the text `marker:` does not occur earlier in the answer (markers are fresh uuids) and neither the marker
    nor the status text contains a newline. Outputs without a trailing newline, with arbitrary characters, and empty
    outputs are covered. -/
theorem framing_exact (out marker rc : Str) (chunks : List Str)
    (hne : NoEarly (marker ++ [':']) (framed out marker rc) out.length)
    (hm : ∀ c ∈ marker, c ≠ '\n') (hr : ∀ c ∈ rc, c ≠ '\n')
    (hch : ∀ ch ∈ chunks, ch ≠ []) (hflat : chunks.flatten = framed out marker rc) :
    readLoop marker [] chunks = some ((strip out, rc), []) := by
  have hn : chunks ≠ [] := by
    intro h; rw [h] at hflat; exact framed_ne_nil out marker rc hflat.symm
  exact readLoop_framed_aux out marker rc hne hm hr chunks [] hn hch (by simpa using hflat)

/-- the same with the hypothesis in its natural form: the marker contains no `:` (it is `SF_CMD_END_<uuid4>`) and the text
    `marker:` does not occur inside the command's output -/
theorem framing_exact_fresh (out marker rc : Str) (chunks : List Str)
    (hcolon : ∀ c ∈ marker, c ≠ ':') (hfresh : ∀ p, (marker ++ [':']).isPrefixOf (out.drop p) = false)
    (hm : ∀ c ∈ marker, c ≠ '\n') (hr : ∀ c ∈ rc, c ≠ '\n')
    (hch : ∀ ch ∈ chunks, ch ≠ []) (hflat : chunks.flatten = framed out marker rc) :
    readLoop marker [] chunks = some ((strip out, rc), []) :=
  framing_exact out marker rc chunks (noEarly_of_fresh out marker rc hcolon hfresh) hm hr hch hflat

/-- non-vacuity of `framing_exact`: an output without trailing newline, cut in the middle of the marker -/
example : readLoop "M1".toList [] ["ab".toList, "cM".toList, "1:".toList, "0\n".toList] = some (("abc".toList, "0".toList), []) := by
  decide

/-- the hypotheses under which a command's answer is framed unambiguously -/
def Framable (c : Cmd) : Prop :=
  NoEarly (c.marker ++ [':']) (framed c.out c.marker c.rc) c.out.length ∧ (∀ x ∈ c.marker, x ≠ '\n') ∧ (∀ x ∈ c.rc, x ≠ '\n')

theorem runStep_ok (s : St) (c : Cmd) (cuts : List Nat) (hp : s.pipe = []) (hc : Framable c) :
    runStep s c (.ok cuts) = { pipe := [], execs := s.execs ++ [1], results := s.results ++ [fresh c] } := by
  unfold runStep
  simp only [hp, List.nil_append]
  rw [framing_exact c.out c.marker c.rc _ hc.1 hc.2.1 hc.2.2 (chunkBy_nonempty _ _) (chunkBy_flatten _ _)]
  simp [fresh]

/-- **Persistent shell ≡ fresh processes, and exactly once, for histories without shell-side failures**: for every
    sequence of commands and every chunking of every answer, `run` returns for each command what a fresh process
    returns, every command is executed exactly once, and the pipe is empty afterwards. -/
theorem shell_equiv_fresh (cmds : List (Cmd × List Nat)) (hc : ∀ p ∈ cmds, Framable p.1) :
    runAll {} (cmds.map (fun p => (p.1, Outcome.ok p.2)))
      = { pipe := [], execs := cmds.map (fun _ => 1), results := cmds.map (fun p => fresh p.1) } := by
  have : ∀ (l : List (Cmd × List Nat)) (s : St), s.pipe = [] → (∀ p ∈ l, Framable p.1) →
      runAll s (l.map (fun p => (p.1, Outcome.ok p.2)))
        = { pipe := [], execs := s.execs ++ l.map (fun _ => 1), results := s.results ++ l.map (fun p => fresh p.1) } := by
    intro l
    induction l with
    | nil => intro s hp _; cases s; simp_all [runAll]
    | cons p r ih =>
      intro s hp hl
      simp only [List.map_cons, runAll]
      rw [runStep_ok s p.1 p.2 hp (hl p (by simp)), ih _ rfl (fun x hx => hl x (List.mem_cons_of_mem _ hx))]
      simp [List.append_assoc]
  simpa using this cmds {} rfl hc

/-- exactly once — only for histories without timeouts (the full statement is false, see below) -/
theorem exactly_once_partial (cmds : List (Cmd × List Nat)) (hc : ∀ p ∈ cmds, Framable p.1) :
    ∀ n ∈ (runAll {} (cmds.map (fun p => (p.1, Outcome.ok p.2)))).execs, n = 1 := by
  rw [shell_equiv_fresh cmds hc]
  simp only [List.mem_map]
  rintro n ⟨_, _, rfl⟩; rfl

/-- **What a command returns after earlier shell-side timeouts, in general**: whatever the timed-out commands left in the
    pipe is returned *in front of* the next command's own output (one `strip` around both), that command is executed once, and
    the pipe is clean again afterwards — for every stale content, every command and every chunking. -/
theorem next_command_returns_stale_prefix (s : St) (c : Cmd) (cuts : List Nat)
    (h : Framable { c with out := s.pipe ++ c.out }) :
    runStep s c (.ok cuts) =
      { pipe := [], execs := s.execs ++ [1], results := s.results ++ [(strip (s.pipe ++ c.out), c.rc)] } := by
  unfold runStep
  have e : s.pipe ++ framed c.out c.marker c.rc = framed (s.pipe ++ c.out) c.marker c.rc := by
    simp [framed, List.append_assoc]
  simp only [e]
  rw [framing_exact (s.pipe ++ c.out) c.marker c.rc _ h.1 h.2.1 h.2.2 (chunkBy_nonempty _ _) (chunkBy_flatten _ _)]
  simp

/-- hence the shell is observationally equivalent to fresh processes again from the second command after a timeout on -/
theorem recovers_after_one_command (s : St) (c d : Cmd) (cuts cuts' : List Nat)
    (hc : Framable { c with out := s.pipe ++ c.out }) (hd : Framable d) :
    (runStep (runStep s c (.ok cuts)) d (.ok cuts')).results
      = s.results ++ [(strip (s.pipe ++ c.out), c.rc)] ++ [fresh d] := by
  rw [next_command_returns_stale_prefix s c cuts hc, runStep_ok _ d cuts' rfl hd]

/-- the two commands of the witness: `LATE` times out in the shell, `SECOND` follows -/
def late : Cmd := { out := "LATE\n".toList, rc := "0".toList, marker := "M1".toList }
def second : Cmd := { out := "SECOND\n".toList, rc := "0".toList, marker := "M2".toList }

example : Framable second := by
  refine ⟨?_, by decide, by decide⟩
  intro p hp
  have : p < 7 := hp
  match p, this with
  | 0, _ | 1, _ | 2, _ | 3, _ | 4, _ | 5, _ | 6, _ => decide

/-- **Exactly-once and shell ≡ fresh are FALSE after a shell-side timeout**: the timed-out command is executed twice
    (once by the shell, once by the fallback subprocess), and the next command returns the stale answer in front of
    its own output. Known finding; reproduced on the real code by the check. -/
theorem exactly_once_false :
    (runAll {} [(late, .timeout), (second, .ok [])]).execs = [2, 1] ∧
    (runAll {} [(late, .timeout), (second, .ok [])]).results
      = [fresh late, ("LATE\nM1:0\nSECOND".toList, "0".toList)] ∧
    fresh second = ("SECOND".toList, "0".toList) := by decide

end SFV.C25
