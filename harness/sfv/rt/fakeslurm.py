"""In-process fake batch system for C27: an inner `Connector` that interprets the command strings the real
`SlurmConnector` sends (`… | sbatch --parsable …`, `squeue -h -j ids -t states -O JOBID`, `scontrol show -o job id | sed …`,
`cat <path>`, `scancel ids`) over a scripted queue, plus a logging proxy for the connector's jobs-cache cell.

Everything that happens is appended to `FakeSlurm.trace` as model actions (see lean/SFV/Model/Queue.lean) at the
instant of its effect, and to `FakeSlurm.log` as (seq, what, …) for the property monitor."""
from __future__ import annotations

import asyncio
import re
from typing import Any

from streamflow.core.deployment import Connector

TERMINAL = {"COMPLETED", "FAILED", "CANCELLED", "TIMEOUT", "NODE_FAIL", "OUT_OF_MEMORY", "BOOT_FAIL", "DEADLINE", "PREEMPTED"}


class FakeSlurm:
    """the batch system: job table, life cycles driven by loop timers, logs"""

    def __init__(self, unit: float = 1.0):
        self.unit = unit
        self.jobs: dict[str, dict] = {}
        self.next_id = 1
        self.seq = 0
        self.log: list[tuple] = []       # (seq, kind, ...)
        self.trace: list[tuple] = []     # model actions (name, arg, observation)
        self.owner: dict[str, str] = {}  # task name -> job id
        self.scripts: list[dict] = []    # per submission (in submission order): life cycle script
        self.submit_failures: set[int] = set()
        self.scripts_used: list[str] = []
        self.all_submitted = None        # asyncio.Event set when `expect` submissions were seen
        self.expect = 0

    def _ev(self, kind: str, *args) -> int:
        self.seq += 1
        self.log.append((self.seq, kind, *args))
        return self.seq

    def act(self, name: str, arg: Any = None, obs: Any = None) -> None:
        self.trace.append((name, arg, obs))

    def in_queue(self, jid: str) -> bool:
        return jid in self.jobs and self.jobs[jid]["state"] not in TERMINAL

    def _advance(self, jid: str, k: int) -> None:
        job = self.jobs[jid]
        if job["state"] in TERMINAL:
            return
        phases = job["phases"]
        state, dur = phases[k]
        job["state"] = state
        self._ev("state", jid, state)
        if state in TERMINAL:
            self._ev("leave", jid)
            self.act("leave", jid)
        else:
            asyncio.get_event_loop().call_later(dur * self.unit, self._advance, jid, k + 1)

    def sbatch(self, task: str) -> tuple[str, int]:
        n = len(self.scripts_used)
        self.scripts_used.append(task)
        if self.all_submitted is not None and len(self.scripts_used) >= self.expect:
            self.all_submitted.set()
        if n in self.submit_failures:
            self._ev("sbatch-rejected", task)
            return "sbatch: error: Batch job submission failed: Invalid account", 1
        script = self.scripts[n % len(self.scripts)]
        jid = str(self.next_id + script.get("id_gap", 0))
        self.next_id = int(jid) + 1
        self.jobs[jid] = {"state": None, "phases": script["phases"], "out": script["out"], "rc": script["rc"], "task": task}
        self.owner[task] = jid
        self._ev("submit", jid, task)
        self.act("submit", jid)
        self.act("res", jid, (script["out"], script["rc"]))
        self._advance(jid, 0)
        return jid + "\n", 0

    def squeue(self, ids: list[str], states: list[str]) -> str:
        res = [j for j in ids if j in self.jobs and self.jobs[j]["state"] in states]
        self._ev("squeue", tuple(ids), tuple(res))
        return "\n".join(f"{j}   " for j in res) + ("\n" if res else "")

    def scancel(self, ids: list[str]) -> None:
        hit = []
        for j in ids:
            if self.in_queue(j):
                self.jobs[j]["state"] = "CANCELLED"
                hit.append(j)
        self._ev("scancel", tuple(ids), tuple(hit))
        self.act("scancel", None, sorted(int(j) for j in self.jobs if self.in_queue(j)))


class FakeInner(Connector):
    """the wrapped connector: every `run` is one command of the fake batch system, delayed by a scripted amount"""

    def __init__(self, slurm: FakeSlurm, delays):
        super().__init__("inner", "/nonexistent", 65536)
        self.slurm = slurm
        self.delays = delays  # callable kind -> float (already scaled)
        self.commands: list[str] = []

    @classmethod
    def get_schema(cls) -> str:
        return ""

    async def copy_local_to_remote(self, *a, **k): raise NotImplementedError
    async def copy_remote_to_local(self, *a, **k): raise NotImplementedError
    async def copy_remote_to_remote(self, *a, **k): raise NotImplementedError
    async def deploy(self, external: bool) -> None: return None
    async def undeploy(self, external: bool) -> None: return None
    async def get_available_locations(self, service=None): return {}
    async def get_shell(self, *a, **k): raise NotImplementedError
    async def get_stream_reader(self, *a, **k): raise NotImplementedError
    async def get_stream_writer(self, *a, **k): raise NotImplementedError

    async def run(self, location, command, environment=None, workdir=None, stdin=None, stdout=asyncio.subprocess.STDOUT,
                  stderr=asyncio.subprocess.STDOUT, capture_output=False, timeout=None, job_name=None):
        sl = self.slurm
        cmd = " ".join(command)
        self.commands.append(cmd)
        task = asyncio.current_task().get_name()
        if location.name != "innerloc":
            sl._ev("wrong-location", location.name, cmd[:40])
        if re.search(r"\|\s*sbatch\s+--parsable", cmd):
            await asyncio.sleep(self.delays("sbatch"))
            out, rc = sl.sbatch(task)
            return (out, rc) if capture_output else None
        if cmd.startswith("squeue "):
            m = re.match(r"squeue -h -j (\S*) -t (\S+) -O JOBID$", cmd)
            if not m:
                sl._ev("unparsed", cmd)
                return ("", 1)
            ids = [i for i in m.group(1).split(",") if i]
            jid = sl.owner.get(task)
            sl.act("miss", jid, sorted(int(i) for i in ids))
            await asyncio.sleep(self.delays("squeue"))
            out = sl.squeue(ids, m.group(2).split(","))
            sl.act("answer", jid, sorted(int(i.strip()) for i in out.split()))
            return (out, 0)
        m = re.match(r"scontrol show -o job (\S+) \| sed -n 's/\^\.\*(StdOut|ExitCode)=", cmd)
        if m:
            jid, field = m.group(1), m.group(2)
            await asyncio.sleep(self.delays("scontrol"))
            job = sl.jobs.get(jid)
            if job is None:
                return ("", 0)
            if field == "StdOut":
                sl._ev("scontrol-out", jid)
                return (f"/fake/slurm-{jid}.out\n", 0)
            done = not sl.in_queue(jid)
            sl._ev("scontrol-rc", jid, done)
            sl.act("rc", jid, job["rc"] if done else None)
            return (f"{job['rc']}\n" if done else "\n", 0)
        m = re.match(r"cat /fake/slurm-(\S+)\.out$", cmd)
        if m:
            jid = m.group(1)
            await asyncio.sleep(self.delays("cat"))
            done = not sl.in_queue(jid)
            sl._ev("cat", jid, done)
            sl.act("out", jid, sl.jobs[jid]["out"] if done else None)
            return ((f"OUT-{sl.jobs[jid]['out']}\n" if done else "PARTIAL\n"), 0)
        if cmd.startswith("scancel"):
            await asyncio.sleep(self.delays("scancel"))
            sl.scancel(cmd.split()[1:])
            return ("", 0) if capture_output else None
        sl._ev("unparsed", cmd)
        return ("", 127) if capture_output else None


class VirtualTTLCell:
    """stand-in for cachebox.TTLCache(maxsize=1, global_ttl) whose clock is the event loop's (virtual) clock"""

    def __init__(self, ttl: float, inclusive: bool = True):
        self.ttl, self.inclusive = ttl, inclusive
        self.item = None

    def _now(self) -> float:
        return asyncio.get_event_loop().time()

    def __getitem__(self, key):
        if self.item is not None and self.item[0] == key:
            age = self._now() - self.item[2]
            if age > self.ttl or (self.inclusive and age >= self.ttl):
                self.item = None
        if self.item is None or self.item[0] != key:
            raise KeyError(key)
        return self.item[1]

    def __setitem__(self, key, value):
        self.item = (key, value, self._now())

    def clear(self, *, reuse: bool = False):
        self.item = None


class CellProxy:
    """logs what the connector does with its jobs-cache cell as model actions"""

    def __init__(self, inner, slurm: FakeSlurm):
        self.inner, self.slurm, self.has = inner, slurm, False

    def _who(self):
        return self.slurm.owner.get(asyncio.current_task().get_name())

    def __getitem__(self, key):
        try:
            v = self.inner[key]
        except KeyError:
            if self.has:
                self.has = False
                self.slurm.act("expire")
            raise
        self.slurm.act("hit", self._who())
        return v

    def __setitem__(self, key, value):
        self.inner[key] = value
        self.has = True
        self.slurm.act("store", self._who())

    def clear(self, *, reuse: bool = False):
        self.inner.clear(reuse=reuse)
        self.has = False
        self.slurm.act("clear", self._who())

    def __getattr__(self, name):
        return getattr(self.inner, name)
