import SFV.Lemmas.NetConfl
import SFV.Lemmas.NetPerm
import SFV.Lemmas.TfMachine
/-! # Operationally consistent log families (C05)

`Consistent` (SFV/Lemmas/NetDefs.lean) states every node equation denotationally, up to order. Here the
equation of the grouping node kinds (tf / cond / exec) is replaced by the OPERATIONAL one: the log of an output
port IS the emission sequence of the grouping loop (`runRounds`, `emitted` of SFV/Model/TfMachine.lean) run on the
logs of the input ports, in the order in which those logs list the tokens (the arrival order). Such families
(`OpConsistent`) still hold `den` on every port, up to order.

The network induction is `foldl_nodeDen_perm` of SFV/Lemmas/NetConfl.lean, generalised so that the node equation
is only required when the node's inputs in `logs` are, up to order, an environment passing the dynamic check
`wfNode` of that node: this is what the machine theorem `emitted_perm_groupStep` needs. -/
namespace SFV.Net

/-! ## a. the grouping node kinds -/

/-- number of outputs and group function of the node kinds run by the tag-grouping loop -/
def Node.groupFn : Node → Option (Nat × (List Val → List (Option Val)))
  | .tf fn _ outs => some (outs.length, fun vals => (applyFn fn vals).map some)
  | .cond m r zero _ outs => some (outs.length, condOut m r zero)
  | .exec k _ _ => some (1, fun vals => [some (.int (linFold vals + k))])
  | .scatter _ _ _ => none
  | .gather _ _ _ _ => none
  | .dot _ _ => none
  | .cart _ _ _ _ => none

theorem nodeOut_eq_groupStep (e : Env) {n : Node} {nouts : Nat} {f : List Val → List (Option Val)}
    (hg : n.groupFn = some (nouts, f)) : nodeOut e n = groupStep e n.ins nouts f := by
  cases n <;> simp only [Node.groupFn, Option.some.injEq, Prod.mk.injEq, reduceCtorEq] at hg
  all_goals (obtain ⟨rfl, rfl⟩ := hg; rfl)

/-- the number of outputs of the group function is the number of output ports of the node -/
theorem groupFn_nouts {n : Node} {nouts : Nat} {f : List Val → List (Option Val)}
    (hg : n.groupFn = some (nouts, f)) : nouts = n.outs.length := by
  cases n <;> simp only [Node.groupFn, Option.some.injEq, Prod.mk.injEq, reduceCtorEq] at hg
  all_goals (obtain ⟨rfl, _⟩ := hg; rfl)

/-! ## b. operationally consistent families -/

/-- **Operationally consistent logs.** Source ports hold their pre-loaded token; every output port of a grouping
node holds EXACTLY the emission sequence of the grouping loop run on the logs of the node's input ports (so the
order of each input log is the arrival order seen by the loop); the output ports of the other node kinds hold,
up to order, what the node's semantic function yields. -/
structure OpConsistent (sp : Spec) (logs : Env) : Prop where
  src : ∀ p, (∀ n ∈ sp.nodes, p ∉ n.outs) → logs.get p = (srcEnv sp).get p
  group : ∀ n ∈ sp.nodes, ∀ nouts f, n.groupFn = some (nouts, f) → ∀ (j o : Nat), n.outs[j]? = some o →
    logs.get o = emitted f j (runRounds (n.ins.map logs.get))
  other : ∀ n ∈ sp.nodes, n.groupFn = none → ∀ (j o : Nat), n.outs[j]? = some o →
    (logs.get o).Perm ((nodeOut logs n)[j]?.getD [])

/-! ## c. the dynamic check as a recursive function, and the conditional network induction -/

/-- the inner loop of `wfDyn` -/
def dynGo : Env → List Node → Bool
  | _, [] => true
  | e, n :: ns => wfNode e n && dynGo (nodeDen e n) ns

theorem dynGo_eq_go (e : Env) (ns : List Node) : dynGo e ns = wfDyn.go e ns := by
  induction ns generalizing e with
  | nil => rfl
  | cons n ns ih => simp only [dynGo, wfDyn.go, ih]

theorem dynGo_of_wfDyn (sp : Spec) (hdyn : wfDyn sp = true) : dynGo (srcEnv sp) sp.nodes = true := by
  have h' : (wfDyn.go (srcEnv sp) sp.nodes &&
      (List.range sp.nports).all (fun p => distinctTags ((den sp).get p))) = true := hdyn
  simp only [Bool.and_eq_true] at h'
  rw [dynGo_eq_go]
  exact h'.1

/-- `foldl_nodeDen_perm` with a conditional node equation: the equation of node `n` is only required when the
inputs of `n` in `logs` are, up to order, those of an environment on which `n` passes `NodeInputsOk` and the
dynamic check `wfNode`. The conclusion also returns, for every node, such a checked environment. -/
theorem foldl_nodeDen_perm_cond (logs : Env) (np : Nat) (post : List Node)
    (avail : List Nat) (E : Env) (hs : StructOk np avail post) (hE : ∀ p, p ∉ avail → E.get p = [])
    (hnode : ∀ n ∈ post, ∀ E', EnvPermOn n.ins E' logs → NodeInputsOk E' n → wfNode E' n = true →
      ∀ (j o : Nat), n.outs[j]? = some o → (logs.get o).Perm ((nodeOut logs n)[j]?.getD []))
    (hok : ∀ n ∈ post, NodeInputsOk (post.foldl nodeDen E) n)
    (hgo : dynGo E post = true)
    (hinv : ∀ p, (∀ m ∈ post, p ∉ m.outs) → (logs.get p).Perm (E.get p)) :
    (∀ p, (logs.get p).Perm ((post.foldl nodeDen E).get p)) ∧
    (∀ n ∈ post, ∃ E', EnvPermOn n.ins E' logs ∧ NodeInputsOk E' n ∧ wfNode E' n = true) := by
  induction post generalizing avail E with
  | nil => exact ⟨fun p => hinv p (fun m hm => by cases hm), fun n hn => by cases hn⟩
  | cons n post ih =>
    obtain ⟨h1, h2, h3, h4⟩ := structOk_cons.mp hs
    simp only [dynGo, Bool.and_eq_true] at hgo
    have hE' : ∀ p, p ∉ avail ++ n.outs → (nodeDen E n).get p = [] := fun p hp => by
      rw [nodeDen_get_notin _ _ _ (fun h => hp (List.mem_append_right _ h))]
      exact hE p (fun h => hp (List.mem_append_left _ h))
    have hins : EnvPermOn n.ins E logs := fun q hq =>
      (hinv q (fun m hm hmo => hs.outs_notin m hm q hmo (h1 q hq))).symm
    have hokE : NodeInputsOk E n :=
      nodeInputsOk_congr _ _ n (fun q hq => hs.foldl_get_ins E q hq) (hok n List.mem_cons_self)
    have hn : ∀ (j o : Nat), n.outs[j]? = some o → (logs.get o).Perm ((nodeOut logs n)[j]?.getD []) :=
      hnode n List.mem_cons_self E hins hokE hgo.1
    have hinv' : ∀ p, (∀ m ∈ post, p ∉ m.outs) → (logs.get p).Perm ((nodeDen E n).get p) := by
      intro p hp
      by_cases hpo : p ∈ n.outs
      · obtain ⟨j, hj⟩ := List.mem_iff_getElem?.mp hpo
        rw [nodeDen_get_idx E n h3 j p hj (hE p (h2 p hpo).1)]
        exact (hn j p hj).trans (nodeOut_perm n E logs hins hokE j).symm
      · rw [nodeDen_get_notin _ _ _ hpo]
        exact hinv p (fun m hm => by
          rcases List.mem_cons.mp hm with rfl | hm
          · exact hpo
          · exact hp m hm)
    obtain ⟨r1, r2⟩ := ih (avail ++ n.outs) (nodeDen E n) h4 hE'
      (fun m hm => hnode m (List.mem_cons_of_mem _ hm)) (fun m hm => hok m (List.mem_cons_of_mem _ hm))
      hgo.2 hinv'
    refine ⟨r1, fun m hm => ?_⟩
    rcases List.mem_cons.mp hm with rfl | hm
    · exact ⟨E, hins, hokE, hgo.1⟩
    · exact r2 m hm

/-! ## d. the local step: from the dynamic check to the hypotheses of the machine theorem -/

/-- the executable same-tag-set check, on ports with distinct tags, gives a permutation of the tag lists -/
theorem sameTags_perm_tags {a b : List Tok} (h : sameTags a b = true) (da : DistinctTags a)
    (db : DistinctTags b) : (a.map (·.tag)).Perm (b.map (·.tag)) := by
  rw [List.perm_ext_iff_of_nodup da.nodup_tags db.nodup_tags]
  simp only [sameTags, Bool.and_eq_true, List.all_eq_true, List.any_eq_true, beq_iff_eq] at h
  intro t
  constructor
  · intro ht
    obtain ⟨x, hx, rfl⟩ := List.mem_map.mp ht
    obtain ⟨u, hu, hut⟩ := h.1 x hx
    exact List.mem_map.mpr ⟨u, hu, hut⟩
  · intro ht
    obtain ⟨x, hx, rfl⟩ := List.mem_map.mp ht
    obtain ⟨u, hu, hut⟩ := h.2 x hx
    exact List.mem_map.mpr ⟨u, hu, hut⟩

/-- what `wfNode` checks on a grouping node: at least one input, same tag set as the first input everywhere -/
theorem wfNode_group {E : Env} {n : Node} {nouts : Nat} {f : List Val → List (Option Val)}
    (hg : n.groupFn = some (nouts, f)) (hw : wfNode E n = true) :
    ∃ q r, n.ins = q :: r ∧ ∀ q' ∈ r, sameTags (E.get q) (E.get q') = true := by
  cases n with
  | tf fn ins outs =>
    cases ins with
    | nil => simp [wfNode] at hw
    | cons q r =>
      simp only [wfNode, List.all_eq_true] at hw
      exact ⟨q, r, rfl, hw⟩
  | cond m r zero ins outs =>
    cases ins with
    | nil => simp [wfNode] at hw
    | cons q r =>
      simp only [wfNode, List.all_eq_true] at hw
      exact ⟨q, r, rfl, hw⟩
  | exec k ins out =>
    cases ins with
    | nil => simp [wfNode] at hw
    | cons q r =>
      simp only [wfNode, Bool.and_eq_true, List.all_eq_true] at hw
      exact ⟨q, r, rfl, hw.1⟩
  | scatter _ _ _ => simp [Node.groupFn] at hg
  | gather _ _ _ _ => simp [Node.groupFn] at hg
  | dot _ _ => simp [Node.groupFn] at hg
  | cart _ _ _ _ => simp [Node.groupFn] at hg

/-- the hypotheses of the machine theorem hold on `logs` as soon as the inputs of the node in `logs` are, up to
order, those of an environment that passes the checks -/
theorem group_hyps {E logs : Env} {n : Node} {nouts : Nat} {f : List Val → List (Option Val)}
    (hg : n.groupFn = some (nouts, f)) (hperm : EnvPermOn n.ins E logs) (hok : NodeInputsOk E n)
    (hw : wfNode E n = true) :
    n.ins ≠ [] ∧ (∀ q ∈ n.ins, DistinctTags (logs.get q)) ∧
    (∀ q ∈ n.ins, ∀ q' ∈ n.ins, ((logs.get q).map (·.tag)).Perm ((logs.get q').map (·.tag))) := by
  obtain ⟨q0, r, hins, hsame⟩ := wfNode_group hg hw
  have hq0 : q0 ∈ n.ins := hins ▸ List.mem_cons_self
  have hfirst : ∀ a ∈ n.ins, ((E.get q0).map (·.tag)).Perm ((E.get a).map (·.tag)) := by
    intro a ha
    rw [hins] at ha
    rcases List.mem_cons.mp ha with rfl | ha
    · exact List.Perm.refl _
    · exact sameTags_perm_tags (hsame a ha) (hok.distinct q0 hq0) (hok.distinct a (hins ▸ List.mem_cons_of_mem _ ha))
  have hlog : ∀ a ∈ n.ins, ((E.get a).map (·.tag)).Perm ((logs.get a).map (·.tag)) :=
    fun a ha => (hperm a ha).map _
  refine ⟨fun h => ?_, fun q hq => (hok.distinct q hq).perm (hperm q hq), fun a ha b hb => ?_⟩
  · rw [hins] at h
    cases h
  · exact (hlog a ha).symm.trans ((hfirst a ha).symm.trans ((hfirst b hb).trans (hlog b hb)))

/-- **Local step.** For a grouping node whose inputs in `logs` are, up to order, those of a checked
environment, the loop run on the input logs (in their order) emits on output `j` what `nodeOut logs` says,
up to order. -/
theorem group_emitted_perm {E logs : Env} {n : Node} {nouts : Nat} {f : List Val → List (Option Val)}
    (hg : n.groupFn = some (nouts, f)) (hperm : EnvPermOn n.ins E logs) (hok : NodeInputsOk E n)
    (hw : wfNode E n = true) {j : Nat} (hj : j < nouts) :
    (emitted f j (runRounds (n.ins.map logs.get))).Perm ((nodeOut logs n)[j]?.getD []) ∧
    (runRounds (n.ins.map logs.get)).map = [] := by
  obtain ⟨hne, hd, hsame⟩ := group_hyps hg hperm hok hw
  rw [nodeOut_eq_groupStep logs hg]
  exact emitted_perm_groupStep hne hd hsame nouts f hj

/-- an output index of a grouping node is below the number of outputs of its group function -/
theorem group_idx_lt {n : Node} {nouts : Nat} {f : List Val → List (Option Val)}
    (hg : n.groupFn = some (nouts, f)) {j o : Nat} (hj : n.outs[j]? = some o) : j < nouts := by
  rw [groupFn_nouts hg]
  exact (List.getElem?_eq_some_iff.mp hj).1

/-- the conditional node equation of `foldl_nodeDen_perm_cond` holds in every operationally consistent family -/
theorem OpConsistent.node_cond {sp : Spec} {logs : Env} (h : OpConsistent sp logs) :
    ∀ n ∈ sp.nodes, ∀ E', EnvPermOn n.ins E' logs → NodeInputsOk E' n → wfNode E' n = true →
      ∀ (j o : Nat), n.outs[j]? = some o → (logs.get o).Perm ((nodeOut logs n)[j]?.getD []) := by
  intro n hn E' hperm hok hw j o hj
  cases hg : n.groupFn with
  | none => exact h.other n hn hg j o hj
  | some nf =>
    obtain ⟨nouts, f⟩ := nf
    rw [h.group n hn nouts f hg j o hj]
    exact (group_emitted_perm hg hperm hok hw (group_idx_lt hg hj)).1

/-! ## e. operationally consistent families are `den` up to order -/

/-- every port holds `den` up to order, and the inputs of every node are, up to order, a checked environment -/
theorem op_consistent_main (sp : Spec) (hwf : wfStruct sp = true) (hdyn : wfDyn sp = true)
    (logs : Env) (h : OpConsistent sp logs) :
    (∀ p, (logs.get p).Perm ((den sp).get p)) ∧
    (∀ n ∈ sp.nodes, ∃ E', EnvPermOn n.ins E' logs ∧ NodeInputsOk E' n ∧ wfNode E' n = true) :=
  foldl_nodeDen_perm_cond logs sp.nports sp.nodes sp.srcPorts (srcEnv sp) (structOk_of_wfStruct sp hwf)
    (srcEnv_get_notin sp) h.node_cond (nodeInputsOk_of_wf sp hwf hdyn) (dynGo_of_wfDyn sp hdyn)
    (fun p hp => by rw [h.src p hp])

theorem op_consistent_eq_den (sp : Spec) (hwf : wfStruct sp = true) (hdyn : wfDyn sp = true) (logs : Env)
    (h : OpConsistent sp logs) : ∀ p, (logs.get p).Perm ((den sp).get p) :=
  (op_consistent_main sp hwf hdyn logs h).1

/-- an operationally consistent family is consistent in the denotational sense -/
theorem op_consistent_consistent (sp : Spec) (hwf : wfStruct sp = true) (hdyn : wfDyn sp = true) (logs : Env)
    (h : OpConsistent sp logs) : Consistent sp logs :=
  ⟨h.src, fun n hn j o hj => by
    obtain ⟨E', h1, h2, h3⟩ := (op_consistent_main sp hwf hdyn logs h).2 n hn
    exact h.node_cond n hn E' h1 h2 h3 j o hj⟩

/-- in an operationally consistent family the loop of every grouping node ends with an empty `inputs_map`:
no partial group is left behind -/
theorem op_consistent_no_leftover (sp : Spec) (hwf : wfStruct sp = true) (hdyn : wfDyn sp = true) (logs : Env)
    (h : OpConsistent sp logs) (n : Node) (hn : n ∈ sp.nodes) (nouts : Nat) (f : List Val → List (Option Val))
    (hg : n.groupFn = some (nouts, f)) (hpos : 0 < nouts) :
    (runRounds (n.ins.map logs.get)).map = [] := by
  obtain ⟨E', h1, h2, h3⟩ := (op_consistent_main sp hwf hdyn logs h).2 n hn
  exact (group_emitted_perm hg h1 h2 h3 hpos).2

/-! ## f. a concrete operationally consistent family (used by the examples of SFV/Props/C05Op.lean) -/

/-- two source lists, two scatters, a two-input transformer, an exec step -/
def exOp : Spec :=
  { nports := 8, sources := [(0, .list [.int 1, .int 2]), (1, .list [.int 3, .int 4])], closed := [],
    nodes := [.scatter 0 2 3, .scatter 1 4 5, .tf (.lin 0) [2, 4] [6], .exec 7 [6] 7] }

/-- the logs of a run in which the first scatter delivered element 1 before element 0: the two inputs of the
transformer arrive in different orders, the loop fires both tags in its second iteration, tag `[0,1]` first -/
def exOpLogs : Env := ⟨fun p =>
  match p with
  | 0 => [{ tag := [0], val := .list [.int 1, .int 2] }]
  | 1 => [{ tag := [0], val := .list [.int 3, .int 4] }]
  | 2 => [{ tag := [0, 1], val := .int 2 }, { tag := [0, 0], val := .int 1 }]
  | 3 => [{ tag := [0], val := .int 2 }]
  | 4 => [{ tag := [0, 0], val := .int 3 }, { tag := [0, 1], val := .int 4 }]
  | 5 => [{ tag := [0], val := .int 2 }]
  | 6 => [{ tag := [0, 1], val := .int 66 }, { tag := [0, 0], val := .int 34 }]
  | 7 => [{ tag := [0, 1], val := .int 73 }, { tag := [0, 0], val := .int 41 }]
  | _ => []⟩

theorem exOp_opConsistent : OpConsistent exOp exOpLogs where
  src := fun p hp => by
    match p with
    | 0 => rfl
    | 1 => rfl
    | 2 | 3 | 4 | 5 | 6 | 7 => simp [exOp, Node.outs] at hp
    | p + 8 => rfl
  group := fun n hn nouts f hg j o hj => by
    simp only [exOp, List.mem_cons, List.not_mem_nil, or_false] at hn
    rcases hn with rfl | rfl | rfl | rfl
    · simp [Node.groupFn] at hg
    · simp [Node.groupFn] at hg
    · simp only [Node.groupFn, Option.some.injEq, Prod.mk.injEq] at hg
      obtain ⟨rfl, rfl⟩ := hg
      match j with
      | 0 =>
        simp only [Node.outs, List.getElem?_cons_zero, Option.some.injEq] at hj
        subst hj
        rfl
      | j + 1 => simp [Node.outs] at hj
    · simp only [Node.groupFn, Option.some.injEq, Prod.mk.injEq] at hg
      obtain ⟨rfl, rfl⟩ := hg
      match j with
      | 0 =>
        simp only [Node.outs, List.getElem?_cons_zero, Option.some.injEq] at hj
        subst hj
        rfl
      | j + 1 => simp [Node.outs] at hj
  other := fun n hn hg j o hj => by
    simp only [exOp, List.mem_cons, List.not_mem_nil, or_false] at hn
    rcases hn with rfl | rfl | rfl | rfl
    · match j with
      | 0 =>
        simp only [Node.outs, List.getElem?_cons_zero, Option.some.injEq] at hj
        subst hj
        exact List.Perm.swap _ _ _
      | 1 =>
        simp only [Node.outs, List.getElem?_cons_succ, List.getElem?_cons_zero, Option.some.injEq] at hj
        subst hj
        exact List.Perm.refl _
      | j + 2 => simp [Node.outs] at hj
    · match j with
      | 0 =>
        simp only [Node.outs, List.getElem?_cons_zero, Option.some.injEq] at hj
        subst hj
        exact List.Perm.refl _
      | 1 =>
        simp only [Node.outs, List.getElem?_cons_succ, List.getElem?_cons_zero, Option.some.injEq] at hj
        subst hj
        exact List.Perm.refl _
      | j + 2 => simp [Node.outs] at hj
    · simp [Node.groupFn] at hg
    · simp [Node.groupFn] at hg

end SFV.Net
