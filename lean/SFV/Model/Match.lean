import SFV.Gen.MatchGuards
/-! `MatchingRule.eval`, `MatchingBindingFilter.get_targets` (`streamflow/deployment/filter/matching.py`) and the
target loop of `DefaultScheduler.schedule`. Strings (deployment names, services, ports, values) are `Nat` identifiers;
an input value is the identifier of `str(token.value)`; `FileToken`/`ListToken`/`ObjectToken` inputs are `unsupported`.
The comparisons and the collecting discipline come from the generated `SFV.Gen.Match`. -/
namespace SFV.Match
open SFV.Gen.Match

inductive MErr
  | missingInput       -- ValueError: job has no such input
  | unsupportedType    -- WorkflowDefinitionException: file / list / object port
  | noMatch            -- WorkflowExecutionException: no target survives
deriving DecidableEq, Repr

inductive Input
  | scalar (v : Nat)
  | unsupported
deriving DecidableEq, Repr

structure Rule where
  deployment : Nat
  service : Option Nat
  predicates : List (Nat × Nat)     -- port ↦ match, in dict order
deriving DecidableEq, Repr

structure Target where
  id : Nat                          -- identity of the Target object
  deployment : Nat
  service : Option Nat
deriving DecidableEq, Repr

abbrev Inputs := List (Nat × Input)

def lookupInput : Inputs → Nat → Option Input
  | [], _ => none
  | (p, v) :: rest, q => if p = q then some v else lookupInput rest q

/-- the `for input_name, match in self.predicates.items()` loop -/
def evalPreds (inputs : Inputs) : List (Nat × Nat) → Except MErr Bool
  | [] => .ok true
  | (p, m) :: rest =>
      match lookupInput inputs p with
      | none => .error .missingInput
      | some .unsupported => .error .unsupportedType
      | some (.scalar v) => if valueMismatch m v then .ok false else evalPreds inputs rest

/-- `MatchingRule.eval(job, deployment, service)` -/
def Rule.eval (r : Rule) (inputs : Inputs) (dep : Nat) (service : Option Nat) : Except MErr Bool :=
  if depMismatch dep r.deployment then .ok false
  else if serviceMismatch r.service service then .ok false
  else evalPreds inputs r.predicates

/-- `any(rule.eval(...) for rule in self.matching_rules)` — lazy, left to right, exceptions propagate -/
def anyRule (inputs : Inputs) (t : Target) : List Rule → Except MErr Bool
  | [] => .ok false
  | r :: rs =>
      match r.eval inputs t.deployment t.service with
      | .error e => .error e
      | .ok true => .ok true
      | .ok false => anyRule inputs t rs

/-- `all(...)` (only reachable if the source is edited) -/
def allRule (inputs : Inputs) (t : Target) : List Rule → Except MErr Bool
  | [] => .ok true
  | r :: rs =>
      match r.eval inputs t.deployment t.service with
      | .error e => .error e
      | .ok false => .ok false
      | .ok true => allRule inputs t rs

def keeps (rules : List Rule) (inputs : Inputs) (t : Target) : Except MErr Bool :=
  if keepsIfAnyRule then anyRule inputs t rules else allRule inputs t rules

/-- the `for target in targets` loop with the insertion-ordered container -/
def collect (rules : List Rule) (inputs : Inputs) : List Target → List Target → Except MErr (List Target)
  | [], acc => .ok acc
  | t :: ts, acc =>
      match keeps rules inputs t with
      | .error e => .error e
      | .ok false => collect rules inputs ts acc
      | .ok true =>
          if dropsDuplicates && acc.any (fun x => x.id == t.id) then collect rules inputs ts acc
          else collect rules inputs ts (acc ++ [t])

/-- `MatchingBindingFilter.get_targets(job, targets)` -/
def getTargets (rules : List Rule) (inputs : Inputs) (targets : List Target) : Except MErr (List Target) :=
  match collect rules inputs targets [] with
  | .error e => .error e
  | .ok r => if r.isEmpty then .error .noMatch else .ok r

/-- `for f in filters: targets = await f.get_targets(job, targets)` -/
def foldFilters (inputs : Inputs) : List (List Rule) → List Target → Except MErr (List Target)
  | [], ts => .ok ts
  | f :: fs, ts =>
      match getTargets f inputs ts with
      | .error e => .error e
      | .ok ts' => foldFilters inputs fs ts'

/-- a `FilterConfig` of the binding: name, type (`matching`) and the rules of its `config` -/
structure FilterCfg where
  name : Nat
  type : Nat
  rules : List Rule
deriving DecidableEq, Repr

/-- `DefaultScheduler.binding_filter_map`: cache key ↦ the filter object built first under that key (its rules) -/
abbrev FilterEnv := List (Nat × List Rule)

def envGet : FilterEnv → Nat → Option (List Rule)
  | [], _ => none
  | (k, r) :: rest, x => if k = x then some r else envGet rest x

/-- `_get_binding_filter(config)`: build the filter on first use of its cache key, reuse it afterwards -/
def getBindingFilter (env : FilterEnv) (c : FilterCfg) : FilterEnv × List Rule :=
  match envGet env (filterCacheKey c.name c.type) with
  | some r => (env, r)
  | none => (env ++ [(filterCacheKey c.name c.type, c.rules)], c.rules)

/-- the filter loop of `schedule()` on one scheduler: `for f in (self._get_binding_filter(f) for f in filters)`
    (filters are looked up lazily: after an exception the later ones are not built) -/
def scheduleFilters (inputs : Inputs) : FilterEnv → List FilterCfg → List Target → FilterEnv × Except MErr (List Target)
  | env, [], ts => (env, .ok ts)
  | env, c :: cs, ts =>
      match getTargets (getBindingFilter env c).2 inputs ts with
      | .error e => ((getBindingFilter env c).1, .error e)
      | .ok ts' => scheduleFilters inputs (getBindingFilter env c).1 cs ts'

/-- a rule matches a target for the job's inputs (the property's words) -/
def Matches (r : Rule) (inputs : Inputs) (t : Target) : Prop :=
  r.deployment = t.deployment ∧ (r.service = none ∨ r.service = t.service) ∧
  ∀ pm ∈ r.predicates, lookupInput inputs pm.1 = some (.scalar pm.2)

/-- the first pass of the tasks `schedule()` creates, in target order: the first target that fits allocates
    (`fits` = the critical section of `_process_target` finds enough valid locations) -/
def firstPass {σ : Type} (fits : σ → Target → Bool) (alloc : σ → Target → σ) (s : σ) : List Target → Option (Target × σ)
  | [] => none
  | t :: ts => if fits s t then some (t, alloc s t) else firstPass fits alloc s ts

end SFV.Match
