"""Encoding of streamflow `Hardware` / `Storage` values for the line protocol of the C10–C14 drivers
(lean/SFV/Model/HWProto.lean): strings become small integers in ONE namespace (os.sep -> 0), floats become exact
rationals `n` or `n/d` (fractions.Fraction of a float is exact)."""
from __future__ import annotations

import os
from fractions import Fraction


class Names:
    def __init__(self):
        self.ids: dict[str, int] = {os.sep: 0}
        self.rev: list[str] = [os.sep]

    def id(self, s: str) -> int:
        if s not in self.ids:
            self.ids[s] = len(self.rev)
            self.rev.append(s)
        return self.ids[s]

    def name(self, i: int) -> str:
        return self.rev[i]


def rat(x) -> str:
    f = x if isinstance(x, Fraction) else Fraction(x)
    return str(f.numerator) if f.denominator == 1 else f"{f.numerator}/{f.denominator}"


def enc_storage(key: str, s, names: Names) -> str:
    paths = "+".join(str(i) for i in sorted(names.id(p) for p in (s.paths or ()))) or "-"
    bind = "-" if s.bind is None else str(names.id(s.bind))
    return f"{names.id(key)}:{names.id(s.mount_point)}:{rat(s.size)}:{paths}:{bind}"


def enc_hw(h, names: Names) -> str:
    return "|".join([rat(h.cores), rat(h.memory)] + [enc_storage(k, s, names) for k, s in h.storage.items()])


def totals(h) -> dict[str, Fraction]:
    """exact per-mount totals of a Hardware"""
    out: dict[str, Fraction] = {}
    for s in h.storage.values():
        out[s.mount_point] = out.get(s.mount_point, Fraction(0)) + Fraction(s.size)
    return out


def exc_kind(e: BaseException) -> str:
    from streamflow.core.exception import WorkflowExecutionException
    if isinstance(e, WorkflowExecutionException):
        msg = str(e)
        if "negative size" in msg:
            return "negativeSize"
        if "Invalid `Hardware` comparison" in msg:
            return "missingStorage"
        if "Could not retrieve allocation" in msg:
            return "unknownJob"
        return "WorkflowExecutionException"
    if isinstance(e, ArithmeticError):
        return "mountMismatch"
    if isinstance(e, KeyError):
        return "keyError"
    return type(e).__name__
