import SFV.Model.WorkflowStore
/-! Lemmas for the whole-workflow round trip (`SFV.Props.C08`): what `savePorts` / `saveSteps` leave in the tables, and the
lookups `idOf` / `portName` being inverse to each other on freshly saved ports. -/
namespace SFV.WfStore

/-- the ports after `savePorts`: ids `n, n+1, …` -/
def assignP : Nat → List PortE → List PortE
  | _, [] => []
  | n, p :: ps => { p with pid := some n } :: assignP (n + 1) ps

def rowOfPort (wid : Nat) (p : PortE) : PortRow := ⟨p.pid.getD 0, wid, p.name, p.cls, p.params⟩

theorem savePorts_eq (wid : Nat) : ∀ (ps : List PortE) (db : DB), (∀ p ∈ ps, p.pid = none) →
    savePorts wid db ps =
      ({ db with next := db.next + ps.length, ports := db.ports ++ (assignP db.next ps).map (rowOfPort wid) }, assignP db.next ps) := by
  intro ps
  induction ps with
  | nil => intro db _; simp [savePorts, assignP]
  | cons p ps ih =>
    intro db h
    have hp : p.pid = none := h p List.mem_cons_self
    have ht : ∀ q ∈ ps, q.pid = none := fun q hq => h q (List.mem_cons_of_mem _ hq)
    simp only [savePorts, savePort, hp, ih _ ht, assignP, List.map_cons, List.length_cons, rowOfPort, Option.getD_some]
    refine Prod.ext ?_ rfl
    simp only [List.append_assoc, List.singleton_append]
    congr 1
    omega

theorem idOf_ge : ∀ (ps : List PortE) (n : Nat) (name : String), name ∈ ps.map (·.name) → n ≤ idOf (assignP n ps) name := by
  intro ps
  induction ps with
  | nil => intro n name h; cases h
  | cons p ps ih =>
    intro n name h
    simp only [assignP, idOf]
    by_cases e : p.name = name
    · simp [e]
    · simp only [e, if_false]
      have : name ∈ ps.map (·.name) := by
        rcases List.mem_cons.mp h with h | h
        · exact absurd h.symm e
        · exact h
      have := ih (n + 1) name this
      omega

theorem portName_idOf (wid : Nat) : ∀ (ps : List PortE) (n : Nat) (name : String), name ∈ ps.map (·.name) →
    portName ((assignP n ps).map (rowOfPort wid)) (idOf (assignP n ps) name) = name := by
  intro ps
  induction ps with
  | nil => intro n name h; cases h
  | cons p ps ih =>
    intro n name h
    simp only [assignP, idOf, List.map_cons, portName, rowOfPort, Option.getD_some]
    by_cases e : p.name = name
    · simp [e]
    · simp only [e, if_false]
      have hm : name ∈ ps.map (·.name) := by
        rcases List.mem_cons.mp h with h | h
        · exact absurd h.symm e
        · exact h
      have hge := idOf_ge ps (n + 1) name hm
      have : ¬ n = idOf (assignP (n + 1) ps) name := by omega
      simp only [this, if_false]
      exact ih (n + 1) name hm

theorem portName_append_old (old new : List PortRow) (i : Nat) (h : ∀ r ∈ old, r.id ≠ i) :
    portName (old ++ new) i = portName new i := by
  induction old with
  | nil => rfl
  | cons r old ih =>
    simp only [List.cons_append, portName]
    have : ¬ r.id = i := h r List.mem_cons_self
    simp only [this, if_false]
    exact ih (fun r hr => h r (List.mem_cons_of_mem _ hr))

/-! ### steps -/

def assignS : Nat → List StepE → List StepE
  | _, [] => []
  | n, s :: ss => { s with pid := some n } :: assignS (n + 1) ss

def stepRow (wid : Nat) (P : List PortE) (n : Nat) (s : StepE) : StepRow :=
  ⟨n, wid, s.name, s.cls, s.status, s.params.map (fun kv => (kv.1, encode P kv.2))⟩

def stepRows (wid : Nat) (P : List PortE) : Nat → List StepE → List StepRow
  | _, [] => []
  | n, s :: ss => stepRow wid P n s :: stepRows wid P (n + 1) ss

def depRows (P : List PortE) : Nat → List StepE → List DepRow
  | _, [] => []
  | n, s :: ss => depsOf P n s ++ depRows P (n + 1) ss

/-- the connections of a step go to different port rows (the key of `dependency`) -/
def connIdsNodup (P : List PortE) (s : StepE) : Prop := ((s.ins ++ s.outs).map (fun c => idOf P c.2)).Nodup

theorem foldl_addDep_fresh : ∀ (ds T : List DepRow),
    (∀ e ∈ T, ∀ d ∈ ds, ¬ (e.step = d.step ∧ e.port = d.port)) →
    ds.Pairwise (fun a b => ¬ (a.step = b.step ∧ a.port = b.port)) →
    ds.foldl addDep T = T ++ ds := by
  intro ds
  induction ds with
  | nil => intro T _ _; simp
  | cons d ds ih =>
    intro T hT hp
    have hd : addDep T d = T ++ [d] := by
      unfold addDep
      have : T.any (fun e => decide (e.step = d.step ∧ e.port = d.port)) = false := by
        simp only [List.any_eq_false, decide_eq_true_eq]
        exact fun e he => hT e he d List.mem_cons_self
      rw [this]; rfl
    rw [List.foldl_cons, hd, ih]
    · simp
    · intro e he d' hd'
      rcases List.mem_append.mp he with he | he
      · exact hT e he d' (List.mem_cons_of_mem _ hd')
      · simp only [List.mem_singleton] at he
        subst he
        exact (List.pairwise_cons.mp hp).1 d' hd'
    · exact (List.pairwise_cons.mp hp).2

theorem depsOf_step (P : List PortE) (sid : Nat) (s : StepE) : ∀ d ∈ depsOf P sid s, d.step = sid := by
  intro d hd
  simp only [depsOf, List.mem_append, List.mem_map] at hd
  rcases hd with ⟨c, _, rfl⟩ | ⟨c, _, rfl⟩ <;> rfl

theorem depsOf_pairwise (P : List PortE) (sid : Nat) (s : StepE) (h : connIdsNodup P s) :
    (depsOf P sid s).Pairwise (fun a b => ¬ (a.step = b.step ∧ a.port = b.port)) := by
  have h' : ((depsOf P sid s).map (·.port)).Nodup := by
    have : (depsOf P sid s).map (·.port) = (s.ins ++ s.outs).map (fun c => idOf P c.2) := by
      simp [depsOf, List.map_append, List.map_map, Function.comp_def]
    rw [this]; exact h
  have h2 := List.pairwise_map.mp h'
  exact h2.imp (fun hne hc => hne hc.2)

theorem saveSteps_eq (wid : Nat) (P : List PortE) : ∀ (ss : List StepE) (db : DB), (∀ s ∈ ss, s.pid = none) →
    (∀ d ∈ db.deps, d.step < db.next) → (∀ s ∈ ss, connIdsNodup P s) →
    saveSteps wid P db ss =
      ({ db with next := db.next + ss.length, steps := db.steps ++ stepRows wid P db.next ss,
                 deps := db.deps ++ depRows P db.next ss }, assignS db.next ss) := by
  intro ss
  induction ss with
  | nil => intro db _ _ _; simp [saveSteps, assignS, stepRows, depRows]
  | cons s ss ih =>
    intro db h hdeps hn
    have hs : s.pid = none := h s List.mem_cons_self
    have hfold : (depsOf P db.next s).foldl addDep db.deps = db.deps ++ depsOf P db.next s := by
      apply foldl_addDep_fresh
      · intro e he d hd hc
        have := depsOf_step P db.next s d hd
        have := hdeps e he
        omega
      · exact depsOf_pairwise P db.next s (hn s List.mem_cons_self)
    have hstep : saveStep wid P db s =
        ({ db with next := db.next + 1, steps := db.steps ++ [stepRow wid P db.next s], deps := db.deps ++ depsOf P db.next s },
         { s with pid := some db.next }) := by
      simp only [saveStep, hs, Option.getD_some, hfold, stepRow]
    simp only [saveSteps, hstep]
    rw [ih]
    · simp only [assignS, stepRows, depRows, List.length_cons]
      refine Prod.ext ?_ rfl
      simp only [List.append_assoc, List.singleton_append]
      congr 1
      omega
    · exact fun q hq => h q (List.mem_cons_of_mem _ hq)
    · intro d hd
      simp only at hd ⊢
      rcases List.mem_append.mp hd with hd | hd
      · have := hdeps d hd; omega
      · have := depsOf_step P db.next s d hd; omega
    · exact fun q hq => hn q (List.mem_cons_of_mem _ hq)

/-! ### load -/

theorem map_eq_self {α : Type} (f : α → α) : ∀ (l : List α), (∀ x ∈ l, f x = x) → l.map f = l := by
  intro l
  induction l with
  | nil => intro _; rfl
  | cons a l ih =>
    intro h
    simp only [List.map_cons, h a List.mem_cons_self, ih (fun x hx => h x (List.mem_cons_of_mem _ hx))]

theorem depRows_step_ge (P : List PortE) : ∀ (ss : List StepE) (m : Nat) (d : DepRow), d ∈ depRows P m ss → m ≤ d.step := by
  intro ss
  induction ss with
  | nil => intro m d h; cases h
  | cons s ss ih =>
    intro m d h
    simp only [depRows] at h
    rcases List.mem_append.mp h with h | h
    · have := depsOf_step P m s d h; omega
    · have := ih (m + 1) d h; omega

/-- the lookups are inverse on everything the step mentions -/
def StepE.back (P : List PortE) (PR : List PortRow) (s : StepE) : Prop :=
  (∀ c ∈ s.ins ++ s.outs, portName PR (idOf P c.2) = c.2) ∧ (∀ kv ∈ s.params, ∀ n, kv.2 = .port n → portName PR (idOf P n) = n)

theorem filter_depsOf (P : List PortE) (PR : List PortRow) (sid : Nat) (s : StepE) (hb : s.back P PR) :
    ((depsOf P sid s).filter (fun d => d.step == sid && d.input)).map (fun d => (d.name, portName PR d.port)) = s.ins ∧
    ((depsOf P sid s).filter (fun d => d.step == sid && !d.input)).map (fun d => (d.name, portName PR d.port)) = s.outs := by
  have hin : ∀ c ∈ s.ins, portName PR (idOf P c.2) = c.2 := fun c hc => hb.1 c (List.mem_append_left _ hc)
  have hout : ∀ c ∈ s.outs, portName PR (idOf P c.2) = c.2 := fun c hc => hb.1 c (List.mem_append_right _ hc)
  simp only [depsOf, List.filter_append, List.filter_map, List.map_append, List.map_map]
  constructor
  · have h1 : s.ins.filter ((fun d : DepRow => d.step == sid && d.input) ∘ fun c => ⟨sid, idOf P c.2, true, c.1⟩) = s.ins := by
      apply List.filter_eq_self.mpr; intro c _; simp
    have h2 : s.outs.filter ((fun d : DepRow => d.step == sid && d.input) ∘ fun c => ⟨sid, idOf P c.2, false, c.1⟩) = [] := by
      apply List.filter_eq_nil_iff.mpr; intro c _; simp
    rw [h1, h2]
    simp only [List.map_nil, List.append_nil]
    exact map_eq_self _ _ (fun c hc => by simp [hin c hc])
  · have h1 : s.ins.filter ((fun d : DepRow => d.step == sid && !d.input) ∘ fun c => ⟨sid, idOf P c.2, true, c.1⟩) = [] := by
      apply List.filter_eq_nil_iff.mpr; intro c _; simp
    have h2 : s.outs.filter ((fun d : DepRow => d.step == sid && !d.input) ∘ fun c => ⟨sid, idOf P c.2, false, c.1⟩) = s.outs := by
      apply List.filter_eq_self.mpr; intro c _; simp
    rw [h1, h2]
    simp only [List.map_nil, List.nil_append]
    exact map_eq_self _ _ (fun c hc => by simp [hout c hc])

theorem loadStepFrom_row (wid : Nat) (P : List PortE) (PR : List PortRow) (T rest : List DepRow) (m : Nat) (s : StepE)
    (hT : ∀ d ∈ T, d.step < m) (hrest : ∀ d ∈ rest, m < d.step) (hb : s.back P PR) :
    loadStepFrom PR (T ++ (depsOf P m s ++ rest)) (stepRow wid P m s) = { s with pid := some m } := by
  have hTt : T.filter (fun d => d.step == m && d.input) = [] := by
    apply List.filter_eq_nil_iff.mpr; intro d hd; have := hT d hd; simp; omega
  have hTf : T.filter (fun d => d.step == m && !d.input) = [] := by
    apply List.filter_eq_nil_iff.mpr; intro d hd; have := hT d hd; simp; omega
  have hRt : rest.filter (fun d => d.step == m && d.input) = [] := by
    apply List.filter_eq_nil_iff.mpr; intro d hd; have := hrest d hd; simp; omega
  have hRf : rest.filter (fun d => d.step == m && !d.input) = [] := by
    apply List.filter_eq_nil_iff.mpr; intro d hd; have := hrest d hd; simp; omega
  obtain ⟨h1, h2⟩ := filter_depsOf P PR m s hb
  have hpar : (s.params.map (fun kv => (kv.1, encode P kv.2))).map (fun kv => (kv.1, decode PR kv.2)) = s.params := by
    rw [List.map_map]
    apply map_eq_self
    intro kv hkv
    obtain ⟨k, v⟩ := kv
    cases v with
    | plain v => rfl
    | port n => simp [encode, decode, hb.2 (k, .port n) hkv n rfl]
  simp only [loadStepFrom, stepRow, List.filter_append, hTt, hTf, hRt, hRf, List.nil_append, List.append_nil, h1, h2, hpar]

theorem load_stepRows (wid : Nat) (P : List PortE) (PR : List PortRow) : ∀ (ss : List StepE) (m : Nat) (T : List DepRow),
    (∀ d ∈ T, d.step < m) → (∀ s ∈ ss, s.back P PR) →
    (stepRows wid P m ss).map (loadStepFrom PR (T ++ depRows P m ss)) = assignS m ss := by
  intro ss
  induction ss with
  | nil => intro m T _ _; rfl
  | cons s ss ih =>
    intro m T hT hb
    simp only [stepRows, depRows, List.map_cons, assignS]
    rw [loadStepFrom_row wid P PR T _ m s hT (fun d hd => by have := depRows_step_ge P ss (m + 1) d hd; omega)
      (hb s List.mem_cons_self)]
    congr 1
    rw [← List.append_assoc]
    apply ih (m + 1) (T ++ depsOf P m s)
    · intro d hd
      rcases List.mem_append.mp hd with hd | hd
      · have := hT d hd; omega
      · have := depsOf_step P m s d hd; omega
    · exact fun q hq => hb q (List.mem_cons_of_mem _ hq)

theorem assignP_names : ∀ (ps : List PortE) (n : Nat), (assignP n ps).map (·.name) = ps.map (·.name) := by
  intro ps
  induction ps with
  | nil => intro n; rfl
  | cons p ps ih => intro n; simp [assignP, ih]

theorem load_portRows (wid : Nat) : ∀ (ps : List PortE) (n : Nat),
    ((assignP n ps).map (rowOfPort wid)).map loadPort = assignP n ps := by
  intro ps
  induction ps with
  | nil => intro n; rfl
  | cons p ps ih => intro n; simp [assignP, rowOfPort, loadPort, ih]

theorem assignP_noId : ∀ (ps : List PortE) (n : Nat), (∀ p ∈ ps, p.pid = none) → (assignP n ps).map PortE.noId = ps := by
  intro ps
  induction ps with
  | nil => intro n _; rfl
  | cons p ps ih =>
    intro n h
    have hp : p.pid = none := h p List.mem_cons_self
    simp only [assignP, List.map_cons, ih (n + 1) (fun q hq => h q (List.mem_cons_of_mem _ hq))]
    congr 1
    cases p; simp_all [PortE.noId]

theorem assignS_noId : ∀ (ss : List StepE) (n : Nat), (∀ s ∈ ss, s.pid = none) → (assignS n ss).map StepE.noId = ss := by
  intro ss
  induction ss with
  | nil => intro n _; rfl
  | cons s ss ih =>
    intro n h
    have hp : s.pid = none := h s List.mem_cons_self
    simp only [assignS, List.map_cons, ih (n + 1) (fun q hq => h q (List.mem_cons_of_mem _ hq))]
    congr 1
    cases s; simp_all [StepE.noId]

theorem assignP_wf (wid : Nat) : ∀ (ps : List PortE) (n : Nat) (r : PortRow), r ∈ (assignP n ps).map (rowOfPort wid) →
    r.wf = wid ∧ n ≤ r.id ∧ r.id < n + ps.length := by
  intro ps
  induction ps with
  | nil => intro n r h; cases h
  | cons p ps ih =>
    intro n r h
    simp only [assignP, List.map_cons, List.mem_cons] at h
    rcases h with rfl | h
    · simp [rowOfPort]
    · have := ih (n + 1) r h
      simp only [List.length_cons]; omega

theorem stepRows_wf (wid : Nat) (P : List PortE) : ∀ (ss : List StepE) (n : Nat) (r : StepRow), r ∈ stepRows wid P n ss →
    r.wf = wid ∧ n ≤ r.id ∧ r.id < n + ss.length := by
  intro ss
  induction ss with
  | nil => intro n r h; cases h
  | cons s ss ih =>
    intro n r h
    simp only [stepRows, List.mem_cons] at h
    rcases h with rfl | h
    · simp [stepRow]
    · have := ih (n + 1) r h
      simp only [List.length_cons]; omega

/-! ### the whole workflow -/

theorem nodup_map_on {α β : Type} (f : α → β) : ∀ (l : List α), l.Nodup → (∀ a ∈ l, ∀ b ∈ l, f a = f b → a = b) → (l.map f).Nodup := by
  intro l
  induction l with
  | nil => intro _ _; exact List.nodup_nil
  | cons a l ih =>
    intro hn hinj
    obtain ⟨ha, hl⟩ := List.nodup_cons.mp hn
    simp only [List.map_cons, List.nodup_cons]
    refine ⟨?_, ih hl (fun x hx y hy => hinj x (List.mem_cons_of_mem _ hx) y (List.mem_cons_of_mem _ hy))⟩
    intro hm
    obtain ⟨b, hb, hfb⟩ := List.mem_map.mp hm
    have := hinj b (List.mem_cons_of_mem _ hb) a List.mem_cons_self hfb
    exact ha (this ▸ hb)

/-- the state after `Workflow.save` of a fresh workflow -/
def savedDB (db : DB) (w : WF) : DB :=
  let n := db.next
  let P := assignP (n + 1) w.ports
  let m := n + 1 + w.ports.length
  { next := m + w.steps.length,
    wfs := db.wfs ++ [⟨n, w.name, w.params⟩],
    ports := db.ports ++ P.map (rowOfPort n),
    steps := db.steps ++ stepRows n P m w.steps,
    deps := db.deps ++ depRows P m w.steps }

def savedWF (db : DB) (w : WF) : WF :=
  { w with ports := assignP (db.next + 1) w.ports, steps := assignS (db.next + 1 + w.ports.length) w.steps, pid := some db.next }

theorem back_of_wf (db : DB) (w : WF) (hdb : db.ok) (s : StepE) (hs : s.wf (portNames w)) :
    s.back (assignP (db.next + 1) w.ports) (db.ports ++ (assignP (db.next + 1) w.ports).map (rowOfPort db.next)) := by
  have key : ∀ name ∈ portNames w,
      portName (db.ports ++ (assignP (db.next + 1) w.ports).map (rowOfPort db.next)) (idOf (assignP (db.next + 1) w.ports) name) = name := by
    intro name hn
    rw [portName_append_old]
    · exact portName_idOf db.next w.ports (db.next + 1) name hn
    · intro r hr
      have := (hdb.2.1 r hr).1
      have := idOf_ge w.ports (db.next + 1) name hn
      omega
  exact ⟨fun c hc => key c.2 (hs.1 c hc), fun kv hkv n hn => key n (by have := hs.2.2 kv hkv; rw [hn] at this; exact this)⟩

theorem connIdsNodup_of_wf (db : DB) (w : WF) (hdb : db.ok) (s : StepE) (hs : s.wf (portNames w)) :
    connIdsNodup (assignP (db.next + 1) w.ports) s := by
  have hb := back_of_wf db w hdb s hs
  unfold connIdsNodup
  have : (s.ins ++ s.outs).map (fun c => idOf (assignP (db.next + 1) w.ports) c.2) =
      ((s.ins ++ s.outs).map (·.2)).map (idOf (assignP (db.next + 1) w.ports)) := by
    rw [List.map_map]; rfl
  rw [this]
  apply nodup_map_on _ _ hs.2.1
  intro a ha b hb' hab
  obtain ⟨ca, hca, rfl⟩ := List.mem_map.mp ha
  obtain ⟨cb, hcb, rfl⟩ := List.mem_map.mp hb'
  have h1 := hb.1 ca hca
  have h2 := hb.1 cb hcb
  rw [hab] at h1
  exact h1.symm.trans h2

theorem saveWf_eq (db : DB) (w : WF) (hdb : db.ok) (hf : w.fresh) (hw : w.wf) :
    saveWf db w = (savedDB db w, savedWF db w) := by
  obtain ⟨hpid, hports, hsteps⟩ := hf
  have hP := savePorts_eq db.next w.ports
    { db with next := db.next + 1, wfs := db.wfs ++ [⟨db.next, w.name, w.params⟩] } hports
  simp only [saveWf, hpid, hP]
  rw [saveSteps_eq]
  · rfl
  · exact hsteps
  · intro d hd
    have := hdb.2.2.2 d hd
    simp only at hd ⊢
    have := hdb.2.2.2 d hd
    omega
  · exact fun s hs => connIdsNodup_of_wf db w hdb s (hw s hs)

theorem loadWf_saved (db : DB) (w : WF) (hdb : db.ok) (hw : w.wf) :
    loadWf (savedDB db w) db.next = some (savedWF db w) := by
  have hfind : (db.wfs ++ [(⟨db.next, w.name, w.params⟩ : WfRow)]).find? (fun r => r.id = db.next) = some ⟨db.next, w.name, w.params⟩ := by
    rw [List.find?_append]
    have : db.wfs.find? (fun r => decide (r.id = db.next)) = none := by
      apply List.find?_eq_none.mpr
      intro r hr
      have := hdb.1 r hr
      simp; omega
    rw [this]; simp
  have hpf : (db.ports ++ (assignP (db.next + 1) w.ports).map (rowOfPort db.next)).filter (fun p => p.wf = db.next) =
      (assignP (db.next + 1) w.ports).map (rowOfPort db.next) := by
    rw [List.filter_append]
    have h1 : db.ports.filter (fun p => decide (p.wf = db.next)) = [] := by
      apply List.filter_eq_nil_iff.mpr; intro r hr; have := (hdb.2.1 r hr).2; simp; omega
    have h2 : ((assignP (db.next + 1) w.ports).map (rowOfPort db.next)).filter (fun p => decide (p.wf = db.next)) =
        (assignP (db.next + 1) w.ports).map (rowOfPort db.next) := by
      apply List.filter_eq_self.mpr; intro r hr; have := (assignP_wf db.next w.ports (db.next + 1) r hr).1; simp [this]
    rw [h1, h2]; rfl
  have hsf : (db.steps ++ stepRows db.next (assignP (db.next + 1) w.ports) (db.next + 1 + w.ports.length) w.steps).filter
      (fun s => s.wf = db.next) = stepRows db.next (assignP (db.next + 1) w.ports) (db.next + 1 + w.ports.length) w.steps := by
    rw [List.filter_append]
    have h1 : db.steps.filter (fun s => decide (s.wf = db.next)) = [] := by
      apply List.filter_eq_nil_iff.mpr; intro r hr; have := (hdb.2.2.1 r hr).2; simp; omega
    have h2 : (stepRows db.next (assignP (db.next + 1) w.ports) (db.next + 1 + w.ports.length) w.steps).filter
        (fun s => decide (s.wf = db.next)) = stepRows db.next (assignP (db.next + 1) w.ports) (db.next + 1 + w.ports.length) w.steps := by
      apply List.filter_eq_self.mpr; intro r hr; have := (stepRows_wf _ _ _ _ r hr).1; simp [this]
    rw [h1, h2]; rfl
  have hsteps := load_stepRows db.next (assignP (db.next + 1) w.ports)
    (db.ports ++ (assignP (db.next + 1) w.ports).map (rowOfPort db.next)) w.steps (db.next + 1 + w.ports.length) db.deps
    (fun d hd => by have := hdb.2.2.2 d hd; omega)
    (fun s hs => back_of_wf db w hdb s (hw s hs))
  simp only [loadWf, savedDB, hfind, hpf, hsf, load_portRows, savedWF]
  congr 2

theorem depRows_step_lt (P : List PortE) : ∀ (ss : List StepE) (m : Nat) (d : DepRow), d ∈ depRows P m ss → d.step < m + ss.length := by
  intro ss
  induction ss with
  | nil => intro m d h; cases h
  | cons s ss ih =>
    intro m d h
    simp only [depRows] at h
    simp only [List.length_cons]
    rcases List.mem_append.mp h with h | h
    · have := depsOf_step P m s d h; omega
    · have := ih (m + 1) d h; omega

theorem savedDB_ok (db : DB) (w : WF) (hdb : db.ok) : (savedDB db w).ok := by
  refine ⟨?_, ?_, ?_, ?_⟩
  · intro r hr
    simp only [savedDB] at hr ⊢
    rcases List.mem_append.mp hr with h | h
    · have := hdb.1 r h; omega
    · simp only [List.mem_singleton] at h; subst h; simp only; omega
  · intro r hr
    simp only [savedDB] at hr ⊢
    rcases List.mem_append.mp hr with h | h
    · have := hdb.2.1 r h; omega
    · have := assignP_wf db.next w.ports (db.next + 1) r h; omega
  · intro r hr
    simp only [savedDB] at hr ⊢
    rcases List.mem_append.mp hr with h | h
    · have := hdb.2.2.1 r h; omega
    · have := stepRows_wf _ _ _ _ r h; omega
  · intro d hd
    simp only [savedDB] at hd ⊢
    rcases List.mem_append.mp hd with h | h
    · have := hdb.2.2.2 d h; omega
    · have := depRows_step_lt _ _ _ d h; omega

theorem savedWF_noIds (db : DB) (w : WF) (hf : w.fresh) : (savedWF db w).noIds = w := by
  obtain ⟨hpid, hports, hsteps⟩ := hf
  cases w with
  | mk name params ports steps pid =>
    simp only at hpid hports hsteps
    subst hpid
    simp only [savedWF, WF.noIds, assignP_noId ports _ hports, assignS_noId steps _ hsteps]

end SFV.WfStore
