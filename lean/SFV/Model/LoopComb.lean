/-! # The reading protocol of `LoopCombinatorStep.run` (C04, second known finding)

    for port: checklist[port] = set(); start a read on port
    while reads pending:
        token <- some finished read on `port`
        TerminationToken(status): if status != COMPLETED: checklist[port].clear()        -- as written
                                  [repaired: if status in (FAILED, CANCELLED): failed = True; cancel the reads of
                                   the ports that already terminated]
                                  terminated += port
        IterationTerminationToken(tag): checklist[port].discard(tag)
        data token(tag): if prefix(tag) not in checklist[port]: checklist[port].add(tag); combine (abstracted)
        if not (port in terminated and ([repaired: failed or] checklist[port] empty)): start a new read on port

Ports are FIFO streams that end with their termination token (the producer terminated). `fixed = true` is the
repaired loop (fix 4e89c00, the current source; extracted on every run as `Gen.loopStopsAfterFailure`): after a FAILED / CANCELLED termination the reads of
already terminated ports are cancelled and a terminated port is never read again. -/
namespace SFV.LoopComb

abbrev Tag := List Nat

/-- status carried by a termination token, as far as the loop distinguishes it -/
inductive TermSt where
  | completed
  | skipped                   -- any other non-failure status (SKIPPED, RECOVERED)
  | failed                    -- FAILED or CANCELLED
deriving DecidableEq, Repr

inductive Tok where
  | data (t : Tag)
  | iterTerm (t : Tag)
  | term (st : TermSt)        -- TerminationToken
deriving DecidableEq, Repr

structure PortSt where
  stream     : List Tok       -- tokens not yet read (what the producers will still deliver)
  pending    : Bool           -- a read of this port is outstanding
  terminated : Bool
  checklist  : List Tag
deriving DecidableEq, Repr

structure St where
  ports  : List PortSt
  failed : Bool               -- only used by the repaired loop
deriving DecidableEq, Repr

def initSt (streams : List (List Tok)) : St :=
  { ports := streams.map (fun s => { stream := s, pending := true, terminated := false, checklist := [] }), failed := false }

def prefixOf (t : Tag) : Tag := t.dropLast

/-- the effect of one token on its port (before deciding whether to read again) -/
def consume (p : PortSt) : Tok → PortSt
  | .term st => { p with checklist := if st = .completed then p.checklist else [], terminated := true }
  | .iterTerm t => { p with checklist := p.checklist.erase t }
  | .data t => if p.checklist.contains (prefixOf t) then p else { p with checklist := p.checklist ++ [t] }

/-- `recv i`: the outstanding read of port `i` returns the next token of its stream -/
def step (fixed : Bool) (s : St) (i : Nat) : Option St :=
  match s.ports[i]? with
  | none => none
  | some p =>
      if p.pending then
        match p.stream with
        | [] => none                                   -- nothing will ever arrive: the read blocks forever
        | tok :: rest =>
            let p1 := consume { p with stream := rest } tok
            let bad := match tok with | .term .failed => true | _ => false
            let failed' := s.failed || (fixed && bad)
            let rearm := if fixed then !(p1.terminated && (failed' || p1.checklist.isEmpty))
                         else !(p1.terminated && p1.checklist.isEmpty)
            let p2 := { p1 with pending := rearm }
            let ports := s.ports.set i p2
            -- repaired loop: a failure cancels the reads of the ports that already terminated
            let ports := if fixed && bad then ports.map (fun q => if q.terminated then { q with pending := false } else q) else ports
            some { ports := ports, failed := failed' }
      else none

def run (fixed : Bool) : St → List Nat → Option St
  | s, [] => some s
  | s, i :: is => match step fixed s i with
    | some s' => run fixed s' is
    | none => none

/-- the step left its loop (`while input_tasks` is over) -/
def done (s : St) : Bool := s.ports.all (fun p => !p.pending)

/-- a read is outstanding on a port whose producers have delivered everything: the step waits forever -/
def deadlocked (s : St) : Bool := s.ports.any (fun p => p.pending && p.stream.isEmpty)

/-- every stream ends with its termination token, which occurs nowhere else -/
def wellFormedStream (l : List Tok) : Bool :=
  match l.reverse with
  | .term _ :: r => r.all (fun t => match t with | .term _ => false | _ => true)
  | _ => false

/-- the stream contains a termination token: some producer of the port terminates. (The input ports of a real loop
    have several producers — input forwarder, back-propagation transformer, loop terminator — so a port's stream may
    hold data and further termination tokens after the first termination token; this is the realistic hypothesis.) -/
def hasTerm (l : List Tok) : Bool := l.any (fun t => match t with | .term _ => true | _ => false)

end SFV.LoopComb
