#!/usr/bin/env python3
"""tools/mk_seed_prompt.py Cnn… — create /work/seed/Cnn (detached worktree of /repo HEAD) and the prompt file handed to an
independent sub-agent that knows only the property's text (nothing from /verif)."""
import json, os, subprocess, sys
props = {json.loads(l)["id"]: json.loads(l) for l in open(os.path.join(os.path.dirname(__file__), "..", "properties.jsonl"))}
TEMPLATE = open(os.path.join(os.path.dirname(__file__), "seed_prompt.tmpl")).read()
SEED_ROOT = os.environ.get("SEED_ROOT", "/work/seed")
for pid in sys.argv[1:]:
    wt = f"{SEED_ROOT}/{pid}"
    if not os.path.isdir(wt):
        subprocess.run(["git", "-C", "/repo", "worktree", "add", "-q", "--detach", wt, "HEAD"], check=True)
    p = props[pid]
    text = (TEMPLATE.replace("@PID@", pid).replace("@TITLE@", p["title"]).replace("@STATEMENT@", p["statement"])
            .replace("@QUANT@", p["quantifier"]["text"]).replace("@FILES@", ", ".join(p["anchors"]["files"])))
    text = text.replace("/work/seed/", SEED_ROOT + "/")
    open(f"{SEED_ROOT}/{pid}.prompt.md", "w").write(text)
    print(pid, "ready")
