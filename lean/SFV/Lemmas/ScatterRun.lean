import SFV.Lemmas.GatherMain
/-! `ScatterStep.run` / `restore`: run-level facts (C01). -/
namespace SFV.Gather
open SFV

/-- the step is reading its port: not terminated, no exception -/
def SLive {V} (s : SSt V) : Prop := s.terminated = none ∧ s.raised = false

theorem sstep_list {V} (s : SSt V) (h : SLive s) (tag : Tag) (xs : List V) :
    sstep s (.list tag xs) =
      { s with elems := s.elems ++ ((scatter tag xs).1.filter (passes s.filter)), sizes := s.sizes ++ [(scatter tag xs).2] } := by
  obtain ⟨h1, h2⟩ := h
  simp [sstep, h1, h2]

theorem passes_none {V} (t : Tok V) : passes none t = true := rfl

/-- a run over list tokens only, no restore: the logs are the concatenated scatters -/
theorem srun_lists {V} (ins : List (Tag × List V)) : ∀ (s : SSt V), SLive s → s.filter = none →
    let s' := (ins.map (fun i => SIn.list i.1 i.2)).foldl sstep s
    s'.elems = s.elems ++ ins.flatMap (fun i => (scatter i.1 i.2).1) ∧
    s'.sizes = s.sizes ++ ins.map (fun i => (scatter i.1 i.2).2) ∧ SLive s' ∧ s'.filter = none := by
  induction ins with
  | nil => intro s h hf; simp [h, hf]
  | cons i ins ih =>
    intro s h hf
    simp only [List.map_cons, List.foldl_cons]
    rw [sstep_list s h]
    have hfil : (scatter i.1 i.2).1.filter (passes s.filter) = (scatter i.1 i.2).1 := by
      rw [hf]; exact List.filter_eq_self.mpr (fun t _ => rfl)
    rw [hfil]
    have := ih { s with elems := s.elems ++ (scatter i.1 i.2).1, sizes := s.sizes ++ [(scatter i.1 i.2).2] } h hf
    obtain ⟨h1, h2, h3, h4⟩ := this
    refine ⟨?_, ?_, h3, h4⟩
    · rw [h1]; simp
    · rw [h2]; simp

/-- after `restore valid` a scattered list contributes exactly its elements whose tag is valid, in order -/
theorem sstep_restore_then_list {V} (s : SSt V) (h : SLive s) (valid : List Tag) (tag : Tag) (xs : List V) :
    (sstep (sstep s (.restore valid)) (.list tag xs)).elems =
      (s.elems ++ (scatter tag xs).1).filter (fun t => decide (t.tag ∈ valid)) ∧
    (sstep (sstep s (.restore valid)) (.list tag xs)).sizes = s.sizes ++ [(scatter tag xs).2] := by
  obtain ⟨h1, h2⟩ := h
  have hp : (passes (some valid) : Tok V → Bool) = (fun t => decide (t.tag ∈ valid)) := by funext t; rfl
  simp [sstep, h1, h2, List.filter_append, hp]

end SFV.Gather

namespace SFV.Gather
open SFV

/-- **provenance of a gathered list (data events).** Whenever a token arrival makes the step emit, the list token's recorded
    inputs are the size token RECEIVED for its key (so the size is known) and exactly the element tokens the list is the
    sorted arrangement of. -/
theorem provOfStep_data {V} (d : Nat) (s : St V) (e : Ev V) (ho : BothOpen s) (hd : IsData e) :
    ∀ p ∈ provOfStep d s e, p.sizeReceived = true ∧ (p.key, sortToks p.elems) ∈ (step d s e).out ∧
      (step d s e).sizes p.key ≠ none := by
  obtain ⟨ho1, ho2⟩ := ho
  cases e with
  | term q st => exact (hd : False).elim
  | elem t =>
    intro p hp
    simp only [provOfStep, step, ho2, Bool.not_true, Bool.false_eq_true, if_false] at hp ⊢
    split at hp
    · rename_i hem
      simp only [hem, if_true]
      simp only [emit, List.drop_left, List.map_cons, List.map_nil, List.mem_singleton] at hp
      subst hp
      refine ⟨rfl, by simp [emit], ?_⟩
      simp only [emit]
      intro hnone
      have := (elemEmits_iff _ _).mp hem
      rw [hnone] at this; cases this
    · simp at hp
  | size k n =>
    intro p hp
    simp only [provOfStep, step, ho1, Bool.not_true, Bool.false_eq_true, if_false] at hp ⊢
    split at hp
    · rename_i hem
      simp only [hem, if_true]
      simp only [emit, List.drop_left, List.map_cons, List.map_nil, List.mem_singleton] at hp
      subst hp
      exact ⟨rfl, by simp [emit], by simp [emit, setKey]⟩
    · simp at hp

end SFV.Gather
