import SFV.Lemmas.NetPerm
import SFV.Lemmas.GatherMain
import SFV.Lemmas.Tag
import SFV.Props.C01
/-! Bridge between the denotational gather / scatter nodes of the workflow-network model (`SFV/Model/Net.lean`, C05)
and the operational gather machine of C01 (`SFV/Model/Gather.lean`): the two tag orders coincide, the node's sorted
groups are complete per-key streams of the machine, and the machine's output on any interleaving of the two input
ports is the node's output. -/
namespace SFV.Net
open SFV

/-! ## the two tag orders coincide -/

theorem lexLe_iff_cmpComps : ∀ (a b : List Nat), a.length = b.length → (lexLe a b = true ↔ cmpComps a b ≤ 0)
  | [], [], _ => by simp [lexLe, cmpComps, Gen.cmpDefault]
  | [], _ :: _, h => by simp at h
  | _ :: _, [], h => by simp at h
  | x :: xs, y :: ys, h => by
    have ih := lexLe_iff_cmpComps xs ys (by simpa using h)
    simp only [lexLe, cmpComps, Gen.cmpElemTest, Gen.cmpElem, bne_iff_ne, ne_eq, ite_not, Bool.or_eq_true,
      Bool.and_eq_true, decide_eq_true_eq, beq_iff_eq]
    by_cases hxy : (x : Int) - y = 0
    · have hx : x = y := by omega
      rw [if_pos hxy]
      constructor
      · rintro (h1 | ⟨_, h1⟩)
        · omega
        · exact ih.mp h1
      · intro h1
        exact Or.inr ⟨hx, ih.mpr h1⟩
    · rw [if_neg hxy]
      constructor
      · rintro (h1 | ⟨h1, _⟩) <;> omega
      · intro h1
        exact Or.inl (by omega)

/-- the order of `gatherOut` (`tagLe`) is the order of `compare_tags` as translated for C33 / C01 -/
theorem tagLe_iff_compareTags (a b : Tag) : tagLe a b = true ↔ compareTags a b ≤ 0 := by
  unfold tagLe compareTags
  simp only [Gen.cmpLenTest, Gen.cmpLen, bne_iff_ne, ne_eq, ite_not, Bool.or_eq_true, Bool.and_eq_true,
    decide_eq_true_eq, beq_iff_eq]
  by_cases hl : a.length = b.length
  · have h0 : (a.length : Int) - b.length = 0 := by omega
    rw [if_pos h0]
    constructor
    · rintro (h1 | ⟨_, h1⟩)
      · omega
      · exact (lexLe_iff_cmpComps a b hl).mp h1
    · intro h1
      exact Or.inr ⟨hl, (lexLe_iff_cmpComps a b hl).mpr h1⟩
  · have h0 : ¬ (a.length : Int) - b.length = 0 := by omega
    rw [if_neg h0]
    constructor
    · rintro (h1 | ⟨h1, _⟩) <;> omega
    · intro h1
      exact Or.inl (by omega)

theorem compareTags_eq_zero_iff (a b : Tag) : compareTags a b = 0 ↔ a = b := by
  constructor
  · intro h
    have hl : a.length = b.length := by
      unfold compareTags at h
      simp only [Gen.cmpLenTest, Gen.cmpLen, bne_iff_ne, ne_eq, ite_not] at h
      by_cases h0 : (a.length : Int) - b.length = 0
      · omega
      · rw [if_neg h0] at h; exact absurd h h0
    have hc : cmpComps a b = 0 := by
      unfold compareTags at h
      simp only [Gen.cmpLenTest, Gen.cmpLen, bne_iff_ne, ne_eq, ite_not] at h
      rwa [if_pos (by omega)] at h
    exact cmpComps_eq_zero hl hc
  · rintro rfl
    unfold compareTags
    simp [Gen.cmpLenTest, Gen.cmpLen, cmpComps_self]

/-- strict version: `tagLe` between different tags is `compare_tags < 0` -/
theorem tagLe_ne_iff_compareTags (a b : Tag) : (tagLe a b = true ∧ a ≠ b) ↔ compareTags a b < 0 := by
  rw [tagLe_iff_compareTags, Ne, ← compareTags_eq_zero_iff]
  omega

/-! ## translation of tokens and events -/

/-- a network token as a token of C01's machine -/
def toG (t : Tok) : Gather.Tok Val := ⟨t.tag, t.val⟩

/-- the contents of the element port as events of the machine -/
def elemEvents (inp : List Tok) : List (Gather.Ev Val) := inp.map (fun t => .elem (toG t))

/-- the contents of the size port as events of the machine -/
def sizeEvents (size : List Tok) : List (Gather.Ev Val) :=
  size.filterMap (fun t => match t.val with
    | .int n => some (.size t.tag n.toNat)
    | .list _ => none)

/-- a list token put by the machine on its output port, as a network token -/
def ofGroup (g : Tag × List (Gather.Tok Val)) : Tok := ⟨g.1, .list (g.2.map (·.val))⟩

/-- the known-size case: the size port holds, for every key, the exact number of elements of that key
    (the sizes come from the scatter that produced the elements) -/
structure GatherExact (inp size : List Tok) (d : Nat) : Prop where
  distinctInp : DistinctTags inp
  distinctSize : DistinctTags size
  deep : ∀ t ∈ inp, d < t.tag.length
  sizes : ∀ s ∈ size, s.val = .int ((inp.filter (fun t => gatherKey d t.tag == s.tag)).length : Int)
  covered : ∀ t ∈ inp, ∃ s ∈ size, s.tag = gatherKey d t.tag

/-! ## the node's sort yields strictly sorted groups -/

theorem netSort_strictSorted {l : List Tok} (d : DistinctTags l) :
    Gather.StrictSorted ((l.mergeSort (fun a b => tagLe a.tag b.tag)).map toG) := by
  unfold Gather.StrictSorted
  rw [List.pairwise_map]
  have h1 : (l.mergeSort (fun a b => tagLe a.tag b.tag)).Pairwise (fun a b => tagLe a.tag b.tag = true) :=
    List.pairwise_mergeSort (fun a b c => tagLe_trans a.tag b.tag c.tag) (fun a b => tagLe_total a.tag b.tag) l
  have h2 : DistinctTags (l.mergeSort (fun a b => tagLe a.tag b.tag)) := d.perm (List.mergeSort_perm _ _).symm
  refine (h1.and h2).imp ?_
  intro a b hab
  exact (tagLe_ne_iff_compareTags a.tag b.tag).mp hab

/-! ## partition of the element port by key -/

theorem flatMap_congr_mem {α β : Type} {f g : α → List β} :
    ∀ (l : List α), (∀ a ∈ l, f a = g a) → l.flatMap f = l.flatMap g
  | [], _ => rfl
  | a :: r, h => by
    rw [List.flatMap_cons, List.flatMap_cons, h a List.mem_cons_self,
      flatMap_congr_mem r (fun x hx => h x (List.mem_cons_of_mem a hx))]

/-- a list is, up to order, the concatenation of its key classes, for any duplicate-free key list covering it -/
theorem partition_perm {α : Type} (key : α → Tag) : ∀ (ks : List Tag) (l : List α), ks.Nodup →
    (∀ t ∈ l, key t ∈ ks) → (ks.flatMap (fun k => l.filter (fun t => key t == k))).Perm l
  | [], l, _, hc => by
    cases l with
    | nil => exact List.Perm.refl _
    | cons t l => exact absurd (hc t List.mem_cons_self) (by simp)
  | k :: ks, l, hnd, hc => by
    have hnd' := List.nodup_cons.mp hnd
    have ih := partition_perm key ks (l.filter (fun t => !(key t == k))) hnd'.2 (by
      intro t ht
      have ht' := List.mem_filter.mp ht
      rcases List.mem_cons.mp (hc t ht'.1) with h | h
      · have := ht'.2
        simp [h] at this
      · exact h)
    have hcongr : ks.flatMap (fun k' => l.filter (fun t => key t == k')) =
        ks.flatMap (fun k' => (l.filter (fun t => !(key t == k))).filter (fun t => key t == k')) := by
      apply flatMap_congr_mem
      intro k' hk'
      rw [List.filter_filter]
      apply List.filter_congr
      intro t _
      have hne : k' ≠ k := fun e => hnd'.1 (e ▸ hk')
      by_cases hkt : key t = k'
      · simp [hkt, hne]
      · simp [hkt]
    rw [List.flatMap_cons, hcongr]
    exact (List.Perm.append_left _ ih).trans (List.filter_append_perm _ l)

theorem flatMap_append_singleton_perm {α β : Type} (A : α → List β) (B : α → β) :
    ∀ (l : List α), (l.flatMap (fun s => A s ++ [B s])).Perm (l.flatMap A ++ l.map B)
  | [] => List.Perm.refl _
  | s :: r => by
    rw [List.flatMap_cons, List.flatMap_cons, List.map_cons, List.append_assoc, List.append_assoc]
    refine List.Perm.append_left _ ?_
    refine (List.Perm.append_left _ (flatMap_append_singleton_perm A B r)).trans ?_
    simp only [List.singleton_append]
    exact (List.perm_middle (a := B s) (l₁ := r.flatMap A) (l₂ := r.map B)).symm

/-! ## the groups of the node as complete per-key streams of the machine -/

/-- the sorted elements the node gathers under key `k` -/
def grp (inp : List Tok) (d : Nat) (k : Tag) : List Tok :=
  (inp.filter (fun t => d < t.tag.length && gatherKey d t.tag == k)).mergeSort (fun a b => tagLe a.tag b.tag)

/-- one group per size token -/
def groupsOf (inp size : List Tok) (d : Nat) : List (Tag × List (Gather.Tok Val)) :=
  (size.map (·.tag)).map (fun k => (k, (grp inp d k).map toG))

theorem keyOf_eq_gatherKey (d : Nat) (t : Tag) : Gather.keyOf d t = gatherKey d t := rfl

theorem groupsOf_keys (inp size : List Tok) (d : Nat) : (groupsOf inp size d).map (·.1) = size.map (·.tag) := by
  simp [groupsOf, List.map_map, Function.comp_def]

theorem distinctTags_nodup {l : List Tok} (h : DistinctTags l) : (l.map (·.tag)).Nodup := by
  unfold List.Nodup
  rw [List.pairwise_map]
  exact h

theorem groupsOf_nodup {inp size : List Tok} (d : Nat) (h : DistinctTags size) :
    ((groupsOf inp size d).map (·.1)).Nodup := by
  rw [groupsOf_keys]; exact distinctTags_nodup h

theorem mem_groupsOf {inp size : List Tok} {d : Nat} {g : Tag × List (Gather.Tok Val)}
    (hg : g ∈ groupsOf inp size d) : g.2 = (grp inp d g.1).map toG := by
  simp only [groupsOf, List.map_map, List.mem_map, Function.comp_def] at hg
  obtain ⟨s, _, rfl⟩ := hg
  rfl

theorem groupsOf_key (inp size : List Tok) (d : Nat) :
    ∀ g ∈ groupsOf inp size d, ∀ t ∈ g.2, Gather.keyOf d t.tag = g.1 := by
  intro g hg t ht
  rw [mem_groupsOf hg] at ht
  obtain ⟨t', ht', rfl⟩ := List.mem_map.mp ht
  have := (List.mem_filter.mp (List.mem_mergeSort.mp ht')).2
  simp only [Bool.and_eq_true, beq_iff_eq] at this
  exact this.2

theorem groupsOf_sorted {inp : List Tok} (size : List Tok) (d : Nat) (h : DistinctTags inp) :
    ∀ g ∈ groupsOf inp size d, Gather.StrictSorted g.2 := by
  intro g hg
  rw [mem_groupsOf hg]
  exact netSort_strictSorted (h.filter _)

theorem sizeEvents_eq {inp size : List Tok} {d : Nat} (h : GatherExact inp size d) :
    ∀ (sz : List Tok), (∀ s ∈ sz, s ∈ size) →
      sizeEvents sz = sz.map (fun s => Gather.Ev.size s.tag ((grp inp d s.tag).map toG).length)
  | [], _ => rfl
  | s :: r, hs => by
    have ih := sizeEvents_eq h r (fun x hx => hs x (List.mem_cons_of_mem s hx))
    have hv := h.sizes s (hs s List.mem_cons_self)
    have hf : inp.filter (fun t => d < t.tag.length && gatherKey d t.tag == s.tag) =
        inp.filter (fun t => gatherKey d t.tag == s.tag) := by
      apply List.filter_congr
      intro t ht
      simp [h.deep t ht]
    unfold sizeEvents at ih ⊢
    rw [List.filterMap_cons, hv, List.map_cons, ih]
    simp only [Int.toNat_natCast, List.length_map, grp, List.length_mergeSort, hf]

theorem elems_perm {inp size : List Tok} {d : Nat} (h : GatherExact inp size d) :
    (size.flatMap (fun s => grp inp d s.tag)).Perm inp := by
  have h1 : (size.flatMap (fun s => grp inp d s.tag)).Perm
      (size.flatMap (fun s => inp.filter (fun t => gatherKey d t.tag == s.tag))) := by
    apply flatMap_perm_left
    intro s _
    refine (List.mergeSort_perm _ _).trans ?_
    rw [List.filter_congr]
    intro t ht
    simp [h.deep t ht]
  have h2 := partition_perm (fun t : Tok => gatherKey d t.tag) (size.map (·.tag)) inp
    (distinctTags_nodup h.distinctSize) (by
      intro t ht
      obtain ⟨s, hs, hst⟩ := h.covered t ht
      exact List.mem_map.mpr ⟨s, hs, hst⟩)
  rw [List.flatMap_map] at h2
  exact h1.trans h2

/-- the two ports' contents are, up to order, the complete per-key streams of the node's groups -/
theorem groupsOf_events_perm {inp size : List Tok} {d : Nat} (h : GatherExact inp size d) :
    ((groupsOf inp size d).flatMap Gather.groupEvents).Perm (elemEvents inp ++ sizeEvents size) := by
  have e1 : (groupsOf inp size d).flatMap Gather.groupEvents =
      size.flatMap (fun s => ((grp inp d s.tag).map toG).map Gather.Ev.elem ++
        [Gather.Ev.size s.tag ((grp inp d s.tag).map toG).length]) := by
    simp only [groupsOf, List.map_map, List.flatMap_map, Function.comp_def, Gather.groupEvents]
  rw [e1, sizeEvents_eq h size (fun _ hs => hs)]
  refine (flatMap_append_singleton_perm _ _ size).trans (List.Perm.append_right _ ?_)
  have e2 : size.flatMap (fun s => ((grp inp d s.tag).map toG).map Gather.Ev.elem) =
      (size.flatMap (fun s => grp inp d s.tag)).map (fun t => Gather.Ev.elem (toG t)) := by
    rw [List.map_flatMap]
    simp only [List.map_map, Function.comp_def]
  rw [e2]
  exact (elems_perm h).map _

/-- the node's output is, up to order, the translation of its groups -/
theorem groupsOf_ofGroup_perm {inp size : List Tok} {d : Nat} (h : GatherExact inp size d) :
    ((groupsOf inp size d).map ofGroup).Perm (gatherOut inp size d) := by
  have e1 : (groupsOf inp size d).map ofGroup = (size.map (·.tag)).map (gatherElem inp d) := by
    simp only [groupsOf, List.map_map, Function.comp_def, ofGroup, gatherElem, grp, toG]
  rw [e1, gatherOut_eq]
  apply List.Perm.map
  refine (List.perm_ext_iff_of_nodup (distinctTags_nodup h.distinctSize) (nodup_dedup _)).mpr ?_
  intro k
  rw [mem_dedup, List.mem_append]
  constructor
  · exact Or.inl
  · rintro (hk | hk)
    · exact hk
    · obtain ⟨t, ht, rfl⟩ := List.mem_map.mp hk
      obtain ⟨s, hs, hst⟩ := h.covered t (List.mem_filter.mp ht).1
      exact List.mem_map.mpr ⟨s, hs, hst⟩

/-- **machine = node**: C01's operational gather machine, fed with any interleaving of the two ports'
    contents followed by the two termination tokens, emits the node's `gatherOut` (up to order). -/
theorem machine_eq_gatherOut {inp size : List Tok} {d : Nat} (h : GatherExact inp size d)
    (es : List (Gather.Ev Val)) (hperm : es.Perm (elemEvents inp ++ sizeEvents size))
    (pa pb : Gather.PortId) (hab : pa ≠ pb) (sa sb : Status) :
    ((Gather.run d (es ++ [.term pa sa, .term pb sb])).out.map ofGroup).Perm (gatherOut inp size d) := by
  have hg := Gather.gather_groups d (groupsOf inp size d) (groupsOf_nodup d h.distinctSize)
    (groupsOf_key inp size d) (groupsOf_sorted size d h.distinctInp) es
    (hperm.trans (groupsOf_events_perm h).symm) pa pb hab sa sb
  exact (hg.1.map ofGroup).trans (groupsOf_ofGroup_perm h)

theorem groupsOf_isEmpty (inp size : List Tok) (d : Nat) : (groupsOf inp size d).isEmpty = size.isEmpty := by
  cases size <;> rfl

/-- the termination token the machine puts after the lists -/
theorem machine_terminated {inp size : List Tok} {d : Nat} (h : GatherExact inp size d)
    (es : List (Gather.Ev Val)) (hperm : es.Perm (elemEvents inp ++ sizeEvents size))
    (pa pb : Gather.PortId) (hab : pa ≠ pb) (sa sb : Status) :
    (Gather.run d (es ++ [.term pa sa, .term pb sb])).terminated =
      some (getStatus (reduce2 (reduce2 .skipped sa) sb) size.isEmpty) := by
  have hg := Gather.gather_groups d (groupsOf inp size d) (groupsOf_nodup d h.distinctSize)
    (groupsOf_key inp size d) (groupsOf_sorted size d h.distinctInp) es
    (hperm.trans (groupsOf_events_perm h).symm) pa pb hab sa sb
  rw [hg.2, groupsOf_isEmpty]

/-! ## scatter -/

/-- a token of C01's machine as a network token -/
def ofG (t : Gather.Tok Val) : Tok := ⟨t.tag, t.val⟩

theorem toG_ofG (t : Gather.Tok Val) : toG (ofG t) = t := rfl

theorem scatterFrom_back (p : Tag) : ∀ (i : Nat) (vs : List Val),
    (Gather.scatterFrom p i vs).map ofG = (vs.zipIdx i).map (fun (v, j) => { tag := p ++ [j], val := v })
  | _, [] => rfl
  | i, v :: vs => by
    simp only [Gather.scatterFrom, List.map_cons, List.zipIdx_cons, Gen.scatterIdx, Int.toNat_natCast]
    rw [scatterFrom_back p (i + 1) vs]
    rfl

theorem scatterFrom_vals (p : Tag) : ∀ (i : Nat) (vs : List Val), (Gather.scatterFrom p i vs).map (·.val) = vs
  | _, [] => rfl
  | i, v :: vs => by
    simp only [Gather.scatterFrom, List.map_cons]
    rw [scatterFrom_vals p (i + 1) vs]

/-- the scatter node emits the tokens of C01's `scatter` -/
theorem scatterOut_single (p : Tag) (vs : List Val) :
    scatterOut [⟨p, .list vs⟩] = (Gather.scatter p vs).1.map ofG := by
  rw [show (Gather.scatter p vs).1 = Gather.scatterFrom p 0 vs from rfl, scatterFrom_back]
  simp [scatterOut]

theorem scatterSize_single (p : Tag) (vs : List Val) :
    scatterSize [⟨p, .list vs⟩] = [⟨p, .int vs.length⟩] := rfl

theorem scatter_snd (p : Tag) (vs : List Val) : (Gather.scatter p vs).2 = (p, vs.length) := by
  simp [Gather.scatter, Gen.scatterSize]

theorem elemEvents_scatterOut (p : Tag) (vs : List Val) :
    elemEvents (scatterOut [⟨p, .list vs⟩]) = (Gather.scatter p vs).1.map (fun t => Gather.Ev.elem ⟨t.tag, id t.val⟩) := by
  rw [scatterOut_single, elemEvents, List.map_map]
  rfl

theorem sizeEvents_scatterSize (p : Tag) (vs : List Val) :
    sizeEvents (scatterSize [⟨p, .list vs⟩]) = [Gather.Ev.size p vs.length] := by
  simp [scatterSize_single, sizeEvents]

/-- scatter node, then C01's gather machine on any arrival order: the original list token -/
theorem scatter_machine_roundtrip (p : Tag) (vs : List Val) (es : List (Gather.Ev Val))
    (hperm : es.Perm (elemEvents (scatterOut [⟨p, .list vs⟩]) ++ sizeEvents (scatterSize [⟨p, .list vs⟩])))
    (pa pb : Gather.PortId) (hab : pa ≠ pb) (sa sb : Status) :
    (Gather.run 1 (es ++ [.term pa sa, .term pb sb])).out.map ofGroup = [⟨p, .list vs⟩] := by
  rw [elemEvents_scatterOut, sizeEvents_scatterSize] at hperm
  have h := (C01.gather_any_order p vs id es hperm pa pb hab sa sb).1
  rw [h, List.map_id]
  simp only [List.map_cons, List.map_nil, ofGroup]
  rw [show (Gather.scatter p vs).1 = Gather.scatterFrom p 0 vs from rfl, scatterFrom_vals]

/-- what a scatter node emits on its two ports is a known-size input of the gather node -/
theorem scatter_gatherExact (p : Tag) (hp : p ≠ []) (vs : List Val) :
    GatherExact (scatterOut [⟨p, .list vs⟩]) (scatterSize [⟨p, .list vs⟩]) 1 := by
  have hmem : ∀ t ∈ scatterOut [⟨p, .list vs⟩], ∃ j, t.tag = p ++ [j] := by
    intro t ht
    rw [scatterOut_single] at ht
    obtain ⟨t', ht', rfl⟩ := List.mem_map.mp ht
    obtain ⟨j, _, hj⟩ := Gather.mem_scatterFrom ht'
    exact ⟨j, hj⟩
  have hkey : ∀ t ∈ scatterOut [⟨p, .list vs⟩], gatherKey 1 t.tag = p := by
    intro t ht
    obtain ⟨j, hj⟩ := hmem t ht
    rw [hj, ← keyOf_eq_gatherKey]
    exact Gather.keyOf_append 1 p [j] rfl
  refine ⟨?_, ?_, ?_, ?_, ?_⟩
  · rw [scatterOut_single]
    unfold DistinctTags
    rw [List.pairwise_map]
    refine (Gather.scatterFrom_sorted p 0 vs).imp ?_
    intro a b hab e
    have e' : a.tag = b.tag := e
    rw [e', (compareTags_eq_zero_iff b.tag b.tag).mpr rfl] at hab
    omega
  · rw [scatterSize_single]
    exact List.pairwise_singleton _ _
  · intro t ht
    obtain ⟨j, hj⟩ := hmem t ht
    have : 0 < p.length := List.length_pos_iff.mpr hp
    rw [hj, List.length_append, List.length_singleton]
    omega
  · intro s hs
    rw [scatterSize_single, List.mem_singleton] at hs
    subst hs
    rw [List.filter_eq_self.mpr (by intro t ht; simp [hkey t ht]), scatterOut_single, List.length_map]
    simp [Gather.scatter, Gather.scatterFrom_length]
  · intro t ht
    exact ⟨⟨p, .int vs.length⟩, by rw [scatterSize_single]; exact List.mem_singleton.mpr rfl, (hkey t ht).symm⟩

/-- node-level round trip, obtained through the machine: `gatherOut ∘ scatterOut` is the identity on a list token -/
theorem gatherOut_scatterOut (p : Tag) (hp : p ≠ []) (vs : List Val) :
    gatherOut (scatterOut [⟨p, .list vs⟩]) (scatterSize [⟨p, .list vs⟩]) 1 = [⟨p, .list vs⟩] := by
  have h1 := machine_eq_gatherOut (scatter_gatherExact p hp vs) _ (List.Perm.refl _) .size .elem (by decide)
    .completed .completed
  rw [scatter_machine_roundtrip p vs _ (List.Perm.refl _) .size .elem (by decide) .completed .completed] at h1
  exact List.singleton_perm.mp h1 |>.symm

/-! ## a concrete instance (used by the examples of `SFV/Props/C05Gather.lean`) -/

/-- element port: two keys, arrival order different from tag order, an index `≥ 10` -/
def exInp : List Tok := [⟨[0, 2], .int 7⟩, ⟨[0, 0], .int 5⟩, ⟨[1, 0], .int 4⟩, ⟨[0, 10], .int 9⟩]

/-- size port: three elements under `0`, one under `1` -/
def exSize : List Tok := [⟨[0], .int 3⟩, ⟨[1], .int 1⟩]

/-- one interleaving of the two ports (neither port in its own order) -/
def exEvents : List (Gather.Ev Val) :=
  [.elem ⟨[0, 10], .int 9⟩, .size [1] 1, .elem ⟨[0, 0], .int 5⟩, .elem ⟨[1, 0], .int 4⟩, .size [0] 3,
   .elem ⟨[0, 2], .int 7⟩]

theorem exEvents_perm : exEvents.Perm (elemEvents exInp ++ sizeEvents exSize) := by
  show exEvents.Perm [.elem ⟨[0, 2], .int 7⟩, .elem ⟨[0, 0], .int 5⟩, .elem ⟨[1, 0], .int 4⟩,
    .elem ⟨[0, 10], .int 9⟩, .size [0] 3, .size [1] 1]
  unfold exEvents
  refine (List.perm_middle (l₁ := [_, _, _, _, _]) (l₂ := [])).trans (List.Perm.cons _ ?_)
  refine (List.perm_middle (l₁ := [_, _]) (l₂ := [_, _])).trans (List.Perm.cons _ ?_)
  refine (List.perm_middle (l₁ := [_, _]) (l₂ := [_])).trans (List.Perm.cons _ ?_)
  refine List.Perm.cons _ ?_
  exact List.Perm.swap _ _ _

theorem exGatherExact : GatherExact exInp exSize 1 := by
  refine ⟨?_, ?_, ?_, ?_, ?_⟩
  · simp [DistinctTags, exInp]
  · simp [DistinctTags, exSize]
  · simp [exInp]
  · simp [exInp, exSize, gatherKey]
  · simp [exInp, exSize, gatherKey]

end SFV.Net
