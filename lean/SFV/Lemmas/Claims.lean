import SFV.Model.Claims
/-! Invariant of the claim protocol with the per-request lock (`SFV/Model/Claims.lean`). -/
namespace SFV.Claims

/-- the invariant of the claim protocol with the lock -/
def ClaimInv (s : St) : Prop :=
  (∀ j, s.claims j ≤ 1) ∧ (∀ j, s.recovering j = false → s.claims j = 0) ∧
  (∀ p j, s.pend p = some j → s.holder j = some p ∧ s.recovering j = false)

theorem claimInv_step {s a s'} (h : ClaimInv s) (hs : step ⟨true⟩ s a = some s') : ClaimInv s' := by
  obtain ⟨h1, h2, h3⟩ := h
  cases a with
  | acquire p j =>
    simp only [step] at hs
    split at hs
    · rename_i hfree
      cases hs
      refine ⟨h1, h2, ?_⟩
      intro q k hq
      have := h3 q k hq
      by_cases hk : k = j
      · subst hk; rw [hfree] at this; cases this.1
      · simp [hk]; exact this
    · cases hs
  | check p j =>
    simp only [step] at hs
    split at hs
    · rename_i hg
      split at hs
      · cases hs; exact ⟨h1, h2, h3⟩
      · rename_i hr
        cases hs
        refine ⟨h1, h2, ?_⟩
        intro q k hq
        by_cases hqp : q = p
        · subst hqp; simp at hq; subst hq
          rcases hg.1 with hc | hh
          · cases hc
          · exact ⟨hh, by simpa using hr⟩
        · simp [hqp] at hq; exact h3 q k hq
    · cases hs
  | claim p =>
    simp only [step] at hs
    split at hs
    · rename_i j hp
      cases hs
      obtain ⟨hh, hr⟩ := h3 p j hp
      have hc0 := h2 j hr
      refine ⟨?_, ?_, ?_⟩
      · intro k; by_cases hk : k = j
        · subst hk; simp [hc0]
        · simp [hk]; exact h1 k
      · intro k hk'; by_cases hk : k = j
        · subst hk; simp at hk'
        · simp [hk] at hk' ⊢; exact h2 k hk'
      · intro q k hq
        by_cases hqp : q = p
        · subst hqp; simp at hq
        · simp [hqp] at hq
          have hqk := h3 q k hq
          by_cases hk : k = j
          · subst hk; rw [hh] at hqk; cases hqk.1; exact absurd rfl hqp
          · simp [hk]; exact hqk
    · cases hs
  | release p j =>
    simp only [step] at hs
    split at hs
    · rename_i hg
      cases hs
      refine ⟨h1, h2, ?_⟩
      intro q k hq
      have hqk := h3 q k hq
      by_cases hk : k = j
      · subst hk
        rw [hg.1] at hqk
        cases hqk.1
        exact absurd hq hg.2
      · simp [hk]; exact hqk
    · cases hs
  | finish j =>
    simp only [step] at hs
    split at hs
    · rename_i hg
      cases hs
      refine ⟨?_, ?_, ?_⟩
      · intro k; by_cases hk : k = j
        · subst hk; simp
        · simp [hk]; exact h1 k
      · intro k hk'; by_cases hk : k = j
        · subst hk; simp
        · simp [hk] at hk' ⊢; exact h2 k hk'
      · intro q k hq
        have hqk := h3 q k hq
        by_cases hk : k = j
        · subst hk; rw [hg] at hqk; cases hqk.2
        · simp [hk]; exact hqk
    · cases hs

end SFV.Claims
