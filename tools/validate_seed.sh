#!/bin/bash
# tools/validate_seed.sh <dir with patch.diff and demo.py|test_demo.py>
# confirms in a scratch worktree: demo passes on the clean tree, fails with the patch, baseline tests still pass with the patch
d="$(cd "$1" && pwd)"; wt="${SFV_SEED_WT:-/tmp/sfv-seed-wt-val}"
[ -d "$wt" ] || git -C /repo worktree add -q --detach "$wt" HEAD   # scratch worktree, removed again at the end
# the demos are written to be run from inside the worktree (`python _seed/<n>/demo.py`; several derive the streamflow root
# from their own location): copy the seed directory to the same relative place in the scratch worktree
lane="$(basename "$wt")"
n="$(basename "$d")"
stage() { mkdir -p "$wt/_seed/$n" && cp "$d"/*.py "$wt/_seed/$n/" 2>/dev/null; }
demo="$wt/_seed/$n/demo.py"; [ -f "$d/demo.py" ] || demo="$wt/_seed/$n/test_demo.py"
run_demo() { case "$demo" in *test_demo.py) (cd "$wt" && PYTHONPATH="$wt" timeout 600 /venv/bin/python -m pytest -q -p no:cacheprovider --timeout=300 "$demo" >/var/tmp/${lane}_seed_demo.log 2>&1);; *) (cd "$wt" && PYTHONPATH="$wt" timeout 600 /venv/bin/python "$demo" >/var/tmp/${lane}_seed_demo.log 2>&1);; esac; echo $?; }
git -C "$wt" checkout -q -- . && git -C "$wt" clean -fdq && git -C "$wt" checkout -q --detach "$(git -C /repo rev-parse HEAD)"
stage; echo "demo on clean tree: exit $(run_demo)"
git -C "$wt" apply "$d/patch.diff" || { echo "PATCH DOES NOT APPLY"; exit 3; }
echo "files touched: $(git -C "$wt" diff --stat | tail -1)"
stage; echo "demo with patch:    exit $(run_demo)"; tail -3 /var/tmp/${lane}_seed_demo.log | cut -c1-300
mkdir -p /var/tmp/${lane}_seedhome && rm -rf /var/tmp/${lane}_seedhome/.streamflow
# test_cwl_loop shares one sqlite file per HOME: run it serially (it is flaky under xdist on a loaded machine, with or without a patch)
# tests/test_recovery.py occasionally hangs for good (cachebox/GC dead-lock, also on the original commit): bound the run and retry
for attempt in 1 2 3; do
  rm -f /var/tmp/${lane}_seed_junit.xml
  (cd "$wt" && HOME=/var/tmp/${lane}_seedhome PYTHONPATH="$wt" timeout 420 /venv/bin/python -m pytest -q -p no:cacheprovider --timeout=300 --junitxml=/var/tmp/${lane}_seed_junit.xml -n 6 $(grep -v test_cwl_loop /verif/tools/stable_ids.txt) >/var/tmp/${lane}_seed_tests.log 2>&1)
  [ -s /var/tmp/${lane}_seed_junit.xml ] && break
done
(cd "$wt" && HOME=/var/tmp/${lane}_seedhome PYTHONPATH="$wt" timeout 2400 /venv/bin/python -m pytest -q -p no:cacheprovider --timeout=900 --junitxml=/var/tmp/${lane}_seed_junit2.xml -n 0 $(grep test_cwl_loop /verif/tools/stable_ids.txt) >/var/tmp/${lane}_seed_tests2.log 2>&1)
python3 - <<PY
import json, xml.etree.ElementTree as ET
stable=set(json.load(open('/root/.vp/BASELINE.json'))['stable_pass'])
passed=set()
import itertools
for tc in itertools.chain(ET.parse('/var/tmp/${lane}_seed_junit.xml').iter('testcase'), ET.parse('/var/tmp/${lane}_seed_junit2.xml').iter('testcase')):
    if not any(c.tag in ('failure','error','skipped') for c in tc):
        passed.add(f"{tc.get('classname')}::{tc.get('name')}")
miss=sorted(stable-passed)
print(f"baseline with patch: {len(stable)-len(miss)}/{len(stable)} stable tests pass", ("MISSING: "+", ".join(miss[:5])) if miss else "")
PY
git -C "$wt" checkout -q -- . && git -C "$wt" clean -fdq
[ -n "${SFV_SEED_KEEP_WT:-}" ] || git -C /repo worktree remove --force "$wt" 2>/dev/null
