"""C30 — CWL tools receive exactly the arguments the reference runner passes."""
from __future__ import annotations

import json
import os
import random
import re
import shlex
import subprocess

from sfv.framework import Ctx, Inconclusive, Property
from sfv.rt import cwldiff as C
from sfv.rt import cwlgen_tool as G
from sfv.rt.hexs import hx
from sfv.translate import cwlcmdtpl

PATH_RE = re.compile(r"/[^ ,:=]*/(in_[A-Za-z0-9_]+\.txt|stdin_src\.txt)")


def norm_argv(argv):
    return [PATH_RE.sub(r"@FILE(\1)", a) for a in argv]


def _unhex_list(s: str):
    if s in ("_", ""):
        return []
    return [bytes.fromhex(h).decode() if h != "-" else "" for h in s.split(",")]


# ------------------------------------------------------------------------------------------------
# tool description -> protocol line of the Lean binding model (only for tools inside the modelled fragment)
# ------------------------------------------------------------------------------------------------
def _enc_bind(b):
    if b is None:
        return ["0"]
    o = lambda v: "~" if v is None else hx(v)  # noqa: E731
    return ["1", str(b.get("position", 0)), o(b.get("prefix")), "1" if b.get("separate", True) else "0", o(b.get("itemSeparator")),
            "1" if b.get("shellQuote", True) else "0"]


def _scalar_text(v):
    if isinstance(v, dict) and v.get("class") == "File":
        return "@FILE(" + os.path.basename(v["path"]) + ")"
    if isinstance(v, bool):
        return None
    return str(v)


def model_line(desc) -> str | None:
    tool, job = desc["tool"], desc["job"]
    toks = ["cmd", "1" if desc["shell"] else "0"]
    for i, a in enumerate(tool.get("arguments", [])):
        if isinstance(a, str):
            toks += ["~", str(i)] + _enc_bind({}) + ["0", "s" + hx(a)]
        else:
            if "$(" in a["valueFrom"]:
                return None
            toks += ["~", str(i)] + _enc_bind(a) + ["0", "s" + hx(a["valueFrom"])]
    for name, spec in tool["inputs"].items():
        t = spec["type"]
        b = spec.get("inputBinding")
        v = job.get(name)
        ib = None
        if isinstance(t, dict) and t.get("type") == "record":
            return None
        if isinstance(t, dict) and t.get("type") == "array":
            if isinstance(t["items"], dict):
                return None
            ib = t.get("inputBinding")
        if isinstance(t, str) and t.endswith("[]") and t[:-2] in ("boolean",):
            return None
        if t == "float" or (isinstance(t, str) and t.startswith("float")):
            pass
        if b is not None and "valueFrom" in b:
            if "$(" in b["valueFrom"]:
                if b["valueFrom"] != "$(self)":
                    return None
            else:
                v = b["valueFrom"] if v is not None else None
        if v is None:
            val = "n"
        elif isinstance(v, bool):
            val = "b1" if v else "b0"
        elif isinstance(v, list):
            items = [_scalar_text(x) for x in v]
            if any(x is None for x in items):
                return None
            val = "a" + ",".join(hx(x) for x in items)
        else:
            val = "s" + hx(_scalar_text(v))
        toks += [hx(name), "0"] + _enc_bind(b) + _enc_bind(ib) + [val]
    return " ".join(toks)


# ------------------------------------------------------------------------------------------------
# corpus: the known deviations, one tool each
# ------------------------------------------------------------------------------------------------
def corpus_tools(d: str):
    out = []

    def mk(name, tool_patch, job, key, collect=("dump.json",), feats=()):
        dd = os.path.join(d, name)
        os.makedirs(dd, exist_ok=True)
        dump = G.write_dump_script(dd)
        tool = {"cwlVersion": "v1.2", "class": "CommandLineTool", "baseCommand": ["python3", dump], "inputs": {},
                "outputs": {"dump": {"type": "File", "outputBinding": {"glob": "dump.json"}}}}
        tool.update(tool_patch)
        json.dump(tool, open(os.path.join(dd, "tool.cwl"), "w"), indent=1)
        json.dump(job, open(os.path.join(dd, "job.json"), "w"))
        out.append({"name": name, "dir": dd, "key": key, "collect": list(collect), "features": list(feats), "shell": False,
                    "tool": tool, "job": job, "env": tool.get("requirements", {}).get("EnvVarRequirement", {}).get("envDef", {})})

    mk("env-shell-active", {"requirements": {"EnvVarRequirement": {"envDef": {"SFVT_A": "$HOME `id`", "SFVT_B": "plain value"}}}}, {},
       None)
    mk("array-unquoted", {"inputs": {"a": {"type": "string[]", "inputBinding": {"prefix": "-x"}}}}, {"a": ["two words", "$HOME", "it's"]},
       "argv:array-input-not-shell-quoted")
    mk("array-itemsep-space", {"inputs": {"a": {"type": "int[]", "inputBinding": {"prefix": "-x", "itemSeparator": " "}}}}, {"a": [22, 48]},
       "argv:array-input-not-shell-quoted")
    mk("stdin-inherited", {"inputs": {"a": {"type": "string", "inputBinding": {}}}}, {"a": "x"}, "stdin:inherited-from-runner",
       feats=("stdin-compare",))
    mk("stdout-with-stderr", {"inputs": {}, "stdout": "out.txt", "outputs": {"dump": {"type": "File", "outputBinding": {"glob": "dump.json"}},
                                                                              "so": {"type": "stdout"}}}, {},
       "stdout:file-contains-stderr", collect=("dump.json", "out.txt"))
    mk("scalar-strings", {"inputs": {f"s{i}": {"type": "string", "inputBinding": {"position": i, **({"prefix": "--p=", "separate": False} if i % 3 == 0 else {})}}
                                     for i in range(len(G.STRINGS))}}, {f"s{i}": s for i, s in enumerate(G.STRINGS)}, None)
    mk("exit-code-success", {"requirements": {"EnvVarRequirement": {"envDef": {"SFVT_EXIT": "3"}}}, "successCodes": [3]}, {}, None)
    mk("exit-code-failure", {"requirements": {"EnvVarRequirement": {"envDef": {"SFVT_EXIT": "4"}}}, "successCodes": [3]}, {}, None)
    mk("position-ties", {"inputs": {"b": {"type": "string", "inputBinding": {"position": 1}}, "a": {"type": "string", "inputBinding": {"position": 1}},
                                    "c": {"type": "boolean", "inputBinding": {"prefix": "-c"}}},
                         "arguments": ["first", "second", {"valueFrom": "lit", "position": 1}, {"valueFrom": "lit2", "position": 1},
                                       {"valueFrom": "neg", "position": -1, "prefix": "-N"}]},
       {"a": "A", "b": "B", "c": True}, None)
    return out


def compare_tool(ctx: Ctx, desc: dict, res: dict, model_out: str | None, corpus: bool) -> None:
    sf, ct = res["sf"], res["ct"]
    o1, o2 = C.outcome(sf), C.outcome(ct)
    case = {"op": "tool", "name": desc.get("name"), "tool": desc["tool"], "job": desc["job"], "features": desc["features"],
            "collect": desc["collect"]}
    key = desc.get("key") or ("random:disagreement" if not corpus else f"corpus:{desc['name']}:disagreement")
    ctx.count(f"outcome:{o1}/{o2}")
    d1 = d2 = None
    what = []
    if "timeout" in (o1, o2):   # cannot happen: run_cases_confirmed re-runs such cases alone or ends the check inconclusive
        raise Inconclusive(f"runner did not finish ({o1}/{o2})")
    if o1 != o2:
        what.append(f"StreamFlow {o1}, cwltool {o2}; sf stderr: {sf['stderr'][-300:]}")
    elif o1 == "success":
        try:
            d1, d2 = json.loads(sf["files"]["dump.json"]), json.loads(ct["files"]["dump.json"])
        except Exception as e:  # noqa: BLE001
            what.append(f"dump unreadable: {e!r}")
        if d1 is not None and d2 is not None:
            if norm_argv(d1["argv"]) != norm_argv(d2["argv"]):
                what.append(f"argv: streamflow {norm_argv(d1['argv'])} cwltool {norm_argv(d2['argv'])}")
            if d1["env"] != d2["env"]:
                what.append(f"env: streamflow {d1['env']} cwltool {d2['env']}")
            for k in ("home_is_cwd", "tmpdir_ok"):   # HOME = output directory, TMPDIR = an existing directory other than it
                if d1.get(k) != d2.get(k):
                    what.append(f"{k}: streamflow {d1.get(k)} cwltool {d2.get(k)}")
            if ("stdin" in desc["features"] or "stdin-compare" in desc["features"]) and d1["stdin"] != d2["stdin"]:
                what.append(f"stdin: streamflow {d1['stdin']!r} cwltool {d2['stdin']!r}")
        for k in desc["collect"][1:]:
            if sf["files"].get(k) != ct["files"].get(k):
                what.append(f"file {k}: streamflow {sf['files'].get(k)!r} cwltool {ct['files'].get(k)!r}")
    ctx.case({"tool": desc.get("name"), "features": desc["features"], "streamflow": o1, "cwltool": o2,
              "argv_sf": d1 and norm_argv(d1["argv"]), "argv_ct": d2 and norm_argv(d2["argv"])},
             ("tool", json.dumps(desc["tool"], sort_keys=True), json.dumps(desc["job"], sort_keys=True)), "corpus" if corpus else "random")
    if what:
        ctx.fail(key, "; ".join(what)[:900], case)
    # the binding model
    if model_out is not None and d1 is not None and d2 is not None:
        parts = dict(p.split(":", 1) for p in model_out.split(" "))
        m_sf = [bytes.fromhex(e.split(":")[0]).decode() if e.split(":")[0] != "-" else "" for e in parts["sf"].split(",")] if parts["sf"] != "_" else []
        m_sp = [bytes.fromhex(e.split(":")[0]).decode() if e.split(":")[0] != "-" else "" for e in parts["spec"].split(",")] if parts["spec"] != "_" else []
        ctx.count("model-compared")
        if not desc["shell"]:
            if norm_argv(d1["argv"]) != m_sf:
                ctx.disagree("binding model vs StreamFlow argv", f"streamflow {norm_argv(d1['argv'])}, Lean model {m_sf}", case)
            if norm_argv(d2["argv"]) != m_sp:
                ctx.disagree("binding spec vs cwltool argv", f"cwltool {norm_argv(d2['argv'])}, Lean spec {m_sp}", case)
        if parts["sf"] != parts["spec"]:
            ctx.disagree("model: sfElems differs from specElems", model_out[:300], case)


class C30(Property):
    pid = "C30"
    title = "CWL tools receive exactly the arguments the reference runner passes"
    lean_targets = ["SFV.Props.C30"]
    props_files = ["SFV/Props/C30.lean"]
    drivers = ["Drivers/C30.lean"]
    translators = [cwlcmdtpl.generate]
    quick_budget_s = 1500
    thorough_budget_s = 2400
    min_nontrivial = 20
    rule = ("(i) quoting: random words over an alphabet of shell metacharacters, quotes, whitespace, unicode and the empty string: Lean "
            "shlexQuote vs Python shlex.quote, Lean parseCmd vs shlex.split and vs the original words; (ii) environment: random values through the real "
            "create_command, its output executed by /bin/sh, vs the Lean rendering model (generated quoting style); (iii) redirections: stdin/stdout/stderr combinations through the real create_command vs the Lean "
            "suffix model; (iv) whole-runner differential: random CommandLineTools (1..6 bound "
            "inputs of type string/int/float/boolean/File/enum/optional/array/record with position, prefix, separate, itemSeparator, "
            "item bindings, valueFrom; arguments; ShellCommandRequirement with shellQuote:false; EnvVarRequirement; stdin/stdout/stderr) whose "
            "baseCommand dumps argv / SFVT_* environment / stdin as JSON, run by StreamFlow and by cwltool in fresh processes with private "
            "HOME/TMPDIR/database; compared with each other and, inside the modelled fragment, with the Lean binding model and spec; a corpus "
            "holds one tool per known deviation plus all 37 tricky strings as scalar inputs. Non-trivial = distinct tool + job.")
    trusted_base = [
        "translator harness/sfv/translate/cwlcmdtpl.py (ast patterns: the `export K=…` f-string of create_command, the sort key of "
        "_get_executable_command -> SFV/Gen/CwlCmdTpl.lean)",
        "cwltool 3.2 as the reference oracle",
        "modelled, not verified: /bin/sh word splitting restricted to words separated by single spaces (parseCmd refuses every character "
        "the shell would interpret); Python shlex.quote (compared with the Lean shlexQuote on every run)",
        "differential validation (not proof): float formatting (_get_value_repr), JavaScript valueFrom, records, file staging, "
        "the local connector and create_command redirections",
    ]
    assumptions = [
        "arrays given to the random tools hold shell-inert strings and separators other than space: arrays with an outer inputBinding are "
        "not shell-quoted by StreamFlow (known finding, reproduced by the corpus)",
        "stdin of a tool is compared only when the tool declares `stdin` (otherwise StreamFlow lets the tool inherit the runner's stdin: "
        "known finding)",
    ]
    technique = ("Lean 4 proof that StreamFlow's binding algorithm equals the CWL standard's on the modelled fragment + shlex.quote / sh word-"
                 "splitting round trip + differential runs against cwltool")
    level_text = ("grade C (kernel): argv_eq_spec / command_string_eq_spec prove that on the modelled binding fragment StreamFlow builds the same "
                  "elements, order and quoting flags as the standard; quote_roundtrip and argv_verbatim prove that every quoted element reaches "
                  "the tool verbatim for every string; env_eq_spec proves the same for EnvVarRequirement values (full strength after fix 1a0529c); "
                  "redirects_eq_spec_partial for declared stderr with the witness redirects_eq_spec_false (stdout without stderr); everything "
                  "else (floats, JavaScript valueFrom, records, staging, redirections, the real shell) is differential validation against cwltool")
    level_note = ("Lean kernel, axioms within {propext, Classical.choice, Quot.sound}; binding and shell models are hand-written and compared on "
                  "every run with shlex, /bin/sh and with the argv both runners really pass")

    def _quoting(self, ctx: Ctx) -> None:
        rng = ctx.rng
        alphabet = list("ab z'\"$`\\;|&*?~#()<>{}[]!%=,:./-_é日\t\n") + ["", "--", "$("]
        n = 200 if ctx.tier == "quick" else 4000
        lines, words = [], []
        for i in range(n):
            ws = list(G.STRINGS) if i == 0 else ["".join(rng.choice(alphabet) for _ in range(rng.randint(0, 6))) for _ in range(rng.randint(1, 4))]
            words.append(ws)
            lines.append("quote " + " ".join(hx(w) for w in ws))
        got = ctx.lean("Drivers/C30.lean", lines)
        for ws, g in zip(words, got):
            parts = dict(p.split(":", 1) for p in g.split(" "))
            q = _unhex_list(parts["q"])
            ctx.case({"op": "quote", "words": ws}, ("quote", tuple(ws)), "quote")
            if q != [shlex.quote(w) for w in ws]:
                ctx.disagree("shlexQuote model vs shlex.quote", f"{ws}: python {[shlex.quote(w) for w in ws]}, Lean {q}", {"op": "quote", "words": ws})
            parsed = None if parts["parse"] == "none" else _unhex_list(parts["parse"])
            if parsed != ws:
                ctx.disagree("parseCmd round trip", f"{ws}: Lean parse {parsed}", {"op": "quote", "words": ws})
            if shlex.split(" ".join(shlex.quote(w) for w in ws)) != ws:
                ctx.fail("shlex:roundtrip", f"shlex.split(shlex.quote) differs on {ws}", {"op": "quote", "words": ws})
        # environment values: the REAL create_command, its output run by a real /bin/sh, against the Lean rendering model
        from streamflow.core.utils import create_command

        vals = list(G.ENV_SAFE) + list(G.ENV_ACTIVE) + ["new\nline", "tab\there", "''", '""'] + \
            ["".join(rng.choice(alphabet) for _ in range(rng.randint(0, 6))) for _ in range(60 if ctx.tier == "quick" else 600)]
        vals = [v for v in vals if "\x00" not in v]
        got = ctx.lean("Drivers/C30.lean", ["env " + hx(v) for v in vals])
        for v, g in zip(vals, got):
            m = g.split(":", 1)[1]
            predicted = None if m == "none" else _unhex_list(m)
            ctx.case({"op": "env", "value": v, "model": predicted}, ("env", v), "env")
            cmd = create_command(class_name="C30", command=["printenv", "K"], environment={"K": v}, workdir=ctx.scratch)
            try:
                p = subprocess.run(["/bin/sh", "-c", cmd], capture_output=True, text=True, timeout=20, stdin=subprocess.DEVNULL)
                real = p.stdout[:-1] if p.stdout.endswith("\n") else p.stdout
            except subprocess.TimeoutExpired:
                real = "<timeout>"
            if predicted != [real]:
                ctx.disagree("environment rendering model vs create_command + /bin/sh",
                             f"value {v!r}: the tool would see {real!r}, Lean parse of the rendering {predicted}", {"op": "env", "value": v})
            if real != v:
                ctx.fail("env:shell-active-value" if any(c in v for c in '$`\\"') else "env:value-not-verbatim",
                         f"EnvVar value {v!r} reaches the process as {real!r} (command: {cmd[-120:]!r})", {"op": "env", "value": v})

    def _redirections(self, ctx: Ctx) -> None:
        """the suffix the REAL create_command appends for stdin / stdout / stderr (stderr defaulting to stdout as CWLCommand.execute
        does — checked by the extractor) against the Lean rendering `renderSuffix (sfSuffix i o e)`; monitor: the effective streams
        equal the standard's unless the tool has stdout without stderr (known finding)"""
        import asyncio.subprocess as asp

        from streamflow.core.utils import create_command

        rng = ctx.rng
        names = [None, "out.txt", "in put.txt", "e'rr", "a$b", "x;y", "é.log", "-", "two  sp"]
        combos = [(None, None, None), (None, "out.txt", None), ("in.txt", "out.txt", "err.txt"), (None, None, "err.txt")]
        for _ in range(40 if ctx.tier == "quick" else 400):
            combos.append((rng.choice(names), rng.choice(names), rng.choice(names)))
        opt = lambda v: "~" if v is None else hx(v)  # noqa: E731
        got = ctx.lean("Drivers/C30.lean", [f"redir {opt(i)} {opt(o)} {opt(e)}" for i, o, e in combos])
        base = create_command("C30", ["CMD"])
        for (i, o, e), g in zip(combos, got):
            stdout = o if o is not None else asp.STDOUT
            stderr = e if e is not None else stdout
            real = create_command("C30", ["CMD"], stdin=i, stdout=stdout, stderr=stderr)
            parts = dict(p.split(":", 1) for p in g.split(" "))
            model = "" if parts["suffix"] == "-" else bytes.fromhex(parts["suffix"]).decode()
            ctx.case({"op": "redir", "stdin": i, "stdout": o, "stderr": e, "real": real}, ("redir", i, o, e), "redirections")
            if not real.startswith("CMD") or real[3:] != model:
                ctx.disagree("redirection rendering model vs create_command", f"stdin={i!r} stdout={o!r} stderr={e!r}: code {real!r}, Lean {('CMD' + model)!r}",
                             {"op": "redir", "stdin": i, "stdout": o, "stderr": e})
            # the standard: stderr goes to its own file when declared, else to the runner's stderr
            want_err = "inherit" if e is None else "file=" + hx(e)
            streams = parts["streams"].split(",")
            if e is not None and e == o:
                continue
            if len(streams) == 3 and streams[2] != want_err:
                if o is not None and e is None:
                    ctx.fail("stdout:file-contains-stderr", f"stdout={o!r} without stderr: create_command renders {real[3:]!r} (stderr merged into the stdout file)",
                             {"op": "redir", "stdin": i, "stdout": o, "stderr": e})
                elif o is None and e is None:
                    ctx.count("stderr-merged-into-captured-output")   # nothing is redirected to a file: the runner logs both streams
                else:
                    ctx.fail("redirections", f"stdin={i!r} stdout={o!r} stderr={e!r}: effective streams {parts['streams']}", {"op": "redir", "stdin": i, "stdout": o, "stderr": e})

    def explore(self, ctx: Ctx) -> None:
        C.enable_bytecode_cache()
        self._quoting(ctx)
        self._redirections(ctx)
        C.warm_up()
        rng = ctx.rng
        descs = corpus_tools(os.path.join(ctx.scratch, "corpus"))
        for d in descs:
            d["corpus"] = True
        ctx.corpus_replayed += len(descs)
        nrand = {"quick": 6, "thorough": 200}[ctx.tier] * (2 if ctx.mode == "search" else 1)
        for i in range(nrand):
            dd = os.path.join(ctx.scratch, f"rand{ctx.mode}{i}")
            desc = G.gen_tool(rng, dd, G.SAFE_FEATURES, env_mode="safe")
            desc.update({"name": f"random-{i}", "dir": dd, "key": None, "corpus": False})
            descs.append(desc)
        lines, idx = [], []
        for k, d in enumerate(descs):
            ln = model_line(d) if not d.get("key") else None
            if ln is not None:
                idx.append(k)
                lines.append(ln)
        outs = dict(zip(idx, ctx.lean("Drivers/C30.lean", lines))) if lines else {}
        cases = [{"id": k, "dir": d["dir"], "doc": "tool.cwl", "job": "job.json", "name": "wf", "collect": d["collect"], "timeout": 900}
                 for k, d in enumerate(descs)]
        ncorpus = sum(1 for d in descs if d["corpus"])
        done = 0
        budget = self.quick_budget_s if ctx.tier == "quick" else self.thorough_budget_s
        for start in range(0, len(cases), 16):
            # adaptive plan: no new tools once 70 % of the budget is used (the corpus always runs)
            if start >= ncorpus and ctx.time_left() < 0.3 * budget:
                ctx.notes.append(f"adaptive plan: {len(cases) - start} of {len(cases) - ncorpus} random tools not run (70% of the budget used)")
                if done < ncorpus + 4:
                    ctx.extra["incomplete"] = True
                break
            try:
                for case, res in C.run_cases_confirmed(cases[start:start + 16], time_left=ctx.time_left):
                    d = descs[case["id"]]
                    done += 1
                    compare_tool(ctx, d, res, outs.get(case["id"]), d["corpus"])
            except C.Unconfirmed as e:
                raise Inconclusive(str(e)) from e
        ctx.extra["tools_planned"] = len(cases)
        ctx.extra["tools_run"] = done

    def replay(self, ctx: Ctx, data) -> None:
        r = data.get("replay") or {}
        if r.get("op") != "tool" or "tool" not in r:
            return super().replay(ctx, data)
        C.warm_up()
        dd = os.path.join(ctx.scratch, "replay")
        os.makedirs(dd, exist_ok=True)
        dump = G.write_dump_script(dd)
        tool = json.loads(json.dumps(r["tool"]))
        tool["baseCommand"] = ["python3", dump]
        json.dump(tool, open(os.path.join(dd, "tool.cwl"), "w"), indent=1)
        job = json.loads(json.dumps(r["job"]))
        for v in job.values():
            for f in ([v] if isinstance(v, dict) else (v if isinstance(v, list) else [])):
                if isinstance(f, dict) and f.get("class") == "File":
                    f["path"] = os.path.join(dd, os.path.basename(f["path"]))
                    open(f["path"], "w").write("content\n")
        json.dump(job, open(os.path.join(dd, "job.json"), "w"))
        res = C.run_case({"dir": dd, "doc": "tool.cwl", "job": "job.json", "name": "wf", "collect": r.get("collect", ["dump.json"]), "timeout": 900})
        for side in ("sf", "ct"):
            print(side, C.outcome(res[side]), res[side].get("files"))
        desc = {"name": r.get("name"), "tool": tool, "job": job, "features": r.get("features", []), "collect": r.get("collect", ["dump.json"]),
                "key": data.get("key"), "shell": False}
        compare_tool(ctx, desc, res, None, True)


PROPERTY = C30()
