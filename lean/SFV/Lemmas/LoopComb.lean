import SFV.Model.LoopComb
/-! Helper definitions and lemmas for the reading protocol of `LoopCombinatorStep.run` (C04, loop combinator). -/
namespace SFV.LoopComb

/-! ## Reachability -/

/-- the states the loop can be in, for the given producer streams, under some scheduling of the reads -/
inductive Reachable (fixed : Bool) (streams : List (List Tok)) : St → Prop
  | init : Reachable fixed streams (initSt streams)
  | step {s s' : St} {i : Nat} :
      Reachable fixed streams s → SFV.LoopComb.step fixed s i = some s' → Reachable fixed streams s'

theorem run_append (fixed : Bool) (a b : List Nat) (s : St) :
    run fixed s (a ++ b) = (run fixed s a).bind (fun s' => run fixed s' b) := by
  induction a generalizing s with
  | nil => rfl
  | cons i is ih =>
    simp only [List.cons_append, run]
    cases step fixed s i with
    | none => rfl
    | some s1 => exact ih s1

theorem reachable_of_run {fixed : Bool} {streams : List (List Tok)} (sched : List Nat) {s0 s : St}
    (h0 : Reachable fixed streams s0) (hr : run fixed s0 sched = some s) : Reachable fixed streams s := by
  induction sched generalizing s0 with
  | nil => simp only [run] at hr; cases hr; exact h0
  | cons i is ih =>
    simp only [run] at hr
    split at hr
    · rename_i s1 h1; exact ih (Reachable.step h0 h1) hr
    · cases hr

theorem reachable_iff_run {fixed : Bool} {streams : List (List Tok)} {s : St} :
    Reachable fixed streams s ↔ ∃ sched, run fixed (initSt streams) sched = some s := by
  constructor
  · intro h
    induction h with
    | init => exact ⟨[], rfl⟩
    | step _ hs ih =>
      obtain ⟨sched, hr⟩ := ih
      rename_i i _
      refine ⟨sched ++ [i], ?_⟩
      rw [run_append, hr]
      simp only [Option.bind, run, hs]
  · rintro ⟨sched, hr⟩
    exact reachable_of_run sched Reachable.init hr

/-! ## Streams -/

theorem hasTerm_nil : hasTerm [] = false := rfl

theorem hasTerm_tail {t : Tok} {rest : List Tok} (h : hasTerm (t :: rest) = true)
    (ht : ∀ ok, t ≠ .term ok) : hasTerm rest = true := by
  cases t with
  | term ok => exact absurd rfl (ht ok)
  | data _ => simpa [hasTerm] using h
  | iterTerm _ => simpa [hasTerm] using h

theorem hasTerm_of_mem {l : List Tok} {ok : Bool} (h : Tok.term ok ∈ l) : hasTerm l = true := by
  unfold hasTerm
  exact List.any_eq_true.mpr ⟨_, h, rfl⟩

/-- a well-formed stream (exactly one termination token, at the end) contains a termination token -/
theorem hasTerm_of_wellFormed {l : List Tok} (h : wellFormedStream l = true) : hasTerm l = true := by
  unfold wellFormedStream at h
  split at h
  · rename_i ok r hr
    have : Tok.term ok ∈ l.reverse := by rw [hr]; exact List.mem_cons_self
    exact hasTerm_of_mem (List.mem_reverse.mp this)
  · cases h

/-! ## One step, in closed form -/

def isTerm : Tok → Bool
  | .term _ => true
  | _ => false

/-- `TerminationToken` with a status other than COMPLETED -/
def isBad : Tok → Bool
  | .term false => true
  | _ => false

@[simp] theorem consume_stream (fixed : Bool) (p : PortSt) (tok : Tok) : (consume fixed p tok).stream = p.stream := by
  cases tok <;> simp only [consume] <;> split <;> rfl

@[simp] theorem consume_pending (fixed : Bool) (p : PortSt) (tok : Tok) :
    (consume fixed p tok).pending = p.pending := by
  cases tok <;> simp only [consume] <;> split <;> rfl

@[simp] theorem consume_terminated (fixed : Bool) (p : PortSt) (tok : Tok) :
    (consume fixed p tok).terminated = (p.terminated || isTerm tok) := by
  cases tok <;> simp only [consume, isTerm, Bool.or_false, Bool.or_true] <;> split <;> rfl

/-- the port after its read returned `tok` (`failed'` = the failure flag after this token) -/
def portAfter (fixed failed' : Bool) (p : PortSt) (tok : Tok) (rest : List Tok) : PortSt :=
  let p1 := consume fixed { p with stream := rest } tok
  { p1 with pending := if fixed then !(p1.terminated && (failed' || p1.checklist.isEmpty))
                       else !(p1.terminated && p1.checklist.isEmpty) }

/-- the repaired loop cancels the read of a terminated port -/
def cancelTerminated (q : PortSt) : PortSt := if q.terminated then { q with pending := false } else q

@[simp] theorem portAfter_stream (fixed failed' : Bool) (p : PortSt) (tok : Tok) (rest : List Tok) :
    (portAfter fixed failed' p tok rest).stream = rest := by
  simp [portAfter]

@[simp] theorem portAfter_terminated (fixed failed' : Bool) (p : PortSt) (tok : Tok) (rest : List Tok) :
    (portAfter fixed failed' p tok rest).terminated = (p.terminated || isTerm tok) := by
  simp [portAfter]

theorem portAfter_pending_fixed (p : PortSt) (tok : Tok) (rest : List Tok) :
    (portAfter true true p tok rest).pending = !(p.terminated || isTerm tok) := by
  simp [portAfter]

@[simp] theorem cancelTerminated_stream (q : PortSt) : (cancelTerminated q).stream = q.stream := by
  unfold cancelTerminated; split <;> rfl

@[simp] theorem cancelTerminated_terminated (q : PortSt) : (cancelTerminated q).terminated = q.terminated := by
  unfold cancelTerminated; split <;> rfl

theorem cancelTerminated_pending (q : PortSt) (h : q.terminated = true) : (cancelTerminated q).pending = false := by
  unfold cancelTerminated; simp [h]

/-- closed form of an enabled step -/
theorem step_spec {fixed : Bool} {s s' : St} {i : Nat} (hs : step fixed s i = some s') :
    ∃ p tok rest, s.ports[i]? = some p ∧ p.pending = true ∧ p.stream = tok :: rest ∧
      s' = { ports := if (fixed && isBad tok) = true
                      then (s.ports.set i (portAfter fixed (s.failed || (fixed && isBad tok)) p tok rest)).map
                        cancelTerminated
                      else s.ports.set i (portAfter fixed (s.failed || (fixed && isBad tok)) p tok rest),
             failed := s.failed || (fixed && isBad tok) } := by
  simp only [step] at hs
  split at hs
  · cases hs
  · rename_i p hp
    split at hs
    · rename_i hpend
      split at hs
      · cases hs
      · rename_i tok rest hst
        cases hs
        refine ⟨p, tok, rest, hp, hpend, hst, ?_⟩
        cases tok with
        | term ok => cases ok <;> rfl
        | _ => rfl
    · cases hs

/-! ## The invariant of the repaired loop -/

/-- (a) a port that has not seen a termination token still has one to come;
    (b) after a failure, no terminated port is read -/
def Inv (s : St) : Prop :=
  ∀ p ∈ s.ports, (p.terminated = false → hasTerm p.stream = true) ∧
    (s.failed = true → p.terminated = true → p.pending = false)

theorem inv_init {streams : List (List Tok)} (h : ∀ l ∈ streams, hasTerm l = true) : Inv (initSt streams) := by
  intro p hp
  simp only [initSt, List.mem_map] at hp
  obtain ⟨l, hl, rfl⟩ := hp
  exact ⟨fun _ => h l hl, fun hf => by simp [initSt] at hf⟩

theorem isTerm_false_iff {t : Tok} : isTerm t = false ↔ ∀ ok, t ≠ .term ok := by
  cases t <;> simp [isTerm]

theorem isBad_isTerm {t : Tok} (h : isBad t = true) : isTerm t = true := by
  cases t with
  | term ok => rfl
  | _ => cases h

theorem inv_step {s s' : St} {i : Nat} (hs : step true s i = some s') (hI : Inv s) : Inv s' := by
  obtain ⟨p, tok, rest, hp, hpend, hst, rfl⟩ := step_spec hs
  have hIp := hI p (List.mem_of_getElem? hp)
  -- (a) for the port just read
  have ha : ∀ f, (portAfter true f p tok rest).terminated = false →
      hasTerm (portAfter true f p tok rest).stream = true := by
    intro f h
    simp only [portAfter_terminated, Bool.or_eq_false_iff] at h
    rw [portAfter_stream]
    exact hasTerm_tail (hst ▸ hIp.1 h.1) (isTerm_false_iff.mp h.2)
  intro q hq
  cases hb : isBad tok with
  | false =>
    simp only [hb, Bool.and_false, Bool.false_eq_true, if_false, Bool.or_false] at hq ⊢
    rcases List.mem_or_eq_of_mem_set hq with h | rfl
    · exact hI q h
    · refine ⟨ha _, fun hf ht => ?_⟩
      rw [hf, portAfter_pending_fixed]
      rw [portAfter_terminated] at ht
      simp [ht]
  | true =>
    simp only [hb, Bool.and_true, if_true, Bool.or_true, List.mem_map] at hq ⊢
    obtain ⟨q0, hq0, rfl⟩ := hq
    refine ⟨?_, fun _ ht => cancelTerminated_pending q0 (by simpa using ht)⟩
    rw [cancelTerminated_stream, cancelTerminated_terminated]
    rcases List.mem_or_eq_of_mem_set hq0 with h | rfl
    · exact (hI q0 h).1
    · exact ha _

theorem inv_reachable {streams : List (List Tok)} (hw : ∀ l ∈ streams, hasTerm l = true) {s : St}
    (hr : Reachable true streams s) : Inv s := by
  induction hr with
  | init => exact inv_init hw
  | step _ hs ih => exact inv_step hs ih

/-- under the invariant, a port with an outstanding read and nothing left to arrive has terminated -/
theorem inv_pending_empty {s : St} (hI : Inv s) {p : PortSt} (hp : p ∈ s.ports) (he : p.stream = []) :
    p.terminated = true := by
  cases ht : p.terminated with
  | true => rfl
  | false =>
    have := (hI p hp).1 ht
    rw [he] at this; cases this

theorem inv_no_deadlock {s : St} (hI : Inv s) (hf : s.failed = true) : deadlocked s = false := by
  cases hd : deadlocked s with
  | false => rfl
  | true =>
    unfold deadlocked at hd
    obtain ⟨p, hp, hpp⟩ := List.any_eq_true.mp hd
    simp only [Bool.and_eq_true, List.isEmpty_iff] at hpp
    have ht := inv_pending_empty hI hp hpp.2
    have := (hI p hp).2 hf ht
    rw [hpp.1] at this; cases this

theorem inv_done {s : St} (hI : Inv s) (hf : s.failed = true) (he : ∀ p ∈ s.ports, p.stream = []) :
    done s = true := by
  unfold done
  apply List.all_eq_true.mpr
  intro p hp
  have ht := inv_pending_empty hI hp (he p hp)
  simp [(hI p hp).2 hf ht]

/-! ## The patch is neutral without failure -/

theorem step_patch_neutral {s : St} {i : Nat} (hf : s.failed = false)
    (hh : ∀ p, s.ports[i]? = some p → p.stream.head? ≠ some (.term false)) :
    step true s i = step false s i := by
  simp only [step]
  split
  · rfl
  · rename_i p hp
    have hh := hh p hp
    split
    · split
      · rfl
      · rename_i tok rest hst
        rw [hst] at hh
        cases tok with
        | data t => simp [consume, hf]
        | iterTerm t => simp [consume, hf]
        | term ok =>
          cases ok with
          | true => simp [consume, hf]
          | false => simp at hh
    · rfl

/-- no failed termination is ever to be delivered, and none was seen -/
def NoFailSt (s : St) : Prop := s.failed = false ∧ ∀ p ∈ s.ports, Tok.term false ∉ p.stream

theorem noFailSt_init {streams : List (List Tok)} (h : ∀ l ∈ streams, Tok.term false ∉ l) :
    NoFailSt (initSt streams) := by
  refine ⟨rfl, ?_⟩
  intro p hp
  simp only [initSt, List.mem_map] at hp
  obtain ⟨l, hl, rfl⟩ := hp
  exact h l hl

theorem noFailSt_step {s s' : St} {i : Nat} (hs : step false s i = some s') (hN : NoFailSt s) : NoFailSt s' := by
  simp only [step] at hs
  split at hs
  · cases hs
  · rename_i p hp
    have hpm := List.mem_of_getElem? hp
    split at hs
    · split at hs
      · cases hs
      · rename_i tok rest hst
        cases hs
        refine ⟨by simp [hN.1], ?_⟩
        intro q hq
        simp only [Bool.false_and, Bool.false_eq_true, if_false] at hq
        rcases List.mem_or_eq_of_mem_set hq with h | rfl
        · exact hN.2 q h
        · have h1 := hN.2 p hpm
          rw [hst] at h1
          have h2 : Tok.term false ∉ rest := fun h => h1 (List.mem_cons_of_mem _ h)
          cases tok with
          | data t => simp only [consume]; split <;> exact h2
          | iterTerm t => exact h2
          | term ok => exact h2
    · cases hs

theorem noFailSt_head {s : St} (hN : NoFailSt s) (i : Nat) :
    ∀ p, s.ports[i]? = some p → p.stream.head? ≠ some (.term false) := by
  intro p hp hh
  have := hN.2 p (List.mem_of_getElem? hp)
  cases hst : p.stream with
  | nil => rw [hst] at hh; cases hh
  | cons t r =>
    rw [hst] at hh this
    simp only [List.head?_cons, Option.some.injEq] at hh
    exact this (hh ▸ List.mem_cons_self)

theorem run_patch_neutral {s : St} (hN : NoFailSt s) (sched : List Nat) :
    run true s sched = run false s sched := by
  induction sched generalizing s with
  | nil => rfl
  | cons i is ih =>
    simp only [run]
    rw [step_patch_neutral hN.1 (noFailSt_head hN i)]
    cases hs : step false s i with
    | none => rfl
    | some s1 => exact ih (noFailSt_step hs hN)

end SFV.LoopComb
