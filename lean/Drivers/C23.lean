import SFV.Model.Tar
import SFV.Model.Proto
open SFV SFV.Proto SFV.Bytes SFV.Tar

/-- policies shared with the chunking fake of the harness: `f<k>` at most k bytes per raw read;
    `m<a>,<b>` = 1 + (remaining * a + request) % b bytes -/
def parsePolicy (s : String) : Option (Nat → Nat → Nat) :=
  if s.startsWith "f" then (s.drop 1).toString.toNat?.map (fun k => fun _ _ => k)
  else if s.startsWith "m" then
    match ((s.drop 1).toString.splitOn ",").map String.toNat? with
    | [some a, some b] => some (fun req rem => 1 + (rem * a + req) % b)
    | _ => none
  else none

/-- operations on one reader: `r<n>` read, `s<off>` seek (the code as it is), `o<off>` one-raw-read seek -/
def runOps : Reader → List String → List String → List String
  | _, [], acc => acc.reverse
  | s, op :: ops, acc =>
      let n := (op.drop 1).toString.toNat?.getD 0
      if op.startsWith "r" then
        let r := s.read n
        runOps r.2 ops (s!"{hexOfBytes r.1}@{r.2.pos}" :: acc)
      else if op.startsWith "s" then
        match s.seek n with
        | some s' => runOps s' ops (s!"ok@{s'.pos}" :: acc)
        | none => runOps s ops ("back" :: acc)
      else
        match s.seekOnce n with
        | some s' => runOps s' ops (s!"ok@{s'.pos}" :: acc)
        | none => runOps s ops ("back" :: acc)

/-! the tar header fields as CPython's `TarInfo.frombuf` reads them (driver only; the theorems assume a `Codec`) -/


/-- `tarfile.nti` for octal fields -/
def nti (bs : List Byte) : Option Nat :=
  let t := (nts bs).filter (fun b => b != 32)
  if t.all (fun b => 48 ≤ b && b ≤ 55) then some (t.foldl (fun (a : Nat) (b : Byte) => a * 8 + (b.toNat - 48)) 0) else none

def field (b : List Byte) (a z : Nat) : List Byte := (b.drop a).take (z - a)

def realHdr (b : List Byte) : Option Hd := do
  let stored ← nti (field b 148 156)
  let sum := ((field b 0 148) ++ List.replicate 8 32 ++ (field b 156 512)).foldl (fun (a : Nat) (x : Byte) => a + x.toNat) 0
  if stored ≠ sum then none
  let size ← nti (field b 124 136)
  let ty := (field b 156 157).headD 0
  let name0 := nts (field b 0 100)
  let pre := nts (field b 345 500)
  let isDir := ty == 53 || ((ty == 0 || ty == 48) && name0.getLast? == some 47)
  let name1 := if isDir then (name0.reverse.dropWhile (· == 47)).reverse else name0
  let name := if pre.isEmpty then name1 else pre ++ [47] ++ name1
  -- data blocks follow regular files (types '0', NUL, '7') only; everything else handled here has none
  let isReg := (ty == 48 || ty == 0 || ty == 55) && !isDir
  -- GNU long-name record (type `L`): the next `size` bytes are the name
  if ty == 76 then pure (.long size) else
  -- pax extended header (type `x`): the next `size` bytes are records
  if ty == 120 then pure (.pax size) else
  pure (.reg name (if isReg then size else 0))

/-- the records of a pax extended header: `<len> <key>=<value>\n`, `len` counting the whole record (the parse loop of `_proc_pax`);
    a `path` value loses its trailing slashes (`_apply_pax_info`) -/
partial def realRecs (b : List Byte) : List Rec :=
  let digits := b.takeWhile (fun x => 48 ≤ x && x ≤ 57)
  if digits.isEmpty then [] else
  let len := digits.foldl (fun (a : Nat) (x : Byte) => a * 10 + (x.toNat - 48)) 0
  if len == 0 || len > b.length then [] else
  let rec_ := (b.take len).drop (digits.length + 1)
  let key := rec_.takeWhile (· != 61)
  let val0 := (rec_.drop (key.length + 1)).dropLast
  let val := if key == pathKey then (val0.reverse.dropWhile (· == 47)).reverse else val0
  (key, val) :: realRecs (b.drop len)

def realDec : Dec := { hdr := realHdr, recs := realRecs }

def digest (d : List Byte) : Nat × Nat :=
  d.foldl (fun (ab : Nat × Nat) (x : Byte) => let a := (ab.1 + x.toNat) % 65521; (a, (ab.2 + a) % 65521)) (1, 0)

def showMember (m : Member) : String :=
  let dg := digest m.data
  s!"{hexOfBytes m.name}:{m.data.length}:{dg.1},{dg.2}"

def handle : List String → String
  | "stream" :: pol :: dh :: ops =>
      match parsePolicy pol, bytesOfHex dh with
      | some p, some d => " ".intercalate (runOps { raw := { data := d, policy := p }, pos := 0 } ops [])
      | _, _ => "bad-op"
  | ["arch", pol, dh] =>
      match parsePolicy pol, bytesOfHex dh with
      | some p, some d =>
          match readArchive realDec { data := d, policy := p } with
          | .ok ms => " ".intercalate ("ok" :: ms.map showMember)
          | .error => "error"
      | _, _ => "bad-op"
  | ["copy", pol, dh, n, fuel] =>
      match parsePolicy pol, bytesOfHex dh, n.toNat?, fuel.toNat? with
      | some p, some d, some n, some f =>
          match copyLoop f { raw := { data := d, policy := p }, pos := 0 } n with
          | some s => s!"done@{s.pos}"
          | none => "still-looping"
      | _, _, _, _ => "bad-op"
  | _ => "bad-op"

def main : IO Unit := runPure handle
