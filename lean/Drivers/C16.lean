import SFV.Model.JobNet
import SFV.Lemmas.JobNet
import SFV.Model.Proto
open SFV SFV.Proto SFV.JobNet

/-! `run <n> | <deps: j:d1,d2 …> | <acts: s<j> e<j> l<j> x<j> …>`
    -> `ok present=<ids> agree=<0|1>` (agree: every available value equals the failure-free one computed by a sweep
       from the empty store) | `disabled <index>` -/

def parseAct (w : String) : Option Act :=
  let n := (w.drop 1).toNat?
  if w.startsWith "s" then n.map Act.stage else if w.startsWith "e" then n.map Act.exec
  else if w.startsWith "l" then n.map Act.lose else if w.startsWith "x" then n.map Act.failAttempt else none

def runIdx (net : Net) : St → List Act → Nat → Sum Nat St
  | s, [], _ => .inr s
  | s, a :: as, i => match step net s a with
    | some s' => runIdx net s' as (i + 1)
    | none => .inl i

def handle : List String → String
  | "run" :: n :: "|" :: rest =>
      match n.toNat? with
      | none => "bad-op"
      | some n =>
        match (" ".intercalate rest).splitOn " | " with
        | [deps, acts] =>
            let dl : List (Nat × List Nat) := (words deps).filterMap (fun w =>
              match w.splitOn ":" with
              | [t, ps] => t.toNat?.map (fun t => (t, (ps.splitOn ",").filterMap (·.toNat?)))
              | _ => none)
            let net : Net := ⟨fun t => (dl.find? (·.1 == t)).map (·.2) |>.getD [], fun j vs => vs.foldl (fun a b => 31 * a + b) (7 * j + 1)⟩
            match (words acts).mapM parseAct with
            | none => "bad-op"
            | some as =>
              match runIdx net init as 0 with
              | .inl i => s!"disabled {i}"
              | .inr s =>
                  let ref := (runActs net init (SFV.JobNet.sweep n)).getD init
                  let js := List.range n
                  let present := js.filter (fun j => (s.store j).isSome)
                  let agree := js.all (fun j => match s.store j with | some v => ref.store j == some v | none => true)
                  s!"ok present={",".intercalate (present.map toString)} agree={if agree then 1 else 0}"
        | _ => "bad-op"
  | _ => "bad-op"

def main : IO Unit := runPure handle
