"""C08 — saving then loading a workflow reproduces it exactly (persistence of every built-in entity type)."""
from __future__ import annotations

import asyncio
import enum
import gc
import json
import posixpath
import random

from streamflow.core import utils as sfutils
from streamflow.core.config import BindingConfig
from streamflow.core.deployment import DeploymentConfig, FilterConfig, LocalTarget, Target
from streamflow.core.workflow import Job, Port, Status, Token, Workflow
from streamflow.cwl import step as cwl_step
from streamflow.cwl import transformer as cwl_tr
from streamflow.cwl.combinator import ListMergeCombinator
from streamflow.cwl.processor import CWLTokenProcessor
from streamflow.cwl.workflow import CWLWorkflow
from streamflow.cwl.token import CWLFileToken  # noqa: E402  (after the other cwl modules: import cycle in streamflow.cwl)
from streamflow.persistence.loading_context import DefaultDatabaseLoadingContext, WorkflowBuilder
from streamflow.workflow.combinator import (CartesianProductCombinator, DotProductCombinator, LoopCombinator,
                                            LoopTerminationCombinator)
from streamflow.workflow.port import ConnectorPort, JobPort
from streamflow.workflow.step import (CombinatorStep, DeployStep, ExecuteStep, GatherStep, LoopCombinatorStep, ScatterStep,
                                      ScheduleStep)
from streamflow.workflow.token import IterationTerminationToken, JobToken, ListToken, ObjectToken, TerminationToken

from sfv.framework import Ctx, Property
from sfv.rt.hexs import hx
from sfv.rt.loop import run_controlled
from sfv.rt.sfctx import make_context
from sfv.translate import persist

DRIVER = "Drivers/C08.lean"

SENT = "☠MUTATED"
STRS = ["a", "step", "x y", "é", "日本", "", "a/b", "0", "$(inputs.x)", "q\"uote", "tab\tx", "😀"]


def rs(rng):
    return rng.choice(STRS) + str(rng.randint(0, 99))


def rjson(rng, depth=0):
    r = rng.random()
    if r < 0.5 or depth > 2:
        return rng.choice([None, True, False, 0, -3, 10**9, 1.5, "", "é", "x y", "日本"])
    if r < 0.75:
        return [rjson(rng, depth + 1) for _ in range(rng.randint(0, 3))]
    return {rs(rng): rjson(rng, depth + 1) for _ in range(rng.randint(0, 3))}


# ------------------------------------------------------------------------------------------------
# canonical structural dump
# ------------------------------------------------------------------------------------------------
INT_FLAGS: list[str] = []
SKIP = {"persistent_id", "context", "_saving", "queues", "token_list", "_token_values", "terminated", "_log_level"}


def dump(o, seen=None, top=True):
    seen = seen if seen is not None else set()
    if o is None or isinstance(o, (bool, int, float, str)):
        return o
    if isinstance(o, enum.Enum):
        return f"<{type(o).__name__}.{o.name}>"
    if isinstance(o, (asyncio.Event, asyncio.Lock, asyncio.Condition, asyncio.Queue)):
        return "<sync>"
    if isinstance(o, type):
        return f"<class {o.__module__}.{o.__qualname__}>"
    if isinstance(o, (list, tuple)):
        return [dump(x, seen, False) for x in o]
    if isinstance(o, (set, frozenset)):
        return sorted((dump(x, seen, False) for x in o), key=repr)
    if isinstance(o, dict):
        return {str(k): dump(v, seen, False) for k, v in sorted(o.items(), key=lambda kv: str(kv[0]))}
    if isinstance(o, Workflow) and not top:
        return f"<workflow {o.name}>"
    if isinstance(o, Port) and not top:
        return f"<port {type(o).__name__} {o.name}>"
    if callable(o) and not hasattr(o, "__dict__"):
        return "<callable>"
    if id(o) in seen:
        return "<cycle>"
    seen.add(id(o))
    names = set()
    for klass in type(o).__mro__:
        names.update(getattr(klass, "__slots__", ()) if isinstance(getattr(klass, "__slots__", ()), (tuple, list)) else ())
    names.update(getattr(o, "__dict__", {}).keys())
    out = {"__type__": f"{type(o).__module__}.{type(o).__qualname__}"}
    for n in sorted(names):
        if n in SKIP or n.startswith("__"):
            continue
        try:
            v = getattr(o, n)
        except AttributeError:
            continue
        if isinstance(o, DeploymentConfig) and n in ("external", "lazy") and type(v) is int and v in (0, 1):
            # the two INTEGER columns give the flags back as 0/1 (known finding, reported once per run); compared as booleans
            INT_FLAGS.append(f"{o.name}.{n}")
            out[n] = bool(v)
        elif isinstance(o, Workflow) and n in ("ports", "steps"):
            out[n] = {k: dump(x, seen, True) for k, x in sorted(v.items())}
        else:
            out[n] = dump(v, seen, False)
    if isinstance(o, Token):
        out["recoverable"] = o.recoverable
    seen.discard(id(o))
    return out


def mutate(o, seen=None, depth=0):
    """write into every mutable container and plain attribute reachable from `o` (a loaded entity)"""
    seen = seen if seen is not None else set()
    if o is None or isinstance(o, (bool, int, float, str, enum.Enum, type, asyncio.Event, asyncio.Lock, asyncio.Condition)) or depth > 8:
        return 0
    if id(o) in seen:
        return 0
    seen.add(id(o))
    n = 0
    if isinstance(o, list):
        for x in o:
            n += mutate(x, seen, depth + 1)
        o.append(SENT)
        return n + 1
    if isinstance(o, dict):
        for x in list(o.values()):
            n += mutate(x, seen, depth + 1)
        o[SENT] = SENT
        return n + 1
    if isinstance(o, set):
        o.add(SENT)
        return 1
    if isinstance(o, (tuple, frozenset)):
        for x in o:
            n += mutate(x, seen, depth + 1)
        return n
    if type(o).__module__.split(".")[0] != "streamflow":
        return 0
    names = set(getattr(o, "__dict__", {}).keys())
    for klass in type(o).__mro__:
        sl = getattr(klass, "__slots__", ())
        names.update(sl if isinstance(sl, (tuple, list)) else ())
    for name in sorted(names):
        if name in ("context", "persistent_id", "_saving", "workflow"):
            continue
        try:
            v = getattr(o, name)
        except AttributeError:
            continue
        if isinstance(v, str):
            try:
                setattr(o, name, v + SENT)
                n += 1
            except AttributeError:
                pass
        else:
            n += mutate(v, seen, depth + 1)
    return n


def foreign_ports(w):
    """Port objects reachable from the steps of a loaded workflow that are NOT the workflow's own port of that name: a step attribute
    such as `job_port` must be the very object `workflow.ports[name]` holds (tokens are put on that one)"""
    out, seen = [], set()

    def walk(o, where, depth):
        if o is None or isinstance(o, (bool, int, float, str, enum.Enum, type, asyncio.Event, asyncio.Lock, asyncio.Condition, Workflow)):
            return
        if id(o) in seen or depth > 8:
            return
        seen.add(id(o))
        if isinstance(o, Port):
            if w.ports.get(o.name) is not o:
                out.append(f"{where}: a {type(o).__name__} named {o.name!r} that is not workflow.ports[{o.name!r}]")
            return
        if isinstance(o, (list, tuple, set, frozenset)):
            for x in o:
                walk(x, where, depth + 1)
            return
        if isinstance(o, dict):
            for k, x in o.items():
                walk(x, f"{where}[{k!r}]", depth + 1)
            return
        if type(o).__module__.split(".")[0] != "streamflow":
            return
        names = set(getattr(o, "__dict__", {}).keys())
        for klass in type(o).__mro__:
            sl = getattr(klass, "__slots__", ())
            names.update(sl if isinstance(sl, (tuple, list)) else ())
        for name in sorted(names):
            if name in ("context", "workflow"):
                continue
            try:
                walk(getattr(o, name), f"{where}.{name}", depth + 1)
            except AttributeError:
                continue

    for n, st in w.steps.items():
        walk(st, f"steps[{n!r}]", 0)
    return out


# ------------------------------------------------------------------------------------------------
# random workflows
# ------------------------------------------------------------------------------------------------
def gen_deployment(rng, i):
    return DeploymentConfig(name=f"dep{i}-{rs(rng)}", type=rng.choice(["docker", "local", "ssh"]), config=rjson(rng) if rng.random() < 0.5 else
                            {"image": rs(rng), "opts": [rs(rng)]}, external=rng.random() < 0.3, lazy=rng.random() < 0.5,
                            workdir=rng.choice([None, "/w/" + rs(rng)]))


def gen_combinator(rng, wf, depth=0):
    kind = rng.choice(["dot", "cart", "loop", "loopterm", "listmerge"] if isinstance(wf, CWLWorkflow) else ["dot", "cart", "loop", "loopterm"])
    name = "/" + rs(rng)
    if kind == "dot":
        c = DotProductCombinator(name=name, workflow=wf)
    elif kind == "cart":
        c = CartesianProductCombinator(name=name, workflow=wf, depth=rng.randint(1, 3))
    elif kind == "loop":
        c = LoopCombinator(name=name, workflow=wf)
    elif kind == "loopterm":
        c = LoopTerminationCombinator(name=name, workflow=wf)
        for _ in range(rng.randint(0, 3)):
            c.add_output_item(rs(rng))
    else:
        c = ListMergeCombinator(name=name, workflow=wf, input_names=[rs(rng) for _ in range(rng.randint(1, 3))], output_name=rs(rng),
                                flatten=rng.random() < 0.5)
    for _ in range(rng.randint(0, 3)):
        c.add_item(rs(rng))
    if depth < 2 and kind in ("dot", "cart") and rng.random() < 0.5:
        for _ in range(rng.randint(1, 2)):
            c.add_combinator(gen_combinator(rng, wf, depth + 1), {rs(rng) for _ in range(rng.randint(1, 2))})
    return c


def token_processor(rng, wf):
    return CWLTokenProcessor(name=rs(rng), workflow=wf, token_type=rng.choice(["string", "File", "enum", ["int", "null"]]),
                             enum_symbols=[rs(rng)] if rng.random() < 0.3 else None, expression_lib=[rs(rng)] if rng.random() < 0.5 else None,
                             file_format=rng.choice([None, rs(rng)]), full_js=rng.random() < 0.5, load_contents=rng.choice([None, True, False]),
                             only_propagate_secondary_files=rng.random() < 0.5, streamable=rng.random() < 0.5)


def build_workflow(rng, context):
    cwl = rng.random() < 0.6
    if cwl:
        wf = CWLWorkflow(context=context, name=sfutils.random_name(), config=rjson(rng) if rng.random() < 0.5 else {"k": rs(rng)},
                         cwl_version=rng.choice(["v1.0", "v1.1", "v1.2"]))
    else:
        wf = Workflow(context=context, name=sfutils.random_name(), config={"k": rjson(rng)})
    ports = [wf.create_port() for _ in range(rng.randint(1, 4))]
    job_ports = [wf.create_port(JobPort) for _ in range(rng.randint(1, 2))]
    deploys = []
    for i in range(rng.randint(0, 2)):
        dc = gen_deployment(rng, i)
        cp = wf.create_port(ConnectorPort)
        deploys.append(wf.create_step(cls=DeployStep, name=posixpath.join("__deploy__", dc.name), deployment_config=dc, connector_port=cp))

    def wire(step, nin=None, nout=None):
        # a port is attached to a step at most once (primary key (step, port) of the dependency table)
        used = {p.name for p in list(step.get_input_ports().values()) + list(step.get_output_ports().values())}
        for _ in range(rng.randint(0, 2) if nin is None else nin):
            free = [p for p in ports if p.name not in used]
            if not free:
                break
            p = rng.choice(free)
            used.add(p.name)
            step.add_input_port(rs(rng) + str(len(used)), p)
        for _ in range(rng.randint(0, 2) if nout is None else nout):
            p = wf.create_port()
            ports.append(p)
            step.add_output_port(rs(rng) + "o" + str(len(ports)), p)

    for _ in range(rng.randint(2, 8)):
        kinds = ["combinator", "loopcombinator", "gather", "scatter", "execute", "schedule"]
        if cwl:
            kinds += ["default_tr", "valuefrom", "allnonnull", "firstnonnull", "forward", "listtoelement", "onlynonnull", "clone",
                      "retag", "tokentr", "conditional", "emptyscatter", "loopcond", "transfer", "injector", "loopout", "cwlexecute"]
        k = rng.choice(kinds)
        name = "/" + rs(rng) + sfutils.random_name()[:6]
        if k == "combinator":
            wire(wf.create_step(cls=CombinatorStep, name=name + "-combinator", combinator=gen_combinator(rng, wf)))
        elif k == "loopcombinator":
            wire(wf.create_step(cls=LoopCombinatorStep, name=name + "-loop-combinator", combinator=LoopCombinator(name=name, workflow=wf)))
        elif k == "gather":
            wire(wf.create_step(cls=GatherStep, name=name + "-gather", depth=rng.randint(1, 3), size_port=rng.choice(ports)), 1, 1)
        elif k == "scatter":
            wire(wf.create_step(cls=ScatterStep, name=name + "-scatter", size_port=rng.choice(ports)), 1, 1)
        elif k == "execute":
            wire(wf.create_step(cls=ExecuteStep, name=name, job_port=rng.choice(job_ports)))
        elif k == "cwlexecute":
            wire(wf.create_step(cls=cwl_step.CWLExecuteStep, name=name, job_port=rng.choice(job_ports), recoverable=rng.choice([True, False, "$(inputs.f)"]),
                                full_js=rng.random() < 0.5, expression_lib=[rs(rng)] if rng.random() < 0.5 else None))
        elif k == "schedule" and deploys:
            chosen = rng.sample(deploys, rng.randint(1, len(deploys)))
            targets = [Target(deployment=d.deployment_config, locations=rng.randint(1, 4), service=rng.choice([None, rs(rng)]),
                              workdir=rng.choice([None, "/t/" + rs(rng)])) for d in chosen]
            if rng.random() < 0.3:
                targets.append(LocalTarget(workdir=rng.choice([None, "/l/" + rs(rng)])))
            bc = BindingConfig(targets=targets, filters=[FilterConfig(name=rs(rng), type="shuffle", config=rjson(rng) if rng.random() < 0.3 else {})
                                                         for _ in range(rng.randint(0, 2))])
            cps = {t.deployment.name: (d.get_output_port() if t.deployment.name != "__LOCAL__" else wf.create_port(ConnectorPort))
                   for t, d in zip(targets, chosen + [None])}
            wf.create_step(cls=ScheduleStep, name=posixpath.join(name, "__schedule__"), job_prefix=name, connector_ports=cps,
                           binding_config=bc, job_port=rng.choice(job_ports), input_directory=rng.choice([None, "/in"]),
                           output_directory=rng.choice([None, "/out"]), tmp_directory=rng.choice([None, "/tmp/x"]))
        elif k == "default_tr":
            wire(wf.create_step(cls=cwl_tr.DefaultTransformer, name=name + "-default", default_port=rng.choice(ports)), 1, 1)
        elif k == "valuefrom":
            wire(wf.create_step(cls=cwl_tr.ValueFromTransformer, name=name + "-vf", processor=token_processor(rng, wf), port_name=rs(rng),
                                expression_lib=[rs(rng)], full_js=rng.random() < 0.5, value_from="$(" + rs(rng) + ")"), 1, 1)
        elif k in ("allnonnull", "firstnonnull", "forward", "listtoelement", "onlynonnull"):
            cls = {"allnonnull": cwl_tr.AllNonNullTransformer, "firstnonnull": cwl_tr.FirstNonNullTransformer, "forward": cwl_tr.ForwardTransformer,
                   "listtoelement": cwl_tr.ListToElementTransformer, "onlynonnull": cwl_tr.OnlyNonNullTransformer}[k]
            wire(wf.create_step(cls=cls, name=name + "-" + k), 1, 1)
        elif k == "clone":
            wire(wf.create_step(cls=cwl_tr.CloneTransformer, name=name + "-clone", replicas_port=rng.choice(ports)), 1, 1)
        elif k == "retag":
            wire(wf.create_step(cls=cwl_tr.DefaultRetagTransformer, name=name + "-retag", default_port=rng.choice(ports), primary_port=rs(rng)), 1, 1)
        elif k == "tokentr":
            wire(wf.create_step(cls=cwl_tr.CWLTokenTransformer, name=name + "-tt", port_name=rs(rng), processor=token_processor(rng, wf)), 1, 1)
        elif k == "conditional":
            wire(wf.create_step(cls=cwl_step.CWLConditionalStep, name=name + "-when", expression="$(" + rs(rng) + ")", expression_lib=[rs(rng)],
                                full_js=rng.random() < 0.5))
        elif k == "emptyscatter":
            wire(wf.create_step(cls=cwl_step.CWLEmptyScatterConditionalStep, name=name + "-empty", scatter_method=rng.choice(["dotproduct", "flat_crossproduct",
                                                                                                                     "nested_crossproduct"])))
        elif k == "loopcond":
            wire(wf.create_step(cls=cwl_step.CWLLoopConditionalStep, name=name + "-loop-when", expression="$(" + rs(rng) + ")", expression_lib=[rs(rng)],
                                full_js=rng.random() < 0.5))
        elif k == "transfer":
            wire(wf.create_step(cls=cwl_step.CWLTransferStep, name=name + "-transfer", job_port=rng.choice(job_ports), prefix_path=rng.random() < 0.5,
                                writable=rng.random() < 0.5), 1, 1)
        elif k == "injector":
            wire(wf.create_step(cls=cwl_step.CWLInputInjectorStep, name=name + "-injector", job_port=rng.choice(job_ports)), 0, 1)
        elif k == "loopout":
            wire(wf.create_step(cls=rng.choice([cwl_step.CWLLoopOutputAllStep, cwl_step.CWLLoopOutputLastStep]), name=name + "-loop-out"), 1, 1)
    for p in rng.sample(ports, min(len(ports), rng.randint(0, 2))):
        wf.output_ports[rs(rng)] = p.name
    # steps are saved in whatever state they are in
    for st in wf.steps.values():
        if rng.random() < 0.6:
            st.status = rng.choice(list(Status))
    # the CWL translator also fills `Workflow.input_ports` (`workflow.input_ports[port_name] = input_port.name`)
    for p in rng.sample(ports, min(len(ports), rng.randint(0, 2))):
        wf.input_ports[rs(rng)] = p.name
    return wf, ports


def gen_token(rng, depth=0):
    r = rng.random()
    tag = ".".join(str(rng.choice([0, 1, 9, 10, 11])) for _ in range(rng.randint(1, 3)))
    if r < 0.45 or depth >= 3:
        return Token(value=rjson(rng), tag=tag, recoverable=rng.random() < 0.5)
    if r < 0.7:
        return ListToken(value=[gen_token(rng, depth + 1) for _ in range(rng.randint(0, 3))], tag=tag)
    if r < 0.84:
        return ObjectToken(value={rs(rng): gen_token(rng, depth + 1) for _ in range(rng.randint(0, 3))}, tag=tag)
    if r < 0.9:
        return JobToken(value=Job(name="/" + rs(rng) + "/" + tag, workflow_id=rng.randint(0, 9),
                                  inputs={rs(rng): gen_token(rng, depth + 1) for _ in range(rng.randint(0, 2))},
                                  input_directory=rng.choice([None, "/in/" + rs(rng)]), output_directory=rng.choice([None, "/out/" + rs(rng)]),
                                  tmp_directory=rng.choice([None, "/tmp/" + rs(rng)])), tag=tag, recoverable=rng.random() < 0.5)
    if r < 0.96:
        f = {"class": "File", "path": "/d/" + rs(rng), "basename": rs(rng), "size": rng.randint(0, 10**6),
             "secondaryFiles": [{"class": "File", "path": "/d/" + rs(rng)} for _ in range(rng.randint(0, 2))]}
        return CWLFileToken(value=f if rng.random() < 0.7 else [f, {"class": "Directory", "path": "/d/" + rs(rng), "listing": []}], tag=tag,
                            recoverable=rng.random() < 0.5)
    return rng.choice([TerminationToken(), IterationTerminationToken(tag=tag)])


def gen_shared_tokens(rng):
    """values that are DAGs, not trees: ONE unsaved token instance below two sibling composite tokens that are saved
    concurrently (`_save_value` gathers the saves of the members). Returns (top-level tokens, save them concurrently?)"""
    tag = "0." + str(rng.randint(0, 9))
    c = Token(value=rjson(rng), tag=tag + ".7", recoverable=rng.random() < 0.5)
    shape = rng.choice(["list-of-lists", "object+list", "object+job", "two-roots", "deep"])
    other = lambda: gen_token(rng, 2)      # noqa: E731
    if shape == "list-of-lists":
        return [ListToken(value=[ListToken(value=[c, other()], tag=tag), ListToken(value=[other(), c], tag=tag)], tag=tag)], False
    if shape == "object+list":
        return [ListToken(value=[ObjectToken(value={"a": c, "b": other()}, tag=tag), ListToken(value=[c], tag=tag), c], tag=tag)], False
    if shape == "object+job":
        job = Job(name="/j/" + tag, workflow_id=1, inputs={"x": c, "y": other()}, input_directory=None, output_directory="/o", tmp_directory=None)
        return [ObjectToken(value={"o": ObjectToken(value={"k": c}, tag=tag), "j": JobToken(value=job, tag=tag)}, tag=tag)], False
    if shape == "two-roots":
        return [ListToken(value=[c, other()], tag=tag), ObjectToken(value={"k": c}, tag=tag)], True
    mid = ListToken(value=[c], tag=tag)
    return [ListToken(value=[ListToken(value=[mid, c], tag=tag), ObjectToken(value={"m": mid, "c": c}, tag=tag)], tag=tag)], False


def rewire(rng, wf, ports):
    """attach new ports to steps that are ALREADY persisted, and add a new step: the next `workflow.save` must record them"""
    changed = 0
    for step in rng.sample(list(wf.steps.values()), min(len(wf.steps), rng.randint(1, 3))):
        if isinstance(step, (DeployStep, ScheduleStep)):
            continue
        used = {p.name for p in list(step.get_input_ports().values()) + list(step.get_output_ports().values())}
        for _ in range(rng.randint(1, 2)):
            p = wf.create_port(rng.choice([Port, Port, JobPort]))
            ports.append(p)
            try:
                # (an output port of an execute step also creates an output processor, which lives in the step's params:
                #  params of a persisted step are not written again, so only steps without processors get late outputs)
                if rng.random() < 0.6 or hasattr(step, "output_processors"):
                    step.add_input_port("late-in" + str(len(used)) + rs(rng), p)
                else:
                    step.add_output_port("late-out" + str(len(used)) + rs(rng), p)
                used.add(p.name)
                changed += 1
            except Exception:  # noqa: BLE001  (a step class that refuses more ports)
                pass
        free = [p for p in ports if p.name not in used and p.persistent_id is not None]
        if free and rng.random() < 0.5:
            p = rng.choice(free)           # an already persisted port attached to an already persisted step
            try:
                step.add_input_port("late-old" + rs(rng), p)
                changed += 1
            except Exception:  # noqa: BLE001
                pass
    st = wf.create_step(cls=ExecuteStep, name="/late" + sfutils.random_name()[:6], job_port=wf.create_port(JobPort))
    st.add_input_port("in", rng.choice(ports))
    return changed + 1


def _conns(d):
    return ",".join(sorted(f"{hx(k)}={hx(v)}" for k, v in d.items())) or "-"


def show_wf(w):
    """the structure the record model (`SFV/Model/WorkflowStore.lean`, driver `Drivers/C08.lean`) prints for a workflow"""
    ps = sorted(f"{hx(n)}:{hx(type(p).__name__)}" for n, p in w.ports.items())
    ss = sorted(f"{hx(n)}:{hx(type(st).__name__)}:{st.status.value}:{_conns(st.input_ports)}:{_conns(st.output_ports)}"
                for n, st in w.steps.items())
    return ",".join(ps) + "|" + ";".join(ss)


def _vkey(v):
    return json.dumps(v, sort_keys=True, default=str)


def enc_token(t, table):
    """preorder words of a token value for `tsave` of Drivers/C08.lean; plain values are numbered through `table`"""
    tag = hx(t.tag)
    if isinstance(t, ListToken):
        return ["L", tag, str(len(t.value))] + [w for x in t.value for w in enc_token(x, table)]
    if isinstance(t, ObjectToken):
        return ["O", tag, str(len(t.value))] + [w for k, x in t.value.items() for w in [hx(k)] + enc_token(x, table)]
    if isinstance(t, JobToken):
        return ["J", tag, "0", str(int(t.recoverable)), str(len(t.value.inputs))] + [
            w for k, x in t.value.inputs.items() for w in [hx(k)] + enc_token(x, table)]
    stored = {"status": t.value.value} if isinstance(t, TerminationToken) else t.value      # TerminationToken._save_value
    return ["P", tag, str(table.setdefault(_vkey(stored), len(table))), str(int(t.recoverable))]


async def rows_tree(conn, tid, table):
    """what the `token` / `recoverable` tables hold below a root row, read with plain SQL and json (no StreamFlow loader involved)"""
    async with conn.execute("SELECT type, tag, value FROM token WHERE id = ?", (tid,)) as cur:
        row = await cur.fetchone()
    if row is None:
        return "?"
    async with conn.execute("SELECT 1 FROM recoverable WHERE id = ?", (tid,)) as cur:
        rcv = "1" if await cur.fetchone() is not None else "0"
    cls, tag, value = row[0].rsplit(".", 1)[-1], hx(row[1]), json.loads(row[2])
    if cls == "ListToken":
        return f"L({tag},{rcv},[" + ",".join([await rows_tree(conn, i, table) for i in value]) + "])"
    if cls == "ObjectToken":
        return f"O({tag},{rcv},{{" + ",".join([hx(k) + "=" + await rows_tree(conn, i, table) for k, i in value.items()]) + "})"
    if cls == "JobToken":
        inputs = value["job"]["params"]["inputs"]
        return f"J({tag},{rcv},{{" + ",".join([hx(k) + "=" + await rows_tree(conn, i, table) for k, i in inputs.items()]) + "})"
    return f"P({tag},{rcv},{table.get(_vkey(value), '?')})"


class ModelTrace:
    """replays on the record model what is done to the real workflow: only what is new since the last call is sent"""

    def __init__(self, wf):
        self.lines, self.expect = [f"wnew {hx(wf.name)}"], ["ok"]
        self.ports, self.steps, self.conns = set(), set(), set()

    def delta(self, wf):
        for n, p in wf.ports.items():
            if n not in self.ports:
                self.ports.add(n)
                self.lines.append(f"wport {hx(n)} {hx(type(p).__name__)}")
                self.expect.append("ok")
        for n, st in wf.steps.items():
            if n not in self.steps:
                self.steps.add(n)
                self.lines.append(f"wstep {hx(n)} {hx(type(st).__name__)} {st.status.value}")
                self.expect.append("ok")
            for cmd, d in (("win", st.input_ports), ("wout", st.output_ports)):
                for dep, port in d.items():
                    if (n, cmd, dep, port) not in self.conns:
                        self.conns.add((n, cmd, dep, port))
                        self.lines.append(f"{cmd} {hx(n)} {hx(dep)} {hx(port)}")
                        self.expect.append("ok")

    def save(self, wf, first):
        self.delta(wf)
        # the hypotheses of `load_save_workflow`, evaluated independently here
        wf_ok = all(p in wf.ports for st in wf.steps.values() for p in [*st.input_ports.values(), *st.output_ports.values()]) and all(
            len(set([*st.input_ports.values(), *st.output_ports.values()])) == len(st.input_ports) + len(st.output_ports)
            for st in wf.steps.values())
        self.lines.append("wsave")
        self.expect.append(f"ok=1 fresh={int(first)} wf={int(wf_ok)}")

    def loaded(self, w, copy):
        self.lines += ["wload", "wcopy"]
        self.expect += [show_wf(w), "noids|" + show_wf(copy)]


async def one_case(seed, context):
    try:
        return await _one_case(seed, context)
    except Exception as e:  # noqa: BLE001  (a load or save that raises is a result, not a harness error)
        import traceback
        tb = traceback.extract_tb(e.__traceback__)
        where = next((f"{f.filename.split('/streamflow/')[-1]}:{f.lineno} {f.name}" for f in reversed(tb) if "/streamflow/" in f.filename), "?")
        return {"seed": seed, "steps": [], "diffs": [("save/load", "raises", f"{type(e).__name__}: {e} at {where}")]}


async def _one_case(seed, context):
    rng = random.Random(seed)
    wf, ports = build_workflow(rng, context)
    db = context.database
    trace = ModelTrace(wf)
    trace.save(wf, True)
    await wf.save(db)
    # multi-save history: the saved workflow is rewired and saved again (once or twice) before it is loaded
    resaves = 0
    for _ in range(rng.choice([0, 1, 1, 2])):
        rewire(rng, wf, ports)
        trace.save(wf, False)
        await wf.save(db)
        resaves += 1
    tokens = [gen_token(rng) for _ in range(rng.randint(1, 4))]
    for t in tokens:
        await t.save(db, port_id=rng.choice(ports).persistent_id)
    # values with a shared child, saved concurrently
    shared, together = gen_shared_tokens(rng)
    port_id = rng.choice(ports).persistent_id
    if together:
        await asyncio.gather(*(asyncio.create_task(t.save(db, port_id=port_id)) for t in shared))
    else:
        for t in shared:
            await t.save(db, port_id=port_id)
    tokens += shared
    original = dump(wf)
    tok_orig = [dump(t) for t in tokens]
    res = {"seed": seed, "steps": sorted(type(s).__name__ for s in wf.steps.values()), "diffs": [], "resaves": resaves}
    for t in tokens:
        if t.persistent_id is None:
            res["diffs"].append(("save", "token", f"save() returned but the {type(t).__name__} has no persistent id"))
            return res

    async def load():
        lc = DefaultDatabaseLoadingContext(db)
        w = await lc.load_workflow(wf.persistent_id)
        ts = [await lc.load_token(t.persistent_id) for t in tokens]
        return w, ts

    w1, t1 = await load()
    w2, t2 = await load()
    # known finding: `Workflow.input_ports` is neither saved nor loaded. Reported once per case, then left out of the comparison
    # (only in exactly that shape: non-empty before, empty after) so that every other difference stays visible.
    lost_inputs = bool(original.get("input_ports")) and dump(w1).get("input_ports") == {}
    strip = {"on": False, "orig": None}

    def D(o):
        d = dump(o)
        if strip["on"] and d.get("input_ports") in ({}, strip["orig"]):
            d = {k: v for k, v in d.items() if k != "input_ports"}
        return d

    if lost_inputs:
        res["diffs"].append(("load#1", "workflow-input-ports", f"Workflow.input_ports was {original['input_ports']} when saved and is {{}} after load"))
        strip["on"], strip["orig"] = True, original["input_ports"]
        original = D(wf)
    INT_FLAGS.clear()
    D(w1)
    if INT_FLAGS:
        res["diffs"].append(("load#1", "deployment-flags", f"DeploymentConfig {INT_FLAGS[0]} was saved as a bool and is loaded as an int (0/1)"))
    for label, w in (("load#1", w1), ("load#2", w2)):
        fp = foreign_ports(w)
        if fp:
            res["diffs"].append((label, "port-identity", fp[0]))
    for label, w, ts in (("load#1", w1, t1), ("load#2", w2, t2)):
        if D(w) != original:
            res["diffs"].append((label, "workflow", first_diff(original, D(w))))
        for a, b in zip(tok_orig, [dump(t) for t in ts]):
            if a != b:
                res["diffs"].append((label, "token", first_diff(a, b)))
        if w.persistent_id != wf.persistent_id or any(s.persistent_id != wf.steps[n].persistent_id for n, s in w.steps.items()):
            res["diffs"].append((label, "persistent_id", "loaded entity has another persistent id"))
    # two loads are independent: write into everything reachable from load #1
    nmut = mutate(w1) + sum(mutate(t) for t in t1)
    res["mutations"] = nmut
    if D(w2) != original:
        res["diffs"].append(("load#2 after mutating load#1", "workflow", first_diff(original, D(w2))))
    for a, b in zip(tok_orig, [dump(t) for t in t2]):
        if a != b:
            res["diffs"].append(("load#2 after mutating load#1", "token", first_diff(a, b)))
    w3, t3 = await load()
    if D(w3) != original:
        res["diffs"].append(("fresh load after mutating load#1 (stored record changed)", "workflow", first_diff(original, D(w3))))
    for a, b in zip(tok_orig, [dump(t) for t in t3]):
        if a != b:
            res["diffs"].append(("fresh load after mutating load#1 (stored record changed)", "token", first_diff(a, b)))
    # a deep copy through the workflow builder: same structure, no persistent identity
    wb = WorkflowBuilder(db, deep_copy=True)
    w4 = await wb.load_workflow(wf.persistent_id)
    d4 = D(w4)
    def initial(d):
        # the builder restores the initial state of every step it copies (`step.status = Status.WAITING`)
        d = json.loads(json.dumps(d))
        for st in d.get("steps", {}).values():
            if isinstance(st, dict) and "status" in st:
                st["status"] = 0
        return d

    want = initial(original)
    want["name"] = d4.get("name")              # the copy gets a fresh name
    if strip_wf(d4, w4.name) != strip_wf(want, w4.name) and strip_wf(d4, w4.name) != strip_wf(initial(original), wf.name):
        res["diffs"].append(("WorkflowBuilder(deep_copy=True)", "workflow", first_diff(strip_wf(initial(original), wf.name), strip_wf(d4, w4.name))))
    if w4.persistent_id is not None or any(s.persistent_id is not None for s in w4.steps.values()) or any(
            p.persistent_id is not None for p in w4.ports.values()):
        res["diffs"].append(("WorkflowBuilder(deep_copy=True)", "persistent_id", "a copied entity kept a persistent id"))
    trace.loaded(w3, w4)
    # the stored rows of every token value against the Lean model of `Token.save`
    table = {}
    async with db.connection as conn:
        for t in tokens:
            trace.lines.append("tsave " + " ".join(enc_token(t, table)))
            trace.expect.append(await rows_tree(conn, t.persistent_id, table))
    res["model"] = (trace.lines, trace.expect)
    return res


def strip_wf(d, name):
    """replace the workflow's own name (it appears in back references) by a placeholder"""
    return json.loads(json.dumps(d).replace(json.dumps(name)[1:-1], "<WF>"))


def first_diff(a, b, path="$"):
    if type(a) is not type(b):
        return f"{path}: {a!r} vs {b!r}"[:300]
    if isinstance(a, dict):
        for k in sorted(set(a) | set(b)):
            if k not in a or k not in b:
                return f"{path}.{k}: present on one side only ({a.get(k)!r} vs {b.get(k)!r})"[:300]
            d = first_diff(a[k], b[k], f"{path}.{k}")
            if d:
                return d
        return None
    if isinstance(a, list):
        if len(a) != len(b):
            return f"{path}: lengths {len(a)} vs {len(b)}: {a!r} vs {b!r}"[:300]
        for i, (x, y) in enumerate(zip(a, b)):
            d = first_diff(x, y, f"{path}[{i}]")
            if d:
                return d
        return None
    return None if a == b else f"{path}: {a!r} vs {b!r}"[:300]


class C08(Property):
    pid = "C08"
    title = "Saving then loading a workflow reproduces it exactly"
    lean_targets = ["SFV.Props.C08", "SFV.Model.Proto"]
    drivers = [DRIVER]
    props_files = ["SFV/Props/C08.lean"]
    drivers = []
    translators = [persist.generate]
    rule = ("random workflow graphs (default and CWL workflows; ports, job/connector ports, deploy, schedule with random binding "
            "configs/targets/filters, execute, gather, scatter, combinator steps with nested dot/cartesian/loop/loop-termination/"
            "list-merge combinators, and for CWL the transformers, conditional, transfer, injector, loop-output steps with token "
            "processors; random wiring; names/values with unicode, spaces, quotes, JSON scalars) plus 1..4 random nested token values "
            "(Token, ListToken, ObjectToken, JobToken with a Job and its input tokens, CWLFileToken, termination tokens) and one DAG-shaped "
            "value per case (ONE unsaved token below two sibling composites — lists of lists, object+list, object+Job.inputs, two "
            "roots saved with asyncio.gather — so that concurrent saves of the same instance happen); the workflow is saved, then 0..2 "
            "times rewired (new and already persisted ports attached to already persisted steps, a new step) and saved again; all "
            "saved into a real in-memory SqliteDatabase; loaded twice through "
            "fresh DefaultDatabaseLoadingContexts and compared by a canonical structural dump with the original; every mutable "
            "container and string attribute reachable from load #1 is then overwritten and load #2 and a fresh load are dumped "
            "again; WorkflowBuilder(deep_copy=True) must give the same structure without persistent ids. "
            "Non-trivial = distinct workflow with at least 3 steps.")
    trusted_base = [
        "translator harness/sfv/translate/persist.py (ast patterns of _save_additional_params / _load -> SFV/Gen/Persist.lean)",
        "modelled, not verified: json round trip of JSON values, SQLite ids; the structural round trip of whole workflows and the "
        "independence of two loads are checked on the real classes (sampling), not proved — the Lean part proves the key-table "
        "closedness and the token-value round trip",
    ]
    technique = ("ast translator of all save/load key tables + `decide +kernel`; Lean proof of the token value round trip for the "
                 "recursive value type; structural differential check on random workflow graphs against a real database")
    level_text = ("grade B: generated table of the 60 `_save_additional_params`/`_load` pairs proved closed (every key read is saved, "
                  "through inheritance); token values (plain/list/object, any depth, tags, recoverable flags) proved to round-trip, and "
                  "earlier loads proved stable under later saves; whole-workflow `load (save w) = w` and the id-free builder copy proved on a "
                  "record model of the four tables (ports, steps, params with port references, dependency rows) compared with the "
                  "real save/load on every generated case; dependency rows proved complete over save / rewire / save histories "
                  "(shape of `Step.save` read from the source); whole-workflow round trip (incl. re-saves after rewiring and "
                  "concurrently saved values with a shared child), independence of two loads and the "
                  "deep-copy builder checked on random workflow graphs with the real classes")
    level_note = ("Lean kernel, axioms within {propext, Classical.choice, Quot.sound}; the whole-workflow theorem treats parameter "
                  "values other than port references as opaque (their keys are the table obligation); independence of two loads is "
                  "sampled, not proved")
    assumptions = ["entities are built through their constructors with JSON-compatible parameter values"]
    quick_budget_s = 480          # real time (threads, database): generous under machine load
    min_nontrivial = 15

    def explore(self, ctx: Ctx) -> None:
        self._flag_reported = False
        self._inputs_reported = False
        n = 40 if ctx.tier == "quick" else 500
        if ctx.mode == "search":
            n *= 2
        context = make_context(ctx.scratch)

        async def run_all():
            out = []
            for i in range(n):
                if ctx.out_of_time():
                    break
                out.append(await one_case(ctx.seed * 100003 + i, context))
            await context.close()
            return out

        gc.disable()
        try:
            results = run_controlled(run_all, seed=ctx.seed, timeout=max(60, ctx.time_left() + 60), shuffle=False)
        finally:
            gc.enable()
        if len(results) < min(n, 15):
            ctx.extra["incomplete"] = True
        lines, expect, owner = [], [], []
        for r in results:
            if "model" in r:
                lines += r["model"][0]
                expect += r["model"][1]
                owner += [r["seed"]] * len(r["model"][0])
        got = ctx.lean(DRIVER, lines)
        bad = set()
        for ln, gl, e, sd in zip(lines, got, expect, owner):
            if ln == "wsave":
                ctx.count("hypotheses:" + e)
            if ln.startswith("tsave"):
                ctx.count("token-rows:" + e[0])
            if gl != e and sd not in bad:
                bad.add(sd)
                ctx.disagree("record model vs Workflow.save/load", f"workflow seed {sd}, `{ln}`: code {e[:300]!r}, Lean model {gl[:300]!r}", {"seed": sd})
        for r in results:
            ctx.case({"seed": r["seed"], "steps": r["steps"], "mutations": r.get("mutations")},
                     ("wf", r["seed"]) if len(r["steps"]) >= 3 else None, "workflow")
            for s in r["steps"]:
                ctx.count("step:" + s)
            ctx.count(f"resaves:{r.get('resaves', 0)}")
            for label, what, d in r["diffs"]:
                if what == "deployment-flags":
                    if not self._flag_reported:
                        self._flag_reported = True
                        ctx.fail("persist:deployment-flags:bool-loaded-as-int", f"{label}: {d}", {"seed": r["seed"]})
                    continue
                if what == "workflow-input-ports":
                    ctx.count("workflow-input-ports-lost")
                    if not self._inputs_reported:
                        self._inputs_reported = True
                        ctx.fail("persist:workflow-input-ports:not-saved", f"{label}: {d}", {"seed": r["seed"]})
                    continue
                key = ("persist:" + what + ":" + ("exception" if what == "raises" else
                                                  "not-reproduced" if label.startswith("load#") and "after" not in label else
                                                  "loads-not-independent" if "after" in label else "builder-copy-differs"))
                ctx.fail(key, f"{label}: {d}", {"seed": r["seed"]})

    def replay(self, ctx: Ctx, data) -> None:
        r = data.get("replay") or {}
        if "seed" not in r:
            return super().replay(ctx, data)
        context = make_context(ctx.scratch)

        async def go():
            res = await one_case(r["seed"], context)
            await context.close()
            return res

        res = run_controlled(go, seed=0, timeout=120, shuffle=False)
        print(json.dumps({k: v for k, v in res.items()}, indent=1, default=str)[:3000])
        for label, what, d in res["diffs"]:
            ctx.fail("persist:" + what, f"{label}: {d}", r)


PROPERTY = C08()
