import SFV.Lemmas.DbCache
import SFV.Model.DbCacheConc
/-! C09 under overlapping calls: with the lock, suspended reads stay valid. -/
namespace SFV.DbCache

structure CInv (spec : Spec) (s : CSt) : Prop where
  inv : Inv spec s.base
  pend : ∀ x ∈ s.pending, x.1 ∈ spec.getters ∧ s.base.db x.1.table x.2.1 = some x.2.2

theorem db_of_step {spec : Spec} {s s' : St} {op : Op} {r : Option Row} (h : step spec s op = some (s', r))
    (hop : ∀ u id row, op ≠ .update u id row) (hadd : ∀ ins row, op ≠ .add ins row) : s'.db = s.db := by
  cases op with
  | add ins row => exact absurd rfl (hadd ins row)
  | update u id row => exact absurd rfl (hop u id row)
  | get g id =>
    simp only [step] at h
    split at h
    · split at h
      · simp at h; rw [← h.1]
      · split at h
        · simp at h; rw [← h.1]
        · simp at h; rw [← h.1]
    · cases h
  | mutTop j i v =>
    simp only [step] at h
    split at h
    · simp at h; rw [← h.1]
    · cases h
  | mutNested j i k v =>
    simp only [step] at h
    split at h
    · split at h
      · simp at h; rw [← h.1]
      · cases h
    · cases h

theorem cinv_step {spec : Spec} (hS : SoundP spec) {s s' : CSt} {op : COp} {res : Option Row}
    (hI : CInv spec s) (hs : cstep spec true s op = some (s', res)) : CInv spec s' := by
  obtain ⟨hinv, hp⟩ := hI
  cases op with
  | seq op =>
    cases op with
    | update u id row =>
      simp only [cstep] at hs
      split at hs
      · cases hs
      · rename_i hfree
        simp only [Option.map_eq_some_iff] at hs
        obtain ⟨⟨b, r⟩, hb, hs⟩ := hs
        simp only [Prod.mk.injEq] at hs
        obtain ⟨rfl, _⟩ := hs
        refine ⟨inv_step hS hinv hb, ?_⟩
        intro x hx
        refine ⟨(hp x hx).1, ?_⟩
        have hnot : u.table ≠ x.1.table := by
          intro e
          apply hfree
          simp only [Bool.true_and, List.any_eq_true]
          exact ⟨x, hx, by simp [List.contains_iff_mem, e, (hS.self x.1 (hp x hx).1).1]⟩
        simp only [step] at hb
        split at hb
        · simp only [Option.some.injEq, Prod.mk.injEq] at hb
          rw [← hb.1]
          simp only
          split
          · simp only [upd2]
            rw [if_neg (fun h => hnot h.1.symm)]
            exact (hp x hx).2
          · exact (hp x hx).2
        · cases hb
    | add ins row =>
      simp only [cstep, Option.map_eq_some_iff] at hs
      obtain ⟨⟨b, r⟩, hb, hs⟩ := hs
      simp only [Prod.mk.injEq] at hs
      obtain ⟨rfl, _⟩ := hs
      refine ⟨inv_step hS hinv hb, ?_⟩
      intro x hx
      refine ⟨(hp x hx).1, ?_⟩
      simp only [step] at hb
      split at hb
      · simp only [Option.some.injEq, Prod.mk.injEq] at hb
        rw [← hb.1]
        simp only [upd2]
        split
        · rename_i h
          have := (hp x hx).2
          rw [h.1, h.2, hinv.ids _ _ (Nat.le_refl _)] at this; cases this
        · exact (hp x hx).2
      · cases hb
    | get g id =>
      simp only [cstep, Option.map_eq_some_iff] at hs
      obtain ⟨⟨b, r⟩, hb, hs⟩ := hs
      simp only [Prod.mk.injEq] at hs
      obtain ⟨rfl, _⟩ := hs
      refine ⟨inv_step hS hinv hb, ?_⟩
      intro x hx
      rw [db_of_step hb (by intros; simp) (by intros; simp)]
      exact hp x hx
    | mutTop j i v =>
      simp only [cstep, Option.map_eq_some_iff] at hs
      obtain ⟨⟨b, r⟩, hb, hs⟩ := hs
      simp only [Prod.mk.injEq] at hs
      obtain ⟨rfl, _⟩ := hs
      refine ⟨inv_step hS hinv hb, ?_⟩
      intro x hx
      rw [db_of_step hb (by intros; simp) (by intros; simp)]
      exact hp x hx
    | mutNested j i k v =>
      simp only [cstep, Option.map_eq_some_iff] at hs
      obtain ⟨⟨b, r⟩, hb, hs⟩ := hs
      simp only [Prod.mk.injEq] at hs
      obtain ⟨rfl, _⟩ := hs
      refine ⟨inv_step hS hinv hb, ?_⟩
      intro x hx
      rw [db_of_step hb (by intros; simp) (by intros; simp)]
      exact hp x hx
  | getStart g id =>
    simp only [cstep] at hs
    split at hs
    · rename_i hg
      split at hs
      · rename_i hc hd
        simp only [Option.some.injEq, Prod.mk.injEq] at hs
        obtain ⟨rfl, _⟩ := hs
        refine ⟨hinv, ?_⟩
        intro x hx
        rcases List.mem_append.mp hx with h | h
        · exact hp x h
        · simp at h; subst h; exact ⟨hg, hd⟩
      · cases hs
    · cases hs
  | getFinish k =>
    simp only [cstep] at hs
    split at hs
    · rename_i g id p hk
      simp only [Option.some.injEq, Prod.mk.injEq] at hs
      obtain ⟨rfl, _⟩ := hs
      have hx := hp (g, id, p) (List.mem_of_getElem? hk)
      have hg : g ∈ spec.getters := hx.1
      have hpdb : s.base.db g.table id = some p := hx.2
      have hdeep : g.copy = .deep := (hS.self g hg).2
      obtain ⟨hcoh, hids, hcl, hol, hdj⟩ := hinv
      have hlt1 := fresh_lt s.base.next p
      have had1 := fresh_addrs s.base.next p
      have hlt2 := fresh_lt (fresh s.base.next p).2 p
      have had2 := fresh_addrs (fresh s.base.next p).2 p
      refine ⟨?_, ?_⟩
      · simp only [hdeep, copyRow, fresh_erase]
        refine ⟨?_, hids, ?_, ?_, ?_⟩ <;> (try dsimp only)
        · intro c i r hc g' hg' hgc
          simp only [upd2] at hc
          split at hc
          · rename_i h
            simp only [Option.some.injEq] at hc
            subst hc
            have ht : g'.table = g.table := hS.share g' hg' g hg (hgc.trans h.1)
            rw [ht, h.2, fresh_erase]; exact hpdb
          · exact hcoh c i r hc g' hg' hgc
        · intro c i r hc a ha
          simp only [upd2] at hc
          split at hc
          · simp only [Option.some.injEq] at hc; subst hc
            have := (had1 a ha).2; omega
          · have := hcl c i r hc a ha; omega
        · intro r hr a ha
          rcases List.mem_append.mp hr with h | h
          · have := hol r h a ha; omega
          · simp at h; subst h; exact (had2 a ha).2
        · intro c i r hc ro hro a ha
          simp only [upd2] at hc
          rcases List.mem_append.mp hro with h | h
          · split at hc
            · simp only [Option.some.injEq] at hc; subst hc
              intro hmem
              have := hol ro h a hmem
              have := (had1 a ha).1
              omega
            · exact hdj c i r hc ro h a ha
          · simp at h; subst h
            intro hmem
            have h2 := (had2 a hmem).1
            split at hc
            · simp only [Option.some.injEq] at hc; subst hc
              have := (had1 a ha).2; omega
            · have := hcl c i r hc a ha; omega
      · intro x hx'
        exact hp x (List.mem_of_mem_eraseIdx hx')
    · cases hs

theorem cinv_init (spec : Spec) : CInv spec CSt.init :=
  ⟨inv_init spec, by simp [CSt.init]⟩

theorem cinv_reachable {spec : Spec} (hS : SoundP spec) {s : CSt} (h : CReachable spec true s) : CInv spec s := by
  induction h with
  | init => exact cinv_init spec
  | step _ hs ih => exact cinv_step hS ih hs

end SFV.DbCache
