import SFV.Lemmas.DeployG
/-! No lazily deployed connector is leaked (repaired `FutureConnector.undeploy`): invariant `InvL`. -/
namespace SFV.Deploy

attribute [local grind] Obj.active Obj.live Obj.absent Fut.absent

macro "sgl" : tactic => `(tactic| first | (simp; done) | (simp; grind) | grind)

/-- some undeploy request is waiting for the deploy of future `f` to finish and will then undeploy its connector -/
def WaitedFor (s : St) (f : Nat) : Prop := ∃ p e, s.pc p = .uFWait f e ∨ s.pc p = .uFWoken f e

def InvL (s : St) : Prop :=
  -- a failed lazy deploy: event set, no connector, the object is `failed`
  (∀ f o, (s.futs f).evSet = true → (s.futs f).conn = none → (s.objs o).fut = some f → (s.objs o).dep = .failed) ∧
  (∀ p f o, s.pc p = .fConn f o → (s.futs f).conn = none ∧ (s.futs f).evSet = false ∧ (s.objs o).dep = .deploying) ∧
  (∀ p f e, s.pc p = .uFWoken f e → (s.futs f).evSet = true) ∧
  (∀ f, (s.futs f).conn ≠ none → (s.futs f).evSet = true) ∧
  (∀ f, (s.futs f).evSet = true → (s.futs f).deploying = true) ∧
  (∀ p q f o o', s.pc p = .fConn f o → s.pc q = .fConn f o' → p = q) ∧
  -- every active connector created by a FutureConnector is still reachable by an undeploy
  (∀ o f, (s.objs o).fut = some f → (s.objs o).active = true → s.depmap = some (.future f) ∨ WaitedFor s f)

theorem waitedFor_setPc {s : St} {p c f} (h : WaitedFor s f) (hp : ∀ e, s.pc p ≠ .uFWait f e ∧ s.pc p ≠ .uFWoken f e) :
    WaitedFor (setPc s p c) f := by
  obtain ⟨q, e, hq⟩ := h
  refine ⟨q, e, ?_⟩
  have : q ≠ p := by rintro rfl; have := hp e; grind
  simpa [this] using hq

theorem invL_init (lazy kinds) : InvL (init lazy kinds) := by
  refine ⟨?_, ?_, ?_, ?_, ?_, ?_, ?_⟩
  all_goals try (simp [init, Obj.absent, Fut.absent]; done)
  all_goals (intro p; intros; rcases init_pc lazy kinds p with ⟨k, hk⟩ | hk <;> simp_all)


theorem invL_setPc {s : St} {p c} (h : InvL s) (hc : ∀ f o, c ≠ Pc.fConn f o := by intros; simp)
    (hc2 : ∀ f e, c ≠ Pc.uFWoken f e := by intros; simp)
    (hp : ∀ f e, s.pc p ≠ .uFWait f e ∧ s.pc p ≠ .uFWoken f e) : InvL (setPc s p c) := by
  obtain ⟨l0, l1, l2, l3, l5, l6, l4⟩ := h
  refine ⟨?_, ?_, ?_, ?_, ?_, ?_, ?_⟩
  · (try clear l4); (try clear h'); (try clear hE'); (try clear hF'); sgl
  · (try clear l4); (try clear h'); (try clear hE'); (try clear hF'); sgl
  · (try clear l4); (try clear h'); (try clear hE'); (try clear hF'); sgl
  · (try clear l4); (try clear h'); (try clear hE'); (try clear hF'); sgl
  · (try clear l4); (try clear h'); (try clear hE'); (try clear hF'); sgl
  · (try clear l4); (try clear h'); (try clear hE'); (try clear hF'); sgl
  · intro o f hf ha
    rcases l4 o f hf ha with h | h
    · exact Or.inl h
    · exact Or.inr (waitedFor_setPc h (hp f))

theorem invL_setEvent {s : St} {e} (h : InvL s) : InvL (setEvent s e) := by
  obtain ⟨l0, l1, l2, l3, l5, l6, l4⟩ := h
  refine ⟨?_, ?_, ?_, ?_, ?_, ?_, ?_⟩
  · (try clear l4); (try clear h'); (try clear hE'); (try clear hF'); sgl
  · (try clear l4); (try clear h'); (try clear hE'); (try clear hF'); sgl
  · (try clear l4); (try clear h'); (try clear hE'); (try clear hF'); sgl
  · (try clear l4); (try clear h'); (try clear hE'); (try clear hF'); sgl
  · (try clear l4); (try clear h'); (try clear hE'); (try clear hF'); sgl
  · (try clear l4); (try clear h'); (try clear hE'); (try clear hF'); sgl
  · intro o f hf ha
    rcases l4 o f hf ha with h | ⟨q, e', hq⟩
    · exact Or.inl h
    · refine Or.inr ⟨q, e', ?_⟩
      rcases hq with hq | hq <;> simp [hq]

theorem invL_finishDeploy {s : St} {p} (h : InvL s) (hp : ∀ f e, s.pc p ≠ .uFWait f e ∧ s.pc p ≠ .uFWoken f e) :
    InvL (finishDeploy s p) := by
  unfold finishDeploy
  split
  · refine invL_setPc ?_ (hp := hp)
    obtain ⟨l0, l1, l2, l3, l5, l6, l4⟩ := h
    exact ⟨l0, l1, l2, l3, l5, l6, l4⟩
  · exact invL_setPc h (hp := hp)

theorem invL_register {s : St} {p} (hF : InvF s) (h : InvL s) (hc : s.depmap = none)
    (hp : ∀ f e, s.pc p ≠ .uFWait f e ∧ s.pc p ≠ .uFWoken f e) : InvL (register s p) := by
  obtain ⟨f0, f1, f2, g1, g2, g3, g4, g5⟩ := hF
  unfold register
  split
  · refine invL_finishDeploy (invL_setEvent ?_) (by simp; grind)
    obtain ⟨l0, l1, l2, l3, l5, l6, l4⟩ := h
    have hfresh := f2 s.nFut (Nat.le_refl _)
    refine ⟨?_, ?_, ?_, ?_, ?_, ?_, ?_⟩
    · (try clear l4); (try clear h'); (try clear hE'); (try clear hF'); sgl
    · (try clear l4); (try clear h'); (try clear hE'); (try clear hF'); sgl
    · (try clear l4); (try clear h'); (try clear hE'); (try clear hF'); sgl
    · (try clear l4); (try clear h'); (try clear hE'); (try clear hF'); sgl
    · (try clear l4); (try clear h'); (try clear hE'); (try clear hF'); sgl
    · (try clear l4); (try clear h'); (try clear hE'); (try clear hF'); sgl
    · intro o f hf ha
      simp at hf ha
      rcases l4 o f hf ha with h | h
      · simp [hc] at h
      · exact Or.inr (by obtain ⟨q, e, hq⟩ := h; exact ⟨q, e, by simpa using hq⟩)
  · refine invL_setPc ?_ (hp := by simpa using hp)
    obtain ⟨l0, l1, l2, l3, l5, l6, l4⟩ := h
    refine ⟨?_, ?_, ?_, ?_, ?_, ?_, ?_⟩
    · (try clear l4); (try clear h'); (try clear hE'); (try clear hF'); sgl
    · (try clear l4); (try clear h'); (try clear hE'); (try clear hF'); sgl
    · (try clear l4); (try clear h'); (try clear hE'); (try clear hF'); sgl
    · (try clear l4); (try clear h'); (try clear hE'); (try clear hF'); sgl
    · (try clear l4); (try clear h'); (try clear hE'); (try clear hF'); sgl
    · (try clear l4); (try clear h'); (try clear hE'); (try clear hF'); sgl
    · intro o f hf ha
      simp at hf ha
      split at hf
      · simp at hf
      · rename_i hne
        simp [hne] at ha
        rcases l4 o f hf ha with h | h
        · simp [hc] at h
        · exact Or.inr (by obtain ⟨q, e, hq⟩ := h; exact ⟨q, e, by simpa using hq⟩)

theorem invL_afterWait {s : St} {p} (hE : InvE s) (hF : InvF s) (h : InvL s)
    (hp : ∀ f e, s.pc p ≠ .uFWait f e ∧ s.pc p ≠ .uFWoken f e) : InvL (afterWait s p) := by
  unfold afterWait
  split
  · exact invL_setPc h (hp := hp)
  · rename_i d hd
    split
    · exact invL_finishDeploy h hp
    · rename_i hc
      have := hE.2.2.2.2.2.1 d hd
      simp_all

theorem invL_loopHead {s : St} {p} (hE : InvE s) (hF : InvF s) (h : InvL s)
    (hp : ∀ f e, s.pc p ≠ .uFWait f e ∧ s.pc p ≠ .uFWoken f e) : InvL (loopHead s p) := by
  unfold loopHead
  split
  · rename_i hc
    refine invL_register hF h ?_ hp
    cases hd : s.depmap with
    | none => rfl
    | some d => have := hE.2.2.2.2.2.1 d hd; simp_all
  · split
    · exact invL_setPc h (hp := hp)
    · split
      · exact invL_afterWait hE hF h hp
      · exact invL_setPc h (hp := hp)

theorem invL_callUndeploy {s : St} {p o e f} (hF : InvF s) (h : InvL s) (hf : (s.objs o).fut = some f)
    (hp : ∀ f e, s.pc p ≠ .uFWait f e ∧ s.pc p ≠ .uFWoken f e) : InvL (callUndeploy s p o e) := by
  obtain ⟨f0, f1, f2, g1, g2, g3, g4, g5⟩ := hF
  unfold callUndeploy
  refine invL_setPc ?_ (hp := by simpa using hp)
  obtain ⟨l0, l1, l2, l3, l5, l6, l4⟩ := h
  refine ⟨?_, ?_, ?_, ?_, ?_, ?_, ?_⟩
  · (try clear l4); (try clear h'); (try clear hE'); (try clear hF'); sgl
  · (try clear l4); (try clear h'); (try clear hE'); (try clear hF'); sgl
  · (try clear l4); (try clear h'); (try clear hE'); (try clear hF'); sgl
  · (try clear l4); (try clear h'); (try clear hE'); (try clear hF'); sgl
  · (try clear l4); (try clear h'); (try clear hE'); (try clear hF'); sgl
  · (try clear l4); (try clear h'); (try clear hE'); (try clear hF'); sgl
  · intro o' f' hf' ha
    simp at hf' ha
    split at hf'
    · simp [Obj.active] at ha
      rename_i heq; simp [heq] at ha
    · rename_i hne
      simp [hne] at ha
      rcases l4 o' f' hf' ha with h | h
      · exact Or.inl (by simpa using h)
      · exact Or.inr (by obtain ⟨q, e, hq⟩ := h; exact ⟨q, e, by simpa using hq⟩)

theorem waitedFor_congr {s t : St} {f} (h : WaitedFor s f) (hpc : ∀ q, t.pc q = s.pc q) : WaitedFor t f := by
  obtain ⟨q, e, hq⟩ := h; exact ⟨q, e, by rw [hpc q]; exact hq⟩

theorem setEvent_pc_ne {s : St} {p e} (hp : ∀ f e, s.pc p ≠ .uFWait f e ∧ s.pc p ≠ .uFWoken f e) :
    ∀ f e', (setEvent s e).pc p ≠ .uFWait f e' ∧ (setEvent s e).pc p ≠ .uFWoken f e' := by
  intro f e'
  have := hp f e'
  simp only [setEvent_pc]
  split <;> (try split) <;> simp_all


end SFV.Deploy
