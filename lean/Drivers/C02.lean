import SFV.Model.Comb
import SFV.Model.Proto
open SFV SFV.Comb SFV.Proto

/-- `<port>:<tag>:<val>` -/
def parseEv (w : String) : Option Ev :=
  match w.splitOn ":" with
  | [p, t, v] => do
      let p ← p.toNat?
      let t ← parseTag t
      let v ← v.toNat?
      pure (p, ⟨t, v⟩)
  | _ => none

def renderEmit (e : Emit) : String :=
  ",".intercalate (e.map (fun x => s!"{x.1}:{renderTag x.2.tag}:{x.2.val}"))

def renderErr : Option Err → String
  | none => ""
  | some .indexError => "!IndexError"
  | some .keyError => "!KeyError"

def renderOut (out : List Emit) (err : Option Err) : String :=
  let body := ";".intercalate (out.map renderEmit)
  (if body.isEmpty && err.isNone then "-" else body) ++ renderErr err

/-- item spec of the nested form: `2` (a port), `d:0,1` (inner dot over ports 0,1), `c1:0,1` (inner cart depth 1) -/
def parseItem (w : String) : Option Item :=
  match w.splitOn ":" with
  | [p] => (p.toNat?).map Item.port
  | [k, ps] => do
      let ports ← (ps.splitOn ",").mapM (fun x => x.toNat?)
      if k = "d" then pure (Item.sub .dot ports)
      else if k.startsWith "c" then do
        let d ← (k.drop 1).toNat?
        if d = 0 then none else pure (Item.sub (.cart d) ports)
      else none
  | _ => none

/-- the run a line describes: emissions, exception, the ports of the combinator -/
def runLine : List String → Option (List Emit × Option Err × List Nat)
  | "dot" :: p :: evs =>
      match p.toNat?, evs.mapM parseEv with
      | some P, some es => let r := runDot P es; some (r.out, r.err, List.range P)
      | _, _ => none
  | "cart" :: d :: p :: evs =>
      match d.toNat?, p.toNat?, evs.mapM parseEv with
      | some (d + 1), some P, some es => let r := runCart (d + 1) P es; some (r.out, r.err, List.range P)
      | _, _, _ => none
  | "nest" :: spec :: evs =>
      match (spec.splitOn "/").mapM parseItem, evs.mapM parseEv with
      | some items, some es =>
          let r := runNested items es
          let ports := items.flatMap (fun it => match it with | .port p => [p] | .sub _ ps => ps)
          some (r.out, r.err, ports)
      | _, _ => none
  | _ => none

def renderLog (ts : List Tok) : String :=
  if ts.isEmpty then "-" else ",".intercalate (ts.map (fun t => s!"{renderTag t.tag}:{t.val}"))

def handle : List String → String
  | "step" :: rest =>
      -- `CombinatorStep.run`: the log of every output port (in the order of the ports) and the final status
      match runLine rest with
      | some (out, err, ports) =>
          "|".intercalate (ports.map (fun p => s!"{p}={renderLog (portLog p out)}")) ++ "|" ++
            (match stepStatus ports out with | .completed => "COMPLETED" | .skipped => "SKIPPED") ++ renderErr err
      | none => "bad-op"
  | ws =>
      match runLine ws with
      | some (out, err, _) => renderOut out err
      | none => "bad-op"

def main : IO Unit := runPure handle
