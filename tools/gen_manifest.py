#!/venv/bin/python
"""Regenerate MANIFEST.json from the property modules under harness/sfv/props."""
import importlib
import json
import os
import sys

ROOT = os.path.dirname(os.path.dirname(os.path.abspath(__file__)))
sys.path[:0] = [os.path.join(ROOT, "harness"), "/repo"]

PENDING_REASON = "no check registered yet: the Lean model/theorems and correspondence harness for this property are not built (see DESIGN.md §4 for the planned model)"


def main():
    props = [json.loads(l) for l in open(os.path.join(ROOT, "properties.jsonl"))]
    checks, na = [], []
    overrides = {}
    p = os.path.join(ROOT, "tools", "not_applicable.json")
    if os.path.exists(p):
        overrides = json.load(open(p))
    hold = {}
    hp = os.path.join(ROOT, "tools", "hold.json")
    if os.path.exists(hp):
        hold = json.load(open(hp))
    claimed = None
    cp = os.path.join(ROOT, "tools", "claimed.json")
    if os.path.exists(cp):
        claimed = set(json.load(open(cp)))
    for pr in props:
        pid = pr["id"]
        if pid in hold:
            na.append({"property_id": pid, "reason": "not claimed in this commit: " + hold[pid]})
            continue
        if claimed is not None and pid not in claimed and os.path.exists(os.path.join(ROOT, "harness", "sfv", "props", pid.lower() + ".py")):
            na.append({"property_id": pid, "reason": "not claimed in this commit: the check exists (harness/sfv/props/%s.py) but has not yet passed the integrator's multi-seed run on the unchanged tree" % pid.lower()})
            continue
        try:
            mod = importlib.import_module(f"sfv.props.{pid.lower()}")
        except ModuleNotFoundError:
            na.append({"property_id": pid, "reason": overrides.get(pid, PENDING_REASON)})
            continue
        P = mod.PROPERTY
        checks.append({
            "property_id": pid,
            "quick_cmd": f"./check {pid} --tier quick",
            "thorough_cmd": f"./check {pid} --tier thorough",
            "evidence_file": f"/verif/evidence/{pid}.json",
            "replay_cmd_template": f"./check {pid} --replay {{path}}",
            "engine": "lean-proof+correspondence",
            "level_claimed": {"category": "proof", "text": P.level_text, "design_ref": f"DESIGN.md §4 {pid}"},
            "level_note": P.level_note,
            "technique": P.technique,
        })
    import subprocess
    fix_commits = [l for l in subprocess.run(["git", "-C", "/repo", "log", "--reverse", "--format=%h %s", "--grep=^fix:"], capture_output=True, text=True).stdout.strip().split("\n") if l]
    manifest = {
        "version": 1,
        "setup_cmd": "./setup.sh",
        "hooks": {
            "guard": "STREAMFLOW_VERIF",
            "enable": "the checks export STREAMFLOW_VERIF=1 before importing streamflow (no hook commit exists yet: every observation point is reached by subclassing / run-time registration)",
            "baseline_off_cmd": "cd /repo && /venv/bin/python -m pytest -ra -q -p no:cacheprovider --timeout=900 --continue-on-collection-errors",
            "source_commits": json.load(open(os.path.join(ROOT, "tools", "hook_commits.json"))) if os.path.exists(os.path.join(ROOT, "tools", "hook_commits.json")) else [],
            "add_only": True,
        },
        "engines": [{
            "name": "lean-proof+correspondence", "path": "lean/ + harness/sfv/",
            "serves_properties": [c["property_id"] for c in checks],
            "kind_free_text": "Lean 4 theorems over executable models (lean/SFV), tied to /repo on every run by ast translators "
                              "(lean/SFV/Gen regenerated) and by a correspondence check that runs the real code and the model "
                              "driver (lean/Drivers/*.lean, line protocol) on the same generated inputs",
        }],
        "checks": checks,
        "not_applicable": na,
        "notes": "All checks: ./check <id> [--tier quick|thorough] [--replay FILE]; exit 0 pass, 1 violation, 2 inconclusive. "
                 "Known findings: known_findings.jsonl + known_findings.d/*.jsonl (open entries print KNOWN-FINDING, fixed entries suppress nothing). "
                 "No source hooks were needed (hooks.source_commits is empty; the guard variable is exported but nothing in /repo reads it). "
                 "Repairs of genuine defects committed to /repo as unguarded `fix:` commits: " + "; ".join(fix_commits) + ". See DESIGN.md §9.",
    }
    with open(os.path.join(ROOT, "MANIFEST.json"), "w") as f:
        json.dump(manifest, f, indent=1)
    import jsonschema
    jsonschema.validate(manifest, json.load(open("/root/.vp/MANIFEST.schema.json")))
    print(f"MANIFEST.json: {len(checks)} checks, {len(na)} not_applicable — valid")


main()
