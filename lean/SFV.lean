import SFV.Model.Tag
