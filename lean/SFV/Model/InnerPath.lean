/-! # `get_inner_path` (`streamflow/data/remotepath.py`): a path of a wrapping location mapped through its mounts

```
for mount in sorted(path.location.mounts.keys(), reverse=True):
    if path.is_relative_to(mount):
        return StreamFlowPath(path.location.mounts[mount], location=path.location.wraps) / path.relative_to(mount)
return None
```
Paths are lists of components (`PurePath.parts`); `is_relative_to` is the component-wise prefix test. The order in which the mounts
are tried is the order of the list handed to `firstMatch`; `sortMounts` is Python's `sorted(keys, reverse=True)` on the mount
strings. -/
namespace SFV.InnerPath

abbrev Path := List String

structure Mount where
  key : Path
  target : Path
  deriving DecidableEq, Repr

/-- the loop: the first mount (in the given order) the path is relative to -/
def firstMatch : List Mount → Path → Option Mount
  | [], _ => none
  | m :: ms, p => if m.key.isPrefixOf p then some m else firstMatch ms p

/-- `mounts[mount] / path.relative_to(mount)` -/
def innerPath (ordered : List Mount) (p : Path) : Option Path :=
  (firstMatch ordered p).map (fun m => m.target ++ p.drop m.key.length)

/-- the mount point as the string it is in `mounts` (absolute POSIX path) -/
def keyString (k : Path) : String := "/" ++ "/".intercalate (k.drop 1)

/-- insertion sort (stable), structural so that examples evaluate in the kernel -/
def insertBy (le : Mount → Mount → Bool) (a : Mount) : List Mount → List Mount
  | [] => [a]
  | b :: bs => if le a b then a :: b :: bs else b :: insertBy le a bs

def sortBy (le : Mount → Mount → Bool) : List Mount → List Mount
  | [] => []
  | a :: as => insertBy le a (sortBy le as)

/-- `sorted(mounts.keys(), reverse=True)` -/
def sortMounts (ms : List Mount) : List Mount := sortBy (fun a b => decide (keyString a.key ≥ keyString b.key)) ms

/-- `sorted(mounts.keys())` -/
def sortMountsAsc (ms : List Mount) : List Mount := sortBy (fun a b => decide (keyString a.key ≤ keyString b.key)) ms

/-- `sorted(mounts.keys(), key=len)` -/
def sortMountsByLen (ms : List Mount) : List Mount := sortBy (fun a b => decide ((keyString a.key).length ≤ (keyString b.key).length)) ms

/-- no mount is tried before a mount nested inside it (what the reverse string order gives: a proper prefix sorts lower) -/
def Desc (ms : List Mount) : Prop :=
  ms.Pairwise (fun a b => ¬ (a.key.isPrefixOf b.key = true ∧ a.key.length < b.key.length))

instance (ms : List Mount) : Decidable (Desc ms) := by unfold Desc; exact inferInstance

end SFV.InnerPath
