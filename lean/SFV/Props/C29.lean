import SFV.Lemmas.CwlOps
/-! # C29 — CWL workflows produce the same outputs as the reference runner (operator kernel)

What is proved here is the **operator layer**: each dataflow operator the translator composes (model of the StreamFlow
classes in `SFV/Model/CwlOps.lean`) equals the CWL standard's definition written independently (`spec…`), for every
input, every element function and **every arrival order** of the scattered results. Where the code deviates, the
full statement is proved false on a witness (known findings) and the `_partial` theorem names the excluded inputs.
The rest of the property (translator, expressions, files, cwltool itself) is validated differentially by the check. -/
namespace SFV.C29
open SFV.CwlOps

deriving instance DecidableEq for Except

/-- scatter over one input: the gathered outputs are `map f`, whatever order the jobs finish in (also for `[]`) -/
theorem scatter_single_eq_spec (f : α → γ) (xs : List α) (arrival : List (Tok γ))
    (h : arrival.Perm ((scatterToks xs).map (fun a => (a.1, f a.2)))) :
    sfScatter1 xs arrival = xs.map f := by
  unfold sfScatter1 emptyScatterFlat
  simp only [emptyTriggered_eq]
  cases xs with
  | nil => simp
  | cons x r =>
    simp only [List.length_cons, List.any_cons, List.any_nil, Bool.or_false]
    have : ((r.length + 1 == 0) = false) := by simp
    simp only [this, Bool.false_eq_true, if_false]
    rw [gatherSort_perm (map_sorted (scatterFrom_sorted 0 (x :: r)) f) h]
    rw [List.map_map]
    have := scatterFrom_vals 0 (x :: r)
    conv => rhs; rw [← this]
    rw [List.map_map]
    rfl

/-- dotproduct: equal lengths give `zipWith f`; different non-zero lengths fail in both -/
theorem scatter_dot_eq_spec_partial (f : α → β → γ) (xs : List α) (ys : List β) (arrival : List (Tok γ))
    (h : arrival.Perm (dotToks f xs ys)) (hne : xs.length = ys.length ∨ (xs ≠ [] ∧ ys ≠ [])) :
    sfDot xs ys arrival = specDot f xs ys := by
  unfold sfDot specDot emptyScatterFlat
  simp only [emptyTriggered_eq]
  by_cases hz : xs.length = 0 ∨ ys.length = 0
  · have hboth : xs = [] ∧ ys = [] := by
      rcases hne with e | ⟨h1, h2⟩
      · rcases hz with z | z
        · exact ⟨List.length_eq_zero_iff.mp z, List.length_eq_zero_iff.mp (by omega)⟩
        · exact ⟨List.length_eq_zero_iff.mp (by omega), List.length_eq_zero_iff.mp z⟩
      · rcases hz with z | z
        · exact absurd (List.length_eq_zero_iff.mp z) h1
        · exact absurd (List.length_eq_zero_iff.mp z) h2
    obtain ⟨rfl, rfl⟩ := hboth
    simp
  · have h1 : xs.length ≠ 0 := fun e => hz (Or.inl e)
    have h2 : ys.length ≠ 0 := fun e => hz (Or.inr e)
    have : ([xs.length, ys.length].any (· == 0)) = false := by simp [h1, h2]
    simp only [this, Bool.false_eq_true, if_false]
    by_cases hl : xs.length = ys.length
    · simp only [hl, if_true]
      congr 1
      rw [gatherSort_perm (dotFrom_sorted f 0 xs ys).1 h]
      exact dotFrom_vals f 0 xs ys
    · simp [hl]

/-- the full dotproduct statement is false: one empty and one non-empty input is an error in the standard,
StreamFlow's empty-scatter short cut answers `[]` -/
theorem scatter_dot_full_false :
    ¬ (∀ (xs ys : List Nat) (arrival : List (Tok Nat)), arrival.Perm (dotToks (· + ·) xs ys) →
        sfDot xs ys arrival = specDot (· + ·) xs ys) := by
  intro h
  have := h [] [1] [] (by simp [dotToks, scatterToks, scatterFrom])
  simp [sfDot, specDot, emptyScatterFlat, emptyTriggered_eq] at this

/-- **flat_crossproduct is row-major** for every pair of inputs (empty ones included) and every arrival order -/
theorem scatter_flat_eq_spec (f : α → β → γ) (xs : List α) (ys : List β) (arrival : List (Tok γ))
    (h : arrival.Perm (cartToks f xs ys)) : sfFlat xs ys arrival = specFlat f xs ys := by
  unfold sfFlat emptyScatterFlat
  simp only [emptyTriggered_eq]
  by_cases hz : ([xs.length, ys.length].any (· == 0)) = true
  · simp only [hz, if_true]
    simp only [List.any_cons, List.any_nil, Bool.or_false, Bool.or_eq_true, beq_iff_eq] at hz
    rcases hz with z | z
    · rw [List.length_eq_zero_iff.mp z]; simp [specFlat]
    · rw [List.length_eq_zero_iff.mp z]; simp [specFlat]
  · have : ([xs.length, ys.length].any (· == 0)) = false := by simpa using hz
    simp only [this, Bool.false_eq_true, if_false]
    rw [gatherSort_perm (cartToks_sorted f xs ys) h, cartToks_vals]

/-- the inner gather of a nested cross product: row `i`, any arrival order -/
theorem scatter_nested_row (f : α → β → γ) (i : Nat) (x : α) (ys : List β) (arrival : List (Tok γ))
    (h : arrival.Perm (rowToks f i x ys)) : gatherSort arrival = ys.map (f x) := by
  rw [gatherSort_perm (rowToks_sorted f i x ys) h, rowToks_vals]

/-- nested_crossproduct on non-empty inputs: one inner array per element of the first input, in order,
whatever order the rows reach the outer gather in -/
theorem scatter_nested_eq_spec_partial (f : α → β → γ) (xs : List α) (ys : List β)
    (rowsArrival : List (Tok (List γ))) (h : rowsArrival.Perm (rowsCanon f xs ys))
    (hx : xs ≠ []) (hy : ys ≠ []) : sfNested xs ys rowsArrival = specNested f xs ys := by
  unfold sfNested emptyScatterNested
  simp only [emptyTriggered_eq]
  have h1 : xs.length ≠ 0 := fun e => hx (List.length_eq_zero_iff.mp e)
  have h2 : ys.length ≠ 0 := fun e => hy (List.length_eq_zero_iff.mp e)
  have : ([xs.length, ys.length].any (· == 0)) = false := by simp [h1, h2]
  simp only [this, Bool.false_eq_true, if_false]
  rw [gatherSort_perm (rowsCanon_sorted f xs ys) h, rowsCanon_vals]

/-- the full nested_crossproduct statement is **false of the code** (DESIGN §6 #19): with an empty input
`CWLEmptyScatterConditionalStep._on_false` builds one empty list per scatter *input* -/
theorem scatter_nested_empty_false :
    sfNested [1, 2, 3] ([] : List Nat) ([] : List (Tok (List Nat))) ≠ specNested (· + ·) [1, 2, 3] [] ∧
    sfNested ([] : List Nat) [1, 2, 3] ([] : List (Tok (List Nat))) ≠ specNested (· + ·) [] [1, 2, 3] := by
  constructor <;> decide

/-- `empty_scatter`: dot / flat short cut agrees with the standard when an input is empty -/
theorem empty_scatter_eq_spec (f : α → β → γ) (xs : List α) (ys : List β) (h : xs = [] ∨ ys = []) :
    (emptyScatterFlat [xs.length, ys.length] : Option (List γ)) = some (specFlat f xs ys) := by
  rcases h with rfl | rfl <;> simp [emptyScatterFlat, emptyTriggered_eq, specFlat]

/-- linkMerge: merge_nested over pairwise different sources is the list of the sources -/
theorem link_merge_nested_eq_spec_partial (srcs : List (String × α)) (h : (srcs.map (·.1)).Nodup) :
    sfMergeNested srcs = specMergeNested (srcs.map (·.2)) := by
  simp [sfMergeNested, specMergeNested, dedupKeys_nodup srcs h]

/-- `ListMergeCombinator.combine` does not depend on the order in which the source tokens arrive: whatever the
arrival order, the merged list follows `input_names` -/
theorem link_merge_any_arrival (names : List String) (vals : List α) (arrivals : List (String × α))
    (hlen : names.length = vals.length) (hn : names.Nodup) (hp : arrivals.Perm (names.zip vals)) :
    collectByName arrivals names = vals.map some := by
  unfold collectByName
  have hk : (arrivals.map (·.1)).Nodup := by
    have : (arrivals.map (·.1)).Perm ((names.zip vals).map (·.1)) := hp.map _
    rw [this.nodup_iff]
    have hz : (names.zip vals).map (·.1) = names := by
      rw [List.map_fst_zip]; omega
    rw [hz]; exact hn
  have : ∀ n, arrivals.lookup n = (names.zip vals).lookup n := fun n => lookup_perm hp hk n
  simp only [this]
  exact lookup_zip_self names vals hlen hn

example : collectByName [("c", 3), ("a", 1), ("b", 2)] ["a", "b", "c"] = [some 1, some 2, some 3] := by decide

/-- the full merge statement is **false of the code** (DESIGN §6 #20): a source listed twice is kept once -/
theorem link_merge_duplicate_false :
    sfMergeNested [("a", 1), ("b", 2), ("a", 1)] ≠ specMergeNested [1, 2, 1] := by
  simp [sfMergeNested, specMergeNested, dedupKeys]

/-- element tags of a `ListToken` source are in gather order (what a scatter with one input, a dot product or a
plain step produces) -/
def InOrder : TSrc α → Prop
  | .one _ => True
  | .many elems => elems.Pairwise (fun a b => a.1.getLast?.getD 0 ≤ b.1.getLast?.getD 0)

def untag : TSrc α → Src α
  | .one v => .one v
  | .many elems => .many (elems.map (·.2))

/-- linkMerge: merge_flattened over pairwise different sources whose element tags are in order -/
theorem link_merge_flattened_eq_spec_partial (srcs : List (String × TSrc α)) (h : (srcs.map (·.1)).Nodup)
    (ho : ∀ p, p ∈ srcs → InOrder p.2) :
    sfMergeFlattened srcs = specMergeFlattened (srcs.map (fun p => untag p.2)) := by
  simp only [sfMergeFlattened, specMergeFlattened, dedupKeys_nodup srcs h, List.flatMap_map]
  apply flatMap_ext
  intro p hp
  have := ho p hp
  cases hq : p.2 with
  | one v => simp [untag]
  | many elems =>
    rw [hq] at this
    simp only [untag]
    rw [flattenSort_sorted elems this]

/-- the full merge_flattened statement is **false of the code**: the elements of an array produced by a
flat_crossproduct scatter carry tags `i.j`; `_flatten_token_list` re-sorts them by the last component only -/
theorem link_merge_flattened_cross_false :
    sfMergeFlattened [("s", TSrc.many [([0, 0], 10), ([0, 1], 11), ([1, 0], 20), ([1, 1], 21)])] ≠
      specMergeFlattened [Src.many [10, 11, 20, 21]] := by
  decide

/-- the guards regenerated from the source are the ones modelled -/
theorem guards_as_modelled : Gen.CwlOpsGen.emptyGuard = .allNonEmpty ∧ Gen.CwlOpsGen.nestedEmpty = .onePerInput ∧
    Gen.CwlOpsGen.flattenKey = .lastTagComponent := by decide

/-- pickValue, errors included -/
theorem pick_value_eq_spec (vs : List (Option α)) :
    sfFirstNonNull vs = specFirstNonNull vs ∧ sfOnlyNonNull vs = specOnlyNonNull vs ∧
    sfAllNonNull vs = specAllNonNull vs := by
  refine ⟨sfFirst_eq vs, ?_, sfAll_eq vs⟩
  unfold sfOnlyNonNull specOnlyNonNull
  rw [sfOnlyLoop_none]
  cases h : vs.filterMap id with
  | nil => rfl
  | cons a r => cases r <;> rfl

/-- `when`: a skipped step puts `null` on every output -/
theorem conditional_null_eq_spec (cond : Bool) (outs : List α) : sfWhen cond outs = specWhen cond outs := by
  cases cond <;> rfl

/-! ### non-vacuity -/
example : (cartToks (fun x y => x * 100 + y) [1, 2] [7, 8, 9]).map (·.2) = [107, 108, 109, 207, 208, 209] := by decide
example : sfFlat [1, 2] [7, 8, 9] [([1, 0], 207), ([0, 2], 109), ([0, 0], 107), ([1, 2], 209), ([0, 1], 108), ([1, 1], 208)]
    = [107, 108, 109, 207, 208, 209] :=
  scatter_flat_eq_spec (fun x y => x * 100 + y) [1, 2] [7, 8, 9] _ (by decide)
example : sfOnlyNonNull [none, some 3, none] = .ok 3 ∧ sfOnlyNonNull [some 1, some 2] = Except.error PickErr.multipleNonNull ∧
    sfFirstNonNull ([none, none] : List (Option Nat)) = .error .allNull := by decide
example : InOrder (TSrc.many [([0], 5), ([1], 6), ([2], 7)]) := by simp [InOrder]

end SFV.C29
