"""C10 — the scheduler never over-allocates a location."""
from __future__ import annotations

from sfv.framework import Ctx, Property
from sfv.rt import protomon, schedprop
from sfv.rt.par import pmap
from sfv.translate import schedguards

SCHED_RULE = ("scenarios on the REAL DefaultScheduler with run-time fake connectors under the controlled event loop: 1..3 deployments x 1..3 "
              "locations, hardware (1..2 mount points, binds) or slot-only locations, wrappers stacked on earlier deployments (depth <= 3), "
              "single- and multi-location targets, 2..6 jobs with dyadic requirements (cores, memory, __outdir__/__tmpdir__ storage), "
              "schedule() calls as tasks, notifications inline or as tasks (RUNNING, COMPLETED, FAILED, CANCELLED, ROLLBACK, RECOVERY, "
              "repeats), adaptive protocol-conforming generator plus out-of-protocol / shared-inner / heterogeneous / decimal classes; "
              "a fixed corpus of 8 witness histories runs first. After every call the property's invariant is evaluated on the real "
              "job_allocations / hardware_locations, and every atomic step (one pass of _process_target's critical section, one "
              "notify_status) is replayed on the Lean model and the full state (hardware_locations, job_allocations incl. hardware, "
              "location_allocations job lists) compared. Non-trivial = distinct (configuration, executed history) with >= 1 allocation.")
SCHED_TRUSTED = [
    "translator harness/sfv/translate/schedguards.py (ast: Status enum, release / store / un-list conditions and notify_all position of "
    "notify_status, _get_running_jobs filter, slot test and default of _is_valid, location-count test of _process_target, allocation "
    "status, Hardware/Storage operators) -> SFV/Gen/SchedGuards.lean",
    "harness fakes (sfv.rt.schedfake: connectors, wrapper, requirement) and the event log of sfv.rt.schedharness (passes are recognised by "
    "the target connector's get_available_locations call inside _process_target; allocations by a recording subclass of DefaultScheduler)",
    "modelled, not verified: asyncio.Condition/Lock semantics (a critical section is atomic w.r.t. scheduler state; FIFO not assumed), the "
    "default policy picks the first valid locations (no FileToken inputs), dict insertion order, exact rational amounts",
    "the link between the Hardware-level model (SFV/Model/Sched.lean, compared with the code) and the per-component ledger "
    "(SFV/Model/Ledger.lean, subject of the invariant theorems) is per-step: alloc_respects_capacity / isValid_hw_level / "
    "isValid_slot_level, add_totals, sub_totals; the whole-run simulation is argued in design_notes, not machine-checked",
]


class C10(Property):
    pid = "C10"
    title = "The scheduler never over-allocates a location"
    lean_targets = ["SFV.Props.C10", "SFV.Model.SchedProto"]
    props_files = ["SFV/Props/C10.lean"]
    drivers = ["Drivers/C10.lean", "Drivers/C10Hyp.lean", "Drivers/C10Proto.lean"]
    translators = [schedguards.generate]
    rule = SCHED_RULE + (" Protocol monitor: real workflows with injected failures and recoveries (pipelines, scatter, diamond, loop; soft / "
                         "fail-stop failures in the schedule, transfer and execute phases, exhausted retries, no failure manager) run on a "
                         "recording subclass of DefaultScheduler; the observed sequence of allocations and notifications of every run must "
                         "be accepted step by step by Ledger.OpOk (the hypothesis HistoryOk of the theorems), evaluated by the Lean driver.")
    trusted_base = SCHED_TRUSTED
    technique = ("Lean 4: inductive invariant of the scheduler's bookkeeping for all histories/configurations under the engine protocol, "
                 "negative witness without it; guards translated from notify_status/_get_running_jobs/_is_valid; differential "
                 "correspondence of an executable Hardware-level model with the real DefaultScheduler under a controlled event loop")
    level_text = ("grade A-: never_overallocated_partial / reserved_eq_sum proved for every history, number of locations, stacked level and "
                  "job placement under the engine protocol (per numeric component: cores, memory, each mount point); "
                  "never_overallocated_false: the full-strength statement fails on FIREABLE->COMPLETED->RUNNING->COMPLETED (known finding); "
                  "alloc_respects_capacity: what the (capacity - reserved).satisfies(requirement) test guarantees per level; the guards are "
                  "regenerated from the source each run; the Hardware-level executable model agrees with the real scheduler state after "
                  "every call on every generated history")
    level_note = ("Lean kernel, axioms within {propext, Classical.choice, Quot.sound}; the invariant theorems are about the per-component "
                  "ledger; its correspondence with the code goes through the Hardware-level model (per-step lemmas proved, whole-run "
                  "simulation not machine-checked) and the differential check; asyncio lock semantics are trusted")
    assumptions = ["engine protocol (HistoryOk): a notification never moves a non-occupying job to FIREABLE/RUNNING; a job is re-allocated "
                   "only while not occupying", "levels of the selected locations are distinct locations (no two available locations of a "
                   "target stacked on the same inner location)", "amounts are exact rationals"]
    quick_budget_s = 600

    def explore(self, ctx: Ctx) -> None:
        schedprop.explore(ctx, self.pid)
        if ctx.mode == "check":
            self._protocol_monitor(ctx)

    def _protocol_monitor(self, ctx: Ctx) -> None:
        """is the hypothesis of the theorems what the engine does? observe real recovery runs"""
        cases = protomon.gen_cases(ctx.rng, ctx.tier == "quick")
        if ctx.tier == "quick":
            keep = ("schedule", "execute", "failstop", "exhausted", "scatter")
            cases = [c for c in cases if any(k in c["name"] for k in keep)][:4]
        lines, owners = [], []
        for case, status, r in pmap(protomon.run_observed, cases, timeout=240, workers=5):
            if status != "ok" or not r or r.get("outcome") in ("hang", "harness-error", None):
                ctx.notes.append(f"protocol monitor: run {case['name']} gave no result ({status}); not counted")
                ctx.count("protocol-monitor:no-result")
                continue
            ids: dict[str, int] = {}
            n_alloc = sum(1 for e in r["events"] if e[0] == "alloc")
            n_realloc = n_alloc - len({e[1] for e in r["events"] if e[0] == "alloc"})
            ctx.case({"protocol-monitor": case["name"], "outcome": r["outcome"], "events": len(r["events"]), "re-allocations": n_realloc},
                     ("proto", case["name"], repr(r["events"])) if n_realloc else None, "protocol-monitor")
            ctx.count("protocol-monitor:events", len(r["events"]))
            ctx.count("protocol-monitor:re-allocations", n_realloc)
            lines.append("reset")
            owners.append((case, r, None))
            for e in r["events"]:
                j = ids.setdefault(e[1], len(ids))
                lines.append(f"alloc {j}" if e[0] == "alloc" else f"notify {j} {e[2]}")
                owners.append((case, r, e))
        outs = ctx.lean("Drivers/C10Proto.lean", lines)
        seen = set()
        for o, (case, r, e) in zip(outs, owners):
            if o != "ok" and case["name"] not in seen:
                seen.add(case["name"])
                ctx.disagree("engine notification sequence rejected by the protocol (hypothesis HistoryOk of never_overallocated_partial / "
                             "all_done_zero_partial)", f"run {case['name']}: event {e} is not allowed in the state reached; full sequence {r['events']}",
                             {"protocol_case": case, "events": r["events"]})

    def replay(self, ctx: Ctx, data) -> None:
        schedprop.replay(ctx, self.pid, data)


PROPERTY = C10()
