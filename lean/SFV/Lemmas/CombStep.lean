import SFV.Lemmas.CombDotSpec
import SFV.Lemmas.CombCartMain
import SFV.Lemmas.CombNestedDot
/-! `CombinatorStep.run`: the logs of the output ports (`portLog`) against the specification. -/
namespace SFV.Comb
open SFV

theorem lookup_filter_key (e : Emit) (p : Nat) : (e.filter (fun x => x.1 = p)).lookup p = e.lookup p := by
  induction e with
  | nil => rfl
  | cons x r ih =>
    obtain ⟨q, t⟩ := x
    by_cases h : q = p
    · subst h; simp [List.filter_cons, List.lookup]
    · have hb : (p == q) = false := by simpa using (fun e => h e.symm)
      simp only [List.filter_cons, h, decide_false, Bool.false_eq_true, if_false, List.lookup, hb]
      exact ih

theorem lookup_filter_other (e : Emit) {p q : Nat} (h : q ≠ p) : (e.filter (fun x => x.1 = q)).lookup p = none := by
  rw [List.lookup_eq_none_iff]
  intro x hx
  simp only [List.mem_filter, decide_eq_true_eq] at hx
  rw [bne_iff_ne]
  intro hp
  exact h (hx.2.symm.trans hp.symm)

/-- sorting a schema by port does not change what is found under a port -/
theorem lookup_normEmit (M : Nat) (e : Emit) {p : Nat} (hp : p < M) : (normEmit M e).lookup p = e.lookup p := by
  unfold normEmit
  induction M with
  | zero => omega
  | succ M ih =>
    rw [List.range_succ, List.flatMap_append, List.lookup_append]
    by_cases h : p < M
    · rw [ih h]
      have hM : p ≠ M := by omega
      have : ([M].flatMap (fun q => e.filter (fun x => x.1 = q))).lookup p = none := by
        simp only [List.flatMap_cons, List.flatMap_nil, List.append_nil]
        exact lookup_filter_other e (fun e' => hM e'.symm)
      rw [this]
      cases e.lookup p <;> rfl
    · have hpM : p = M := by omega
      subst hpM
      have hnone : ((List.range p).flatMap (fun q => e.filter (fun x => x.1 = q))).lookup p = none := by
        rw [List.lookup_eq_none_iff]
        intro x hx
        obtain ⟨q, hq, hxq⟩ := List.mem_flatMap.mp hx
        simp only [List.mem_filter, decide_eq_true_eq] at hxq
        have := List.mem_range.mp hq
        rw [bne_iff_ne]
        omega
      rw [hnone]
      simp [lookup_filter_key]

theorem portLog_normEmit (P : Nat) (out : List Emit) {p : Nat} (hp : p < P) :
    portLog p (out.map (normEmit P)) = portLog p out := by
  unfold portLog
  rw [List.filterMap_map]
  apply CF.filterMap_congr'
  intro e _
  exact lookup_normEmit P e hp

/-- **output ports of a dot-product `CombinatorStep`**: for every arrival order of a well-formed stream the log of
    output port `p` is, as a multiset, column `p` of the specification -/
theorem step_dot_port_logs {P : Nat} (S es : List Ev) (h : WFDot P S) (hp : es.Perm S) (p : Nat) (hpP : p < P) :
    (portLog p (runDot P es).out).Perm (portLog p (specDot P S)) := by
  rw [← portLog_normEmit P _ hpP]
  exact (runDot_any_order S es h hp).2.filterMap _

/-- the same for a cartesian-product step -/
theorem step_cart_port_logs {depth P L : Nat} (S es : List Ev) (h : WFCart depth P L S) (hp : es.Perm S) (p : Nat) :
    (portLog p (runCart depth P es).out).Perm (portLog p (specCart depth P S)) :=
  (runCart_any_order S es h hp).2.filterMap _

/-- every specified combination of the dot product has an entry for every port -/
theorem specDot_has_all_ports {P : Nat} {S : List Ev} {σ : Emit} (hσ : σ ∈ specDot P S) {p : Nat} (hp : p < P) :
    (σ.lookup p).isSome := by
  simp only [specDot, List.mem_map, List.mem_filter] at hσ
  obtain ⟨κ, ⟨_, hc⟩, rfl⟩ := hσ
  rw [List.lookup_isSome_iff]
  unfold specComplete at hc
  rw [List.all_eq_true] at hc
  have hq := hc p (List.mem_range.mpr hp)
  rw [List.any_eq_true] at hq
  obtain ⟨e, he, hpe⟩ := hq
  cases hs : specPick S κ p with
  | none =>
    unfold specPick at hs
    cases hf : S.find? (fun e => decide (e.1 = p ∧ e.2.tag <+: κ)) with
    | none => exact absurd hpe (List.find?_eq_none.mp hf e he)
    | some x => rw [hf] at hs; simp at hs
  | some y =>
    refine ⟨y, List.mem_filterMap.mpr ⟨p, List.mem_range.mpr hp, hs⟩, ?_⟩
    have := (specPick_some hs).1
    simp [this]

/-- **final status of a dot-product `CombinatorStep`** (all inputs terminate with `COMPLETED`): `COMPLETED` exactly
    when the specification is not empty, for every arrival order of a well-formed stream -/
theorem step_dot_status {P : Nat} (hP : 0 < P) (S es : List Ev) (h : WFDot P S) (hp : es.Perm S) :
    stepStatus (List.range P) (runDot P es).out = .completed ↔ specDot P S ≠ [] := by
  have hlogs : ∀ p, p < P → ((portLog p (runDot P es).out).isEmpty ↔ (portLog p (specDot P S)).isEmpty) := by
    intro p hpP
    have := (step_dot_port_logs S es h hp p hpP).length_eq
    simp only [List.isEmpty_iff_length_eq_zero] 
    omega
  have hspec : ∀ p, p < P → ((portLog p (specDot P S)).isEmpty ↔ specDot P S = []) := by
    intro p hpP
    constructor
    · intro he
      apply List.eq_nil_iff_forall_not_mem.mpr
      intro σ hσ
      obtain ⟨t, ht⟩ := Option.isSome_iff_exists.mp (specDot_has_all_ports hσ hpP)
      have : t ∈ portLog p (specDot P S) := List.mem_filterMap.mpr ⟨σ, hσ, ht⟩
      rw [List.isEmpty_iff] at he
      rw [he] at this
      cases this
    · intro h0; rw [h0]; rfl
  unfold stepStatus
  constructor
  · intro hc h0
    have : (List.range P).any (fun p => (portLog p (runDot P es).out).isEmpty) = true := by
      rw [List.any_eq_true]
      exact ⟨0, List.mem_range.mpr hP, (hlogs 0 hP).mpr ((hspec 0 hP).mpr h0)⟩
    rw [this] at hc
    simp at hc
  · intro hne
    have : (List.range P).any (fun p => (portLog p (runDot P es).out).isEmpty) = false := by
      rw [List.any_eq_false]
      intro p hp' he
      have hpP := List.mem_range.mp hp'
      exact hne ((hspec p hpP).mp ((hlogs p hpP).mp he))
    rw [this]
    simp

end SFV.Comb
