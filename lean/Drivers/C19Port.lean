import SFV.Model.IWPort
import SFV.Model.Proto
open SFV SFV.Proto SFV.IWPort

def renderItem : Item → String
  | .tok t => toString t
  | .term => "T"

def parseNats (s : String) : Option (List Nat) :=
  if s == "-" then some [] else (s.splitOn ",").mapM String.toNat?

def stepLine (s : St) : List String → St × String
  | ["reset"] => (St.init, "ok")
  | ["put", n] => match n.toNat? with
      | some t => (step s (.put t), "ok")
      | none => (s, "bad-op")
  | ["term"] => (step s .putTerm, "ok")
  | ["add", p, pr, tm, tags] =>
      match p.toNat?, parseNats tags with
      | some p, some l => (step s (.add p l (pr == "1") (tm == "1")), "ok")
      | _, _ => (s, "bad-op")
  | ["dump", k] => match k.toNat? with
      | some k => (s, " | ".intercalate ((List.range (k + 1)).map (fun q => " ".intercalate ((s.lists q).map renderItem))))
      | none => (s, "bad-op")
  | _ => (s, "bad-op")

def main : IO Unit := runStateful St.init stepLine
