"""Random file trees and canonical snapshots (shared by C22, C23, C24)."""
from __future__ import annotations

import hashlib
import os
import stat

NAME_CORPUS = ["plain", "a b", "it's", 'q"uote', "$HOME", "`id`", "-dash", "--opt", "é", "日本", "😀", "semi;colon", "st*r", "que?", "br[a]",
               "#hash", "tab\there", "new\nline", "back\\slash", "~", "a=b", " lead", "trail ", "%s", "{x}", "(p)", "a&b", "pi|pe", "re>dir"]
SIZES = [0, 1, 5, 511, 512, 513, 1024, 1536, 2047, 4096]


def rand_name(rng, nasty: float = 0.5, long_names: bool = False) -> str:
    if long_names and rng.random() < 0.15:
        return "L" + "".join(rng.choice("abcdefghij0123456789_-") for _ in range(rng.randint(95, 140)))
    if rng.random() < nasty:
        n = rng.choice(NAME_CORPUS)
        if rng.random() < 0.3:
            n += rng.choice(["", "1", ".txt", " x"])
        return n
    return "".join(rng.choice("abcdefXYZ0123._-") for _ in range(rng.randint(1, 10))).lstrip(".") or "f"


def rand_bytes(rng, n: int) -> bytes:
    k = rng.random()
    if k < 0.3:
        return bytes(rng.randrange(256) for _ in range(min(n, 64))) * (n // 64 + 1)
    if k < 0.6:
        return (b"line of text\n" * (n // 13 + 1))
    return rng.randbytes(n)


def make_tree(rng, root: str, max_entries: int = 30, nasty: float = 0.5, symlinks: bool = True, long_names: bool = False,
              big: int | None = None, exclude_chars: str = "") -> list[str]:
    """create a random tree *inside* the (new) directory `root`; returns the relative paths created"""
    os.makedirs(root, exist_ok=True)
    dirs = [""]
    created: list[str] = []
    files: list[str] = []
    n = rng.randint(0, max_entries)
    for i in range(n):
        parent = rng.choice(dirs)
        for _ in range(10):
            name = rand_name(rng, nasty, long_names)
            if any(c in name for c in exclude_chars):
                continue
            rel = os.path.join(parent, name) if parent else name
            if name not in (".", "..") and "/" not in name and not os.path.lexists(os.path.join(root, rel)) and len(rel.encode()) < 900:
                break
        else:
            continue
        path = os.path.join(root, rel)
        k = rng.random()
        try:
            if k < 0.25:
                os.mkdir(path)
                dirs.append(rel)
            elif k < 0.33 and symlinks and files:
                target = rng.choice(files)
                os.symlink(os.path.relpath(os.path.join(root, target), os.path.dirname(path)), path)
            else:
                size = rng.choice(SIZES) if rng.random() < 0.7 else rng.randint(0, 6000)
                if big and i == 0:
                    size = big
                with open(path, "wb") as f:
                    f.write(rand_bytes(rng, size)[:size])
                if rng.random() < 0.3:
                    os.chmod(path, 0o755)
                files.append(rel)
        except OSError:
            continue
        created.append(rel)
    return created


def snapshot(root: str, follow_top: bool = False) -> dict:
    """canonical description of the tree at `root`: relpath -> ("d",) | ("f", sha1, size, exec) | ("l", target)"""
    out: dict[str, tuple] = {}

    def entry(path: str):
        st = os.lstat(path)
        if stat.S_ISLNK(st.st_mode):
            return ("l", os.readlink(path))
        if stat.S_ISDIR(st.st_mode):
            return ("d",)
        if stat.S_ISREG(st.st_mode):
            h = hashlib.sha1()
            with open(path, "rb") as f:
                while b := f.read(1 << 16):
                    h.update(b)
            return ("f", h.hexdigest(), st.st_size, bool(st.st_mode & 0o100))
        return ("other",)
    if not os.path.lexists(root):
        return {"": ("missing",)}
    out[""] = entry(root)
    if out[""][0] == "d":
        for base, dnames, fnames in os.walk(root):
            for n in dnames + fnames:
                p = os.path.join(base, n)
                out[os.path.relpath(p, root)] = entry(p)
    return out


def diff_items(a: dict, b: dict, limit: int = 5) -> list[tuple]:
    out = []
    for k in sorted(set(a) | set(b)):
        if a.get(k) != b.get(k):
            out.append((k, a.get(k), b.get(k)))
            if len(out) >= limit:
                break
    return out


def diff(a: dict, b: dict, limit: int = 5) -> list[str]:
    return [f"{k!r}: {x} != {y}" for k, x, y in diff_items(a, b, limit)]


def resolved(snap: dict, root: str) -> dict:
    """the same snapshot with symlinks replaced by what they resolve to (for dereferencing copies)"""
    out = {}
    for k, v in snap.items():
        if v[0] == "l":
            p = os.path.join(root, k) if k else root
            if os.path.isdir(p):
                out[k] = ("d",)
                for kk, vv in resolved(snapshot(os.path.realpath(p)), os.path.realpath(p)).items():
                    if kk:
                        out[os.path.join(k, kk)] = vv
            elif os.path.isfile(p):
                out[k] = snapshot(os.path.realpath(p))[""]
            else:
                out[k] = ("dangling",)
        else:
            out[k] = v
    return out
