import SFV.Lemmas.GatherKey
/-! Projection of the multi-key gather machine onto one key, and the run-level theorems. -/
namespace SFV.Gather
open SFV

/-- what the gather step knows about key `k` -/
def view {V} (s : St V) (k : Tag) : KSt V :=
  ⟨s.toks k, s.sizes k, (s.out.filter (fun o => o.1 = k)).map (·.2)⟩

/-- the key a data event touches -/
def evKey {V} (d : Nat) : Ev V → Option Tag
  | .elem t => some (keyOf d t.tag)
  | .size k _ => some k
  | .term _ _ => none

def toK {V} : Ev V → Option (KEv V)
  | .elem t => some (.elem t)
  | .size _ n => some (.size n)
  | .term _ _ => none

/-- the events of key `k`, in arrival order -/
def proj {V} (d : Nat) (k : Tag) (es : List (Ev V)) : List (KEv V) :=
  es.filterMap (fun e => if evKey d e = some k then toK e else none)

def IsData {V} : Ev V → Prop
  | .term _ _ => False
  | _ => True

def BothOpen {V} (s : St V) : Prop := s.openSize = true ∧ s.openElem = true

theorem view_emit_same {V} (s : St V) (k : Tag) :
    view (emit s k) k = { view s k with outs := (view s k).outs ++ [sortToks (s.toks k)] } := by
  simp [view, emit, List.filter_append]

theorem view_emit_other {V} (s : St V) (k k' : Tag) (h : k' ≠ k) : view (emit s k) k' = view s k' := by
  have : ¬ k = k' := fun e => h e.symm
  simp [view, emit, List.filter_append, this]

theorem setKey_same {α} (m : Tag → α) (k : Tag) (v : α) : setKey m k v k = v := by simp [setKey]
theorem setKey_other {α} (m : Tag → α) (k k' : Tag) (v : α) (h : k' ≠ k) : setKey m k v k' = m k' := by
  simp [setKey, h]

/-- a data event moves the view of its own key by `kstep` and leaves every other view unchanged -/
theorem view_step {V} (d : Nat) (s : St V) (e : Ev V) (ho : BothOpen s) (hd : IsData e) (k : Tag) :
    view (step d s e) k =
      (match (if evKey d e = some k then toK e else none) with
       | some ke => kstep (view s k) ke
       | none => view s k) ∧ BothOpen (step d s e) ∧ (step d s e).status = s.status := by
  obtain ⟨ho1, ho2⟩ := ho
  cases e with
  | term p st => exact (hd : False).elim
  | elem t =>
    simp only [step, ho2, Bool.not_true, Bool.false_eq_true, if_false, evKey, toK, Option.some.injEq]
    by_cases hk : keyOf d t.tag = k
    · subst hk
      simp only [if_true, setKey_same]
      split
      · rename_i hem
        try simp only [Bool.not_eq_true, List.length_append, List.length_singleton, List.length_cons, List.length_nil, setKey_same] at hem
        refine ⟨?_, by simp [BothOpen, emit, ho1, ho2], by simp [emit]⟩
        rw [view_emit_same]
        simp [view, kstep, setKey_same, hem]
      · rename_i hem
        try simp only [Bool.not_eq_true, List.length_append, List.length_singleton, List.length_cons, List.length_nil, setKey_same] at hem
        refine ⟨?_, by simp [BothOpen, emit, ho1, ho2], by simp [emit]⟩
        simp [view, kstep, setKey_same, hem]
    · simp only [hk, if_false]
      split
      · refine ⟨?_, by simp [BothOpen, emit, ho1, ho2], by simp [emit]⟩
        rw [view_emit_other _ _ _ (fun e => hk e.symm)]
        simp [view, setKey_other _ _ _ _ (fun e => hk e.symm)]
      · refine ⟨?_, by simp [BothOpen, emit, ho1, ho2], by simp [emit]⟩
        simp [view, setKey_other _ _ _ _ (fun e => hk e.symm)]
  | size k' n =>
    simp only [step, ho1, Bool.not_true, Bool.false_eq_true, if_false, evKey, toK, Option.some.injEq]
    by_cases hk : k' = k
    · subst hk
      simp only [if_true]
      split
      · rename_i hem
        try simp only [Bool.not_eq_true, List.length_append, List.length_singleton, List.length_cons, List.length_nil, setKey_same] at hem
        refine ⟨?_, by simp [BothOpen, emit, ho1, ho2], by simp [emit]⟩
        rw [view_emit_same]
        simp [view, kstep, setKey_same, hem]
      · rename_i hem
        try simp only [Bool.not_eq_true, List.length_append, List.length_singleton, List.length_cons, List.length_nil, setKey_same] at hem
        refine ⟨?_, by simp [BothOpen, emit, ho1, ho2], by simp [emit]⟩
        simp [view, kstep, setKey_same, hem]
    · simp only [hk, if_false]
      split
      · refine ⟨?_, by simp [BothOpen, emit, ho1, ho2], by simp [emit]⟩
        rw [view_emit_other _ _ _ (fun e => hk e.symm)]
        simp [view, setKey_other _ _ _ _ (fun e => hk e.symm)]
      · refine ⟨?_, by simp [BothOpen, emit, ho1, ho2], by simp [emit]⟩
        simp [view, setKey_other _ _ _ _ (fun e => hk e.symm)]

/-- **projection**: over data events the view of key `k` is the single-key machine run on the events of `k` -/
theorem view_foldl {V} (d : Nat) (es : List (Ev V)) (hd : ∀ e ∈ es, IsData e) :
    ∀ (s : St V), BothOpen s → ∀ k,
      view (es.foldl (step d) s) k = (proj d k es).foldl kstep (view s k) ∧
      BothOpen (es.foldl (step d) s) ∧ (es.foldl (step d) s).status = s.status := by
  induction es with
  | nil => intro s ho k; exact ⟨rfl, ho, rfl⟩
  | cons e es ih =>
    intro s ho k
    have hstep := view_step d s e ho (hd e (by simp)) k
    have ih' := ih (fun x hx => hd x (List.mem_cons_of_mem _ hx)) (step d s e) hstep.2.1 k
    simp only [List.foldl_cons]
    refine ⟨?_, ih'.2.1, ih'.2.2.trans hstep.2.2⟩
    rw [ih'.1, hstep.1]
    simp only [proj, List.filterMap_cons]
    cases hc : (if evKey d e = some k then toK e else none) with
    | none => simp
    | some ke => simp

/-! ### keys, completed keys, outputs -/

theorem mem_addKey {keys : List Tag} {k k' : Tag} : k' ∈ addKey keys k ↔ k' ∈ keys ∨ k' = k := by
  unfold addKey
  split
  · constructor
    · exact Or.inl
    · rintro (h | rfl)
      · exact h
      · assumption
  · simp

/-- every key of `token_map` is the key of an event received -/
theorem keys_sub {V} (d : Nat) (es : List (Ev V)) (hd : ∀ e ∈ es, IsData e) :
    ∀ (s : St V), BothOpen s → ∀ k ∈ (es.foldl (step d) s).keys, k ∈ s.keys ∨ ∃ e ∈ es, evKey d e = some k := by
  induction es with
  | nil => intro s _ k hk; exact Or.inl hk
  | cons e es ih =>
    intro s ho k hk
    have hstep := view_step d s e ho (hd e (by simp)) k
    rcases ih (fun x hx => hd x (List.mem_cons_of_mem _ hx)) (step d s e) hstep.2.1 k hk with h | ⟨e', he', hk'⟩
    · have : k ∈ s.keys ∨ evKey d e = some k := by
        obtain ⟨ho1, ho2⟩ := ho
        cases e with
        | term p st => exact (hd (Ev.term p st) (by simp) : False).elim
        | elem t =>
          simp only [step, ho2, Bool.not_true, Bool.false_eq_true, if_false] at h
          split at h <;> simp only [emit] at h <;> rcases mem_addKey.mp h with h | h
          · exact Or.inl h
          · exact Or.inr (by simp [evKey, h])
          · exact Or.inl h
          · exact Or.inr (by simp [evKey, h])
        | size k' n =>
          simp only [step, ho1, Bool.not_true, Bool.false_eq_true, if_false] at h
          split at h <;> simp only [emit] at h <;> rcases mem_addKey.mp h with h | h
          · exact Or.inl h
          · exact Or.inr (by simp [evKey, h])
          · exact Or.inl h
          · exact Or.inr (by simp [evKey, h])
      rcases this with h | h
      · exact Or.inl h
      · exact Or.inr ⟨e, by simp, h⟩
    · exact Or.inr ⟨e', List.mem_cons_of_mem _ he', hk'⟩

/-- every key that emitted is recorded in `keys_completed` -/
theorem out_completed {V} (d : Nat) (es : List (Ev V)) (hd : ∀ e ∈ es, IsData e) :
    ∀ (s : St V), BothOpen s → (∀ o ∈ s.out, o.1 ∈ s.completed) →
      ∀ o ∈ (es.foldl (step d) s).out, o.1 ∈ (es.foldl (step d) s).completed := by
  induction es with
  | nil => intro s _ h; exact h
  | cons e es ih =>
    intro s ho hinv
    have hstep := view_step d s e ho (hd e (by simp)) []
    refine ih (fun x hx => hd x (List.mem_cons_of_mem _ hx)) (step d s e) hstep.2.1 ?_
    obtain ⟨ho1, ho2⟩ := ho
    have hemit : ∀ (s' : St V) (k : Tag), (∀ o ∈ s'.out, o.1 ∈ s'.completed) →
        ∀ o ∈ (emit s' k).out, o.1 ∈ (emit s' k).completed := by
      intro s' k h o ho
      simp only [emit, List.mem_append, List.mem_singleton] at ho ⊢
      rcases ho with ho | rfl
      · exact List.mem_cons_of_mem _ (h o ho)
      · exact List.mem_cons_self ..
    cases e with
    | term p st => exact (hd (Ev.term p st) (by simp) : False).elim
    | elem t =>
      simp only [step, ho2, Bool.not_true, Bool.false_eq_true, if_false]
      split
      · exact hemit _ _ hinv
      · exact hinv
    | size k' n =>
      simp only [step, ho1, Bool.not_true, Bool.false_eq_true, if_false]
      split
      · exact hemit _ _ hinv
      · exact hinv

theorem forceLoop_noop {V} (s : St V) (ks : List Tag) (h : ∀ k ∈ ks, k ∈ s.completed) : forceLoop s ks = s := by
  induction ks with
  | nil => rfl
  | cons k ks ih =>
    simp only [forceLoop, h k (by simp), if_true]
    exact ih (fun x hx => h x (List.mem_cons_of_mem _ hx))

/-- the two termination tokens after the data: nothing more is emitted when every key completed -/
theorem terms_after {V} (d : Nat) (s : St V) (ho : BothOpen s) (hall : ∀ k ∈ s.keys, k ∈ s.completed)
    (pa pb : PortId) (hab : pa ≠ pb) (sa sb : Status) :
    let s' := step d (step d s (.term pa sa)) (.term pb sb)
    s'.out = s.out ∧ s'.terminated = some (getStatus (reduce2 (reduce2 s.status sa) sb) s.out.isEmpty) := by
  obtain ⟨ho1, ho2⟩ := ho
  cases pa <;> cases pb <;> first | exact absurd rfl hab | skip
  all_goals
    simp only [step, ho1, ho2, finish]
    simp
    split
    · rw [forceLoop_noop _ _ (by simpa using hall)]; simp
    · simp

/-! ### lists of pairs with distinct first components -/

theorem filter_fst_eq_of_map {α} (l : List (Tag × α)) (k : Tag) (x : α)
    (h : (l.filter (fun o => o.1 = k)).map (·.2) = [x]) : l.filter (fun o => o.1 = k) = [(k, x)] := by
  have hall : ∀ o ∈ l.filter (fun o => o.1 = k), o.1 = k := by
    intro o ho; simpa using (List.mem_filter.mp ho).2
  cases hf : l.filter (fun o => o.1 = k) with
  | nil => rw [hf] at h; simp at h
  | cons o r =>
    rw [hf] at h hall
    cases r with
    | nil =>
      simp at h
      have := hall o (by simp)
      cases o; simp_all
    | cons o' r' => simp at h

theorem nodup_of_filter_fst {α} (l : List (Tag × α)) (h : ∀ k, (l.filter (fun o => o.1 = k)).length ≤ 1) : l.Nodup := by
  induction l with
  | nil => exact List.nodup_nil
  | cons o l ih =>
    refine List.nodup_cons.mpr ⟨?_, ih ?_⟩
    · intro hmem
      have := h o.1
      have h2 : o ∈ l.filter (fun x => x.1 = o.1) := List.mem_filter.mpr ⟨hmem, by simp⟩
      simp only [List.filter_cons, decide_true, if_true, List.length_cons] at this
      have := List.length_pos_of_mem h2
      omega
    · intro k
      have := h k
      simp only [List.filter_cons] at this
      split at this
      · simp only [List.length_cons] at this; omega
      · exact this

theorem nodup_of_nodup_fst {α} (l : List (Tag × α)) (h : (l.map (·.1)).Nodup) : l.Nodup := by
  induction l with
  | nil => exact List.nodup_nil
  | cons x l ih =>
    simp only [List.map_cons, List.nodup_cons, List.mem_map, not_exists, not_and] at h
    exact List.nodup_cons.mpr ⟨fun hx => h.1 x hx rfl, ih h.2⟩

theorem eq_of_mem_nodup_fst {α} {l : List (Tag × α)} (h : (l.map (·.1)).Nodup) {a b : Tag × α}
    (ha : a ∈ l) (hb : b ∈ l) (hab : a.1 = b.1) : a = b := by
  induction l with
  | nil => cases ha
  | cons x l ih =>
    simp only [List.map_cons, List.nodup_cons, List.mem_map, not_exists, not_and] at h
    rcases List.mem_cons.mp ha with rfl | ha' <;> rcases List.mem_cons.mp hb with rfl | hb'
    · rfl
    · exact absurd hab.symm (h.1 b hb')
    · exact absurd hab (h.1 a ha')
    · exact ih h.2 ha' hb'

end SFV.Gather
