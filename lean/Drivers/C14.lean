import SFV.Model.HWProto
open SFV SFV.HW SFV.HWProto SFV.Proto

def bin (f : Hardware → Hardware → Except Err Hardware) (a b : String) : String :=
  match parseHw a, parseHw b with
  | some x, some y => resStr hwStr (f x y)
  | _, _ => "bad-op"

def sbin (f : Storage → Storage → Except Err Storage) (a b : String) : String :=
  match parseStorage a, parseStorage b with
  | some (k, x), some (_, y) => resStr (storageStr k) (f x y)
  | _, _ => "bad-op"

def handle : List String → String
  | ["add", a, b] => bin Hardware.add a b
  | ["sub", a, b] => bin Hardware.sub a b
  | ["or", a, b] => bin Hardware.or a b
  | ["addsub", a, b] => bin (fun x y => x.add y >>= fun s => s.sub y) a b
  | ["subadd", a, b] => bin (fun x y => x.sub y >>= fun s => s.add y) a b
  | ["norm", a] =>
      match parseHw a with
      | some x => resStr hwStr x.normalized
      | none => "bad-op"
  | ["isnorm", a] =>
      match parseHw a with
      | some x => toString x.isNormalized
      | none => "bad-op"
  | ["sat", a, b] =>
      match parseHw a, parseHw b with
      | some x, some y => resStr toString (x.satisfies y)
      | _, _ => "bad-op"
  | ["mk", c, m] =>
      match parseRat c, parseRat m with
      | some c, some m => hwStr (mkHardware c m [])
      | _, _ => "bad-op"
  | ["getmp", a, p] =>
      match parseHw a, p.toNat? with
      | some x, some p => resStr toString (x.getMountPoint p)
      | _, _ => "bad-op"
  | ["total", a, m] =>
      match parseHw a, m.toNat? with
      | some x, some m => ratStr (mountTotal x.storage m)
      | _, _ => "bad-op"
  | ["snew", m, sz] =>
      match m.toNat?, parseRat sz with
      | some m, some sz => resStr (storageStr m) (mkStorage m sz [] none)
      | _, _ => "bad-op"
  | ["sadd", a, b] => sbin Storage.add a b
  | ["ssub", a, b] => sbin Storage.sub a b
  | ["sor", a, b] => sbin Storage.or a b
  | ["sior", a, b] => sbin Storage.ior a b
  | _ => "bad-op"

def main : IO Unit := runPure handle
