import SFV.Lemmas.Tar
/-! # C23 — tar-stream copies are exact or fail, however the stream is chunked

Property theorems only. Models: `SFV/Model/Bytes.lean` (chunked streams, every chunking policy),
`SFV/Model/Tar.lean` (block structure, offsets, read loops of `aiotarstream`). -/
namespace SFV.C23
open SFV.Bytes SFV.Tar

/-- **The looping read is exact for every chunking policy**: `TellableStreamWrapper.read(size)` returns exactly the next
    `min size remaining` bytes, leaves exactly the rest, whatever the underlying stream returns per raw read. -/
theorem tellRead_exact (size : Nat) (r : Raw) :
    (tellRead size r).1 = r.data.take size ∧ (tellRead size r).2.data = r.data.drop size :=
  ⟨(tellRead_exact' size r).1, (tellRead_exact' size r).2.1⟩

/-- `read` advances `position` by the number of bytes returned -/
theorem read_position (s : Reader) (size : Nat) :
    (s.read size).2.pos = s.pos + min size s.raw.data.length := by
  simp [Reader.read, tellRead_eq, List.length_take]

/-- **`seek` is exact for every chunking policy** (the code as it is now, after commit 3419471): after `seek(off)`
    with `off ≥ position`, the position is `off` and the next byte of the stream is byte `off` of the original stream. -/
theorem seek_exact (s : Reader) (off : Nat) (h : s.pos ≤ off) :
    ∃ s', s.seek off = some s' ∧ s'.pos = off ∧ s'.raw.data = s.raw.data.drop (off - s.pos) ∧
      s'.raw.policy = s.raw.policy := by
  have := seek_mk s.raw.data s.raw.policy s.pos off h
  have e : mkReader s.raw.data s.raw.policy s.pos = s := by cases s; rename_i raw pos; cases raw; rfl
  rw [e] at this
  exact ⟨_, this, rfl, rfl, rfl⟩

/-- seeking backwards is refused -/
theorem seek_backward (s : Reader) (off : Nat) (h : off < s.pos) : s.seek off = none := by
  have := seek_mk_back s.raw.data s.raw.policy s.pos off h
  have e : mkReader s.raw.data s.raw.policy s.pos = s := by cases s; rename_i raw pos; cases raw; rfl
  rwa [e] at this

/-- a policy that hands out at most 3 bytes per raw read -/
def shortPolicy : Nat → Nat → Nat := fun _ _ => 3

/-- the one-raw-read `seek` (the code before the fix) under-skips on short reads: positions and data disagree -/
theorem seek_once_false :
    ∃ s' , (mkReader ((List.range 10).map UInt8.ofNat) shortPolicy 0).seekOnce 5 = some s' ∧ s'.pos = 5 ∧
      s'.raw.data ≠ ((List.range 10).map UInt8.ofNat).drop 5 := by
  refine ⟨_, rfl, rfl, ?_⟩
  decide

/-- **write ∘ read = identity for every member list and every chunking policy** (regular members whose header the codec
    can represent; contents of any size: empty, shorter than a block, multiples of 512, large). -/
theorem read_write_roundtrip (c : Codec) (ms : List Member) (p : Nat → Nat → Nat)
    (hv : ∀ m ∈ ms, MValid c m) :
    readArchive c.dec { data := writeArchive c ms, policy := p } = .ok ms := by
  unfold readArchive
  have hlen : (writeArchive c ms).length = (writeMembers c ms).length + 1024 +
      (10240 - ((writeMembers c ms).length + 1024) % 10240) % 10240 := by
    simp only [writeArchive, closing, List.length_append, zeros_length]; omega
  have hge := writeMembers_length_ge c ms
  have hf : (writeArchive c ms).length / 512 + 1 = ms.length + ((writeArchive c ms).length / 512 + 1 - ms.length) := by
    have : ms.length ≤ (writeArchive c ms).length / 512 := by
      rw [Nat.le_div_iff_mul_le (by decide)]; omega
    omega
  have hk : 1 ≤ (writeArchive c ms).length / 512 + 1 - ms.length := by
    have : ms.length ≤ (writeArchive c ms).length / 512 := by
      rw [Nat.le_div_iff_mul_le (by decide)]; omega
    omega
  show readMembers c.dec _ (mkReader (writeArchive c ms) p 0) 0 [] = _
  rw [hf]
  show readMembers c.dec _ (mkReader (writeMembers c ms ++ closing (writeMembers c ms).length) p 0) 0 [] = _
  rw [readMembers_peel c p _ (closing (writeMembers c ms).length) ms 0 [] hv]
  obtain ⟨k, hk'⟩ : ∃ k, (writeArchive c ms).length / 512 + 1 - ms.length = k + 1 := ⟨_, (Nat.succ_pred_eq_of_pos hk).symm⟩
  rw [hk']
  simp only [Nat.zero_add, List.nil_append]
  have hs := seek_mk (closing (writeMembers c ms).length) p (writeMembers c ms).length (writeMembers c ms).length (Nat.le_refl _)
  simp only [Nat.sub_self, List.drop_zero] at hs
  have ht : (closing (writeMembers c ms).length).take 512 = zeros 512 := by
    rw [closing_eq]; exact List.take_left' (zeros_length 512)
  simp only [readMembers, hs, read_mk, ht, classify_zeros]

/-- the extracted members do not depend on how the stream is chunked -/
theorem read_policy_independent (dec : Dec) (data : List Byte) (p p' : Nat → Nat → Nat) :
    readArchive dec { data := data, policy := p } = readArchive dec { data := data, policy := p' } :=
  readMembers_policy dec p p' _ data 0 0 []

/-- **Truncation at a member boundary is accepted silently** (known finding): a stream that ends right after the blocks
    of `ms` — the remaining members and the end-of-archive marker are missing — reads as a complete archive `ms`. -/
theorem truncated_at_boundary_silent (c : Codec) (ms : List Member) (p : Nat → Nat → Nat) (hne : ms ≠ [])
    (hv : ∀ m ∈ ms, MValid c m) :
    readArchive c.dec { data := writeMembers c ms, policy := p } = .ok ms := by
  unfold readArchive
  have hge := writeMembers_length_ge c ms
  have hle : ms.length ≤ (writeMembers c ms).length / 512 := by
    rw [Nat.le_div_iff_mul_le (by decide)]; omega
  have hf : (writeMembers c ms).length / 512 + 1 = ms.length + ((writeMembers c ms).length / 512 + 1 - ms.length) := by omega
  show readMembers c.dec _ (mkReader (writeMembers c ms) p 0) 0 [] = _
  have hwm : writeMembers c ms = writeMembers c ms ++ [] := by simp
  rw [hf]
  conv => lhs; arg 3; rw [hwm]
  rw [readMembers_peel c p _ [] ms 0 [] hv]
  simp only [Nat.zero_add, List.nil_append]
  have hpos : (writeMembers c ms).length ≠ 0 := by
    cases ms with
    | nil => exact absurd rfl hne
    | cons m r => simp only [List.length_cons] at hge; omega
  rw [readMembers_at_end c.dec p _ _ _ hpos]

/-- **Truncation inside a member's data yields a partial file, silently** (known finding): the stream ends after `j` of
    the member's bytes; the member is extracted with those `j` bytes and no error is raised. -/
theorem truncated_in_data_silent (c : Codec) (ms : List Member) (m : Member) (j : Nat) (p : Nat → Nat → Nat)
    (hv : ∀ x ∈ ms, MValid c x) (hm : c.valid m.name m.data.length) (hj : j < m.data.length) :
    readArchive c.dec { data := writeMembers c ms ++ (c.enc m.name m.data.length ++ m.data.take j), policy := p }
      = .ok (ms ++ [{ name := m.name, data := m.data.take j }]) := by
  unfold readArchive
  have hge := writeMembers_length_ge c ms
  have hlen : (writeMembers c ms ++ (c.enc m.name m.data.length ++ m.data.take j)).length
      = (writeMembers c ms).length + 512 + j := by
    simp [c.enc_len, List.length_take]; omega
  have hle : ms.length + 1 ≤ (writeMembers c ms ++ (c.enc m.name m.data.length ++ m.data.take j)).length / 512 := by
    rw [Nat.le_div_iff_mul_le (by decide), hlen]; omega
  obtain ⟨k, hk⟩ : ∃ k, (writeMembers c ms ++ (c.enc m.name m.data.length ++ m.data.take j)).length / 512 + 1
      = ms.length + (k + 2) :=
    ⟨(writeMembers c ms ++ (c.enc m.name m.data.length ++ m.data.take j)).length / 512 + 1 - ms.length - 2, by omega⟩
  show readMembers c.dec _ (mkReader _ p 0) 0 [] = _
  rw [hk, readMembers_peel c p _ (c.enc m.name m.data.length ++ m.data.take j) ms 0 [] hv]
  simp only [Nat.zero_add, List.nil_append]
  have hs := seek_mk (c.enc m.name m.data.length ++ m.data.take j) p (writeMembers c ms).length
    (writeMembers c ms).length (Nat.le_refl _)
  simp only [Nat.sub_self, List.drop_zero] at hs
  have ht : (c.enc m.name m.data.length ++ m.data.take j).take 512 = c.enc m.name m.data.length :=
    List.take_left' (c.enc_len _ _)
  have hd : (c.enc m.name m.data.length ++ m.data.take j).drop 512 = m.data.take j :=
    List.drop_left' (c.enc_len _ _)
  have htt : (m.data.take j).take m.data.length = m.data.take j := by
    rw [List.take_take]; congr 1; omega
  have hdd : (m.data.take j).drop m.data.length = [] := by
    apply List.drop_eq_nil_of_le; simp [List.length_take]; omega
  simp only [readMembers, hs, read_mk, ht, hd, classify_enc c _ _ hm, htt, hdd, mkReader_pos, c.enc_len]
  -- the next `next()`: seek past the (missing) padding, read nothing, end silently
  have hlt : (writeMembers c ms).length + 512 + (m.data.take j).length
      ≤ (writeMembers c ms).length + 512 + blockLen m.data.length := by
    simp [List.length_take, blockLen]; omega
  have hs2 := seek_mk [] p _ _ hlt
  simp only [List.drop_nil, List.length_take] at hs2
  cases k with
  | zero => simp [hs2, read_mk, classify]
  | succ k => simp [hs2, read_mk, classify]

/-- **a stream that ends right after a GNU long-name record fails** (here the code is right: `_proc_gnulong` turns the missing
    header into `SubsequentHeaderError`, which `next()` re-raises as `ReadError` at any offset) -/
theorem truncated_after_longname_fails (c : Codec) (ms : List Member) (name : List Byte) (p : Nat → Nat → Nat)
    (hv : ∀ x ∈ ms, MValid c x) (hl : 100 < name.length) (hgnu : c.pax = false) (hvl : c.validLong (name.length + 1)) :
    readArchive c.dec { data := writeMembers c ms ++ longRecord c name, policy := p } = .error := by
  unfold readArchive
  have hge := writeMembers_length_ge c ms
  have hnot : ¬ name.length ≤ 100 := by omega
  have hlr : longRecord c name = c.encLong (name.length + 1) ++ (name ++ [0] ++ zeros (padLen (name.length + 1))) := by
    simp [longRecord, hnot, hgnu]
  have hnbl : (name ++ [0] ++ zeros (padLen (name.length + 1))).length = blockLen (name.length + 1) := by
    simp only [List.length_append, zeros_length, List.length_cons, List.length_nil, blockLen]
  have hlen : (writeMembers c ms ++ longRecord c name).length = (writeMembers c ms).length + 512 + blockLen (name.length + 1) := by
    rw [List.length_append, hlr, List.length_append, c.encLong_len, hnbl]; omega
  have hle : ms.length + 1 ≤ (writeMembers c ms ++ longRecord c name).length / 512 := by
    rw [Nat.le_div_iff_mul_le (by decide), hlen]; omega
  obtain ⟨k, hk⟩ : ∃ k, (writeMembers c ms ++ longRecord c name).length / 512 + 1 = ms.length + (k + 1) :=
    ⟨(writeMembers c ms ++ longRecord c name).length / 512 + 1 - ms.length - 1, by omega⟩
  show readMembers c.dec _ (mkReader _ p 0) 0 [] = _
  rw [hk, readMembers_peel c p _ (longRecord c name) ms 0 [] hv, hlr]
  simp only [Nat.zero_add, List.nil_append]
  have hs := seek_mk (c.encLong (name.length + 1) ++ (name ++ [0] ++ zeros (padLen (name.length + 1)))) p
    (writeMembers c ms).length (writeMembers c ms).length (Nat.le_refl _)
  simp only [Nat.sub_self, List.drop_zero] at hs
  have t0 : (c.encLong (name.length + 1) ++ (name ++ [0] ++ zeros (padLen (name.length + 1)))).take 512
      = c.encLong (name.length + 1) := List.take_left' (c.encLong_len _)
  have d0 : (c.encLong (name.length + 1) ++ (name ++ [0] ++ zeros (padLen (name.length + 1)))).drop 512
      = name ++ [0] ++ zeros (padLen (name.length + 1)) := List.drop_left' (c.encLong_len _)
  have dn : (name ++ [0] ++ zeros (padLen (name.length + 1))).drop (blockLen (name.length + 1)) = [] :=
    List.drop_eq_nil_of_le (by rw [hnbl]; exact Nat.le_refl _)
  simp only [readMembers, hs, read_mk, t0, d0, classify_encLong c _ hvl, dn, List.take_nil]
  simp [classify]

/-- the same for a pax extended header: a stream that ends right after the records block fails -/
theorem truncated_after_pax_header_fails (c : Codec) (ms : List Member) (name : List Byte) (p : Nat → Nat → Nat)
    (hv : ∀ x ∈ ms, MValid c x) (hl : 100 < name.length) (hpax : c.pax = true) (hvp : c.validPax (paxPayload c name).length) :
    readArchive c.dec { data := writeMembers c ms ++ longRecord c name, policy := p } = .error := by
  unfold readArchive
  have hge := writeMembers_length_ge c ms
  have hnot : ¬ name.length ≤ 100 := by omega
  have hlr : longRecord c name = c.encPax (paxPayload c name).length ++ (paxPayload c name ++ zeros (padLen (paxPayload c name).length)) := by
    simp [longRecord, hnot, hpax]
  have hnbl : (paxPayload c name ++ zeros (padLen (paxPayload c name).length)).length = blockLen (paxPayload c name).length := by
    simp only [List.length_append, zeros_length, blockLen]
  have hlen : (writeMembers c ms ++ longRecord c name).length = (writeMembers c ms).length + 512 + blockLen (paxPayload c name).length := by
    rw [List.length_append, hlr, List.length_append, c.encPax_len, hnbl]; omega
  have hle : ms.length + 1 ≤ (writeMembers c ms ++ longRecord c name).length / 512 := by
    rw [Nat.le_div_iff_mul_le (by decide), hlen]; omega
  obtain ⟨k, hk⟩ : ∃ k, (writeMembers c ms ++ longRecord c name).length / 512 + 1 = ms.length + (k + 1) :=
    ⟨(writeMembers c ms ++ longRecord c name).length / 512 + 1 - ms.length - 1, by omega⟩
  show readMembers c.dec _ (mkReader _ p 0) 0 [] = _
  rw [hk, readMembers_peel c p _ (longRecord c name) ms 0 [] hv, hlr]
  simp only [Nat.zero_add, List.nil_append]
  have hs := seek_mk (c.encPax (paxPayload c name).length ++ (paxPayload c name ++ zeros (padLen (paxPayload c name).length))) p
    (writeMembers c ms).length (writeMembers c ms).length (Nat.le_refl _)
  simp only [Nat.sub_self, List.drop_zero] at hs
  have t0 : (c.encPax (paxPayload c name).length ++ (paxPayload c name ++ zeros (padLen (paxPayload c name).length))).take 512
      = c.encPax (paxPayload c name).length := List.take_left' (c.encPax_len _)
  have d0 : (c.encPax (paxPayload c name).length ++ (paxPayload c name ++ zeros (padLen (paxPayload c name).length))).drop 512
      = paxPayload c name ++ zeros (padLen (paxPayload c name).length) := List.drop_left' (c.encPax_len _)
  have dn : (paxPayload c name ++ zeros (padLen (paxPayload c name).length)).drop (blockLen (paxPayload c name).length) = [] :=
    List.drop_eq_nil_of_le (by rw [hnbl]; exact Nat.le_refl _)
  simp only [readMembers, hs, read_mk, t0, d0, classify_encPax c _ hvp, dn, List.take_nil]
  simp [classify]

/-- the full-strength statement "every proper prefix of an archive makes the read fail" is FALSE of the code -/
theorem truncation_fails_false (c : Codec) (m : Member) (p : Nat → Nat → Nat) (hm : MValid c m) :
    ¬ (∀ n, n < (writeArchive c [m, m]).length →
        readArchive c.dec { data := (writeArchive c [m, m]).take n, policy := p } = .error) := by
  intro h
  have hcut : (writeArchive c [m, m]).take (writeMembers c [m]).length = writeMembers c [m] := by
    have : writeArchive c [m, m] = writeMembers c [m] ++ (writeMembers c [m] ++ closing (writeMembers c [m, m]).length) := by
      simp [writeArchive, writeMembers, List.append_assoc]
    rw [this]; exact List.take_left' rfl
  have hlt : (writeMembers c [m]).length < (writeArchive c [m, m]).length := by
    simp [writeArchive, writeMembers, closing, zeros_length, encMember_length]; omega
  have := h _ hlt
  rw [hcut, truncated_at_boundary_silent c [m] p (by simp) (by simpa using hm)] at this
  cases this

/-- what does hold: a stream cut inside the *first* header block (or empty) fails -/
theorem truncation_first_header_partial (dec : Dec) (data : List Byte) (p : Nat → Nat → Nat) (h : data.length < 512) :
    readArchive dec { data := data, policy := p } = .error := by
  unfold readArchive
  have hf : data.length / 512 + 1 = 0 + 1 := by
    have : data.length / 512 = 0 := Nat.div_eq_of_lt h
    omega
  show readMembers dec _ (mkReader data p 0) 0 [] = _
  rw [hf]
  have hs := seek_mk data p 0 0 (Nat.le_refl _)
  simp only [Nat.sub_self, List.drop_zero] at hs
  have ht : data.take 512 = data := List.take_of_length_le (by omega)
  simp only [readMembers, hs, read_mk, ht]
  unfold classify
  by_cases h0 : data.length = 0
  · simp [h0]
  · have : data.length ≠ 512 := by omega
    simp [h0, this]

/-- `copyfileobj` of `makefile` completes in one round when the data is there (any policy) -/
theorem copy_complete (data : List Byte) (p : Nat → Nat → Nat) (pos n fuel : Nat) (h : n ≤ data.length) :
    copyLoop (fuel + 1) (mkReader data p pos) n = some (mkReader (data.drop n) p (pos + n)) := by
  cases n with
  | zero => simp [copyLoop]
  | succ n =>
    simp only [copyLoop, read_mk]
    have : (data.take (n + 1)).length = n + 1 := by simp [List.length_take]; omega
    rw [this]
    simp [copyLoop]

/-- **the `makefile` copy loop never ends on a stream that hits EOF early** (known finding): `bufsize` is not decreased
    by an empty read — for every amount of fuel the loop is still running -/
theorem makefile_terminates_false (p : Nat → Nat → Nat) (pos n : Nat) :
    ∀ fuel, copyLoop fuel (mkReader [] p pos) (n + 1) = none := by
  intro fuel
  induction fuel with
  | zero => rfl
  | succ fuel ih => simpa [copyLoop, read_mk] using ih

/-! ### non-vacuity: a codec satisfying the assumed laws, and the theorems applied to a concrete archive -/

def toyEnc (n : List Byte) (s : Nat) : List Byte :=
  ([1, UInt8.ofNat s, UInt8.ofNat n.length] ++ n ++ zeros 512).take 512

def toyEncLong (n : Nat) : List Byte := ([2, UInt8.ofNat n] ++ zeros 512).take 512
def toyEncPax (n : Nat) : List Byte := ([3, UInt8.ofNat n] ++ zeros 512).take 512

def toyDecHdr (b : List Byte) : Option Hd :=
  match b with
  | t :: s :: l :: rest =>
      if t = 1 then some (.reg (rest.take l.toNat) s.toNat) else if t = 2 then some (.long s.toNat)
      else if t = 3 then some (.pax s.toNat) else none
  | _ => none

/-- a (non-tar) codec for names up to 254 bytes and sizes below 256, in either writer format: the laws are satisfiable -/
def toyCodec (pax : Bool) : Codec where
  pax := pax
  enc := toyEnc
  encLong := toyEncLong
  encPax := toyEncPax
  encRecs := fun rs => match rs with | [(_, v)] => v | _ => []
  dec := { hdr := toyDecHdr, recs := fun b => [(pathKey, b)] }
  valid := fun n s => n.length ≤ 100 ∧ s < 256
  validLong := fun n => n < 256
  validPax := fun n => n < 256
  enc_len := by intro n s; simp [toyEnc, List.length_take, zeros_length]
  encLong_len := by intro n; simp [toyEncLong, List.length_take, zeros_length]
  encPax_len := by intro n; simp [toyEncPax, List.length_take, zeros_length]
  dec_enc := by
    intro n s ⟨hn, hs⟩
    have toNat_ofNat : ∀ k, k < 256 → (UInt8.ofNat k).toNat = k := by
      intro k h; simp [Nat.mod_eq_of_lt h]
    simp only [toyEnc, List.cons_append, List.nil_append, List.take_succ_cons, toyDecHdr, if_true]
    rw [toNat_ofNat _ hs, toNat_ofNat _ (by omega), List.take_take]
    have : min n.length 509 = n.length := by omega
    rw [this, List.take_left' rfl]
  dec_encLong := by
    intro n hn
    have toNat_ofNat : ∀ k, k < 256 → (UInt8.ofNat k).toNat = k := by
      intro k h; simp [Nat.mod_eq_of_lt h]
    have hz : zeros 512 = 0 :: zeros 511 := rfl
    simp only [toyEncLong, List.cons_append, List.nil_append, hz, List.take_succ_cons, toyDecHdr]
    simp [toNat_ofNat _ hn]
  dec_encPax := by
    intro n hn
    have toNat_ofNat : ∀ k, k < 256 → (UInt8.ofNat k).toNat = k := by
      intro k h; simp [Nat.mod_eq_of_lt h]
    have hz : zeros 512 = 0 :: zeros 511 := rfl
    simp only [toyEncPax, List.cons_append, List.nil_append, hz, List.take_succ_cons, toyDecHdr]
    simp [toNat_ofNat _ hn]
  dec_encRecs := by intro name; rfl
  enc_nonzero := by intro n s _; simp [toyEnc, List.take_succ_cons]
  encLong_nonzero := by intro n _; simp [toyEncLong, List.take_succ_cons]
  encPax_nonzero := by intro n _; simp [toyEncPax, List.take_succ_cons]

theorem toy_members_valid (pax : Bool) :
    ∀ m ∈ [(⟨[97], [1, 2, 3]⟩ : Member), ⟨List.replicate 120 99, [7]⟩, ⟨[98], []⟩], MValid (toyCodec pax) m := by
  intro m hm
  simp only [List.mem_cons, List.mem_nil_iff, or_false] at hm
  rcases hm with rfl | rfl | rfl
  · exact ⟨by simp [toyCodec], by simp⟩
  · refine ⟨by simp [toyCodec], fun _ => ⟨fun _ => ⟨by simp [toyCodec], ?_⟩, fun _ => by simp [toyCodec, paxPayload]⟩⟩
    intro b hb
    have := List.eq_of_mem_replicate hb
    subst this; decide
  · exact ⟨by simp [toyCodec], by simp⟩

/-- a short-named member, one whose name has 120 bytes (GNU long-name record or pax extended header) FOLLOWED by another short-named
    one: all three come back with their own names, in either format and for every chunking — the extension record applies to its
    member only -/
example (pax : Bool) (p : Nat → Nat → Nat) :
    readArchive (toyCodec pax).dec
        { data := writeArchive (toyCodec pax) [⟨[97], [1, 2, 3]⟩, ⟨List.replicate 120 99, [7]⟩, ⟨[98], []⟩], policy := p }
      = .ok [⟨[97], [1, 2, 3]⟩, ⟨List.replicate 120 99, [7]⟩, ⟨[98], []⟩] :=
  read_write_roundtrip (toyCodec pax) _ p (toy_members_valid pax)

end SFV.C23
