/-! # JsDeps — the JavaScript fragment behind `resolve_dependencies`

Model of `streamflow/cwl/expression.py` (`CWLDependencyListener`, `DependencyResolver`) and of
`NamesStack` (`streamflow/core/utils.py`), next to a big-step evaluator of the same fragment that records
which fields of the `inputs` object are read.

* `Js` — one syntax tree for expressions and statements of the generated fragment.
* `listen` — the listener: a pre-order fold over the tree (ANTLR's `ParseTreeWalker` fires `enter…` before
  the children and `exit…` after them; only four `enter` handlers and one `exit` handler exist).
  The listener raises no exception any more (fix 254d061); the `Except` type is kept, no branch produces an error.
* `eval` — the evaluator (fuel = recursion depth): lexical scoping through a heap of function frames,
  closures, strict mode (assignment to an undeclared name fails), `return` as an abrupt completion.
-/
namespace SFV.JsDeps

inductive Js where
  | num (n : Nat)
  | str (s : String)
  | ident (x : String)
  | dot (e : Js) (k : String)        -- e.k
  | idx (e : Js) (i : Js)            -- e[i]   (`i = str k` is the string-literal index e['k'])
  | paren (e : Js)                   -- (e)
  | assign (x : String) (e : Js)     -- x = e  (assignment expression, identifier on the left)
  | bin (a b : Js)                   -- a + b
  | cond (c a b : Js)                -- c ? a : b
  | call (f : Js) (args : Js)        -- f(a₁, …)   args = seq a₁ (seq a₂ … skip)
  | fexpr (ps : List String) (body : Js)             -- function(ps){body}
  | skip                                             -- empty statement / end of argument list
  | seq (a b : Js)                                   -- a; b
  | varDecl (x : String)                             -- var x;
  | varInit (x : String) (e : Js)                    -- var x = e;
  | ret (e : Js)                                     -- return e;
  | ite (c t e : Js)                                 -- if (c) {t} else {e}
  | fdecl (f : String) (ps : List String) (body : Js) -- function f(ps){body}
  | loop (i : String) (k n : Nat) (body : Js)        -- for (var i = k; i < n; i++) {body}   (k = 0 in source programs)
deriving Repr, Inhabited, DecidableEq

/-! ## The listener -/

/-- `NamesStack`: `glob` is `stack[0]`, `inner` the scopes above it, innermost first. -/
structure Names where
  glob : List String
  inner : List (List String) := []
deriving Repr, DecidableEq

inductive LErr | attributeError | keyError
deriving Repr, DecidableEq

/-- `name in self.names` -/
def Names.has (n : Names) (x : String) : Bool := n.glob.contains x || n.inner.any (·.contains x)

/-- `self.names.global_names()` membership -/
def Names.isGlobal (n : Names) (x : String) : Bool := n.glob.contains x && !(n.inner.any (·.contains x))

/-- `add_name`: into the innermost scope (a set: no duplicates) -/
def Names.add (n : Names) (x : String) : Names :=
  match n.inner with
  | [] => { n with glob := if n.glob.contains x then n.glob else x :: n.glob }
  | s :: r => { n with inner := (if s.contains x then s else x :: s) :: r }

/-- `delete_name`: `stack[-1].discard(name)` — the innermost scope only, no error when the name lives in an outer
scope (fix 254d061; before it `remove` raised `KeyError`) -/
def Names.del (n : Names) (x : String) : Except LErr Names :=
  match n.inner with
  | [] => .ok { n with glob := n.glob.erase x }
  | s :: r => .ok { n with inner := s.erase x :: r }

def Names.push (n : Names) : Names := { n with inner := [] :: n.inner }
def Names.pop (n : Names) : Names := { n with inner := n.inner.tail }

/-- words for which `identifierName` has no `Identifier` token (grammar rule `reservedWord`) -/
def reservedWords : List String :=
  ["break", "do", "instanceof", "typeof", "case", "else", "new", "var", "catch", "finally", "return", "void",
   "continue", "for", "switch", "while", "debugger", "function", "this", "with", "default", "if", "throw",
   "delete", "in", "try", "class", "enum", "extends", "super", "const", "export", "import", "implements",
   "let", "private", "public", "interface", "package", "protected", "static", "yield", "null", "true", "false"]

def isReserved (k : String) : Bool := reservedWords.contains k

/-- `_get_name(ctx)`: the `Identifier` token that is a direct child — only a bare identifier has one -/
def nameOf : Js → Option String
  | .ident x => some x
  | _ => none

/-- `enterFunctionDeclaration`: parameters that are already names are re-added in the new scope -/
def shadowParams (n : Names) : List String → Names
  | [] => n
  | p :: ps => shadowParams (if n.has p then n.add p else n) ps

/-- `enterAssignmentExpression` on `x = e` -/
def onAssign (n : Names) (x : String) (e : Js) : Except LErr Names :=
  if n.has x then
    match nameOf e with
    | some y => if n.has y then .ok n else n.del x
    | none => .ok n
  else
    match nameOf e with
    | some y => if n.has y then .ok (n.add x) else .ok n
    | none => .ok n

/-- `enterMemberDotExpression`: the dependency added (if any) -/
def dotKeys (n : Names) (e : Js) (k : String) : List String :=
  match nameOf e with
  | some x => if n.isGlobal x && !isReserved k && k != "" then [k] else []
  | none => []

/-- `enterMemberIndexExpression` (after fix 254d061): only a string literal names a field statically; computed and
numeric indexes are skipped; the empty key is not added -/
def idxKeys (n : Names) (e i : Js) : Except LErr (List String) :=
  match nameOf e with
  | some x =>
      if n.isGlobal x then
        match i with
        | .str k => .ok (if k != "" then [k] else [])
        | _ => .ok []
      else .ok []
  | none => .ok []

/-- The walk: `enter…` handler, then the children in source order, then `exit…`. The listener state is the
`NamesStack`; `self.deps` is only ever added to and never read, so the walk *emits* the keys it adds. -/
def listen (n : Names) : Js → Except LErr (Names × List String)
  | .num _ | .str _ | .ident _ | .skip | .varDecl _ => .ok (n, [])
  | .dot e k => do
      let (n1, k1) ← listen n e
      .ok (n1, dotKeys n e k ++ k1)
  | .idx e i => do
      let k0 ← idxKeys n e i
      let (n1, k1) ← listen n e
      let (n2, k2) ← listen n1 i
      .ok (n2, k0 ++ k1 ++ k2)
  | .paren e => listen n e
  | .assign x e => do
      let n0 ← onAssign n x e
      listen n0 e
  | .bin a b => do
      let (n1, k1) ← listen n a
      let (n2, k2) ← listen n1 b
      .ok (n2, k1 ++ k2)
  | .cond c a b => do
      let (n1, k1) ← listen n c
      let (n2, k2) ← listen n1 a
      let (n3, k3) ← listen n2 b
      .ok (n3, k1 ++ k2 ++ k3)
  | .call f args => do
      let (n1, k1) ← listen n f
      let (n2, k2) ← listen n1 args
      .ok (n2, k1 ++ k2)
  | .fexpr _ body => listen n body          -- function *expressions* open no scope
  | .seq a b => do
      let (n1, k1) ← listen n a
      let (n2, k2) ← listen n1 b
      .ok (n2, k1 ++ k2)
  | .varInit _ e => listen n e              -- `var x = e` is not an assignment expression
  | .ret e => listen n e
  | .ite c t e => do
      let (n1, k1) ← listen n c
      let (n2, k2) ← listen n1 t
      let (n3, k3) ← listen n2 e
      .ok (n3, k1 ++ k2 ++ k3)
  | .fdecl _ ps body => do
      let (n1, k1) ← listen (shadowParams n.push ps) body
      .ok (n1.pop, k1)
  | .loop _ _ _ body => listen n body      -- the body is walked ONCE; `var i = 0`, `i < n`, `i++` fire no handler

def initNames : Names := { glob := ["inputs"] }

/-- `DependencyResolver.eval` on a whole fragment: dependency set or the Python exception -/
def resolve (prog : Js) : Except LErr (List String) := (listen initNames prog).map (·.2.eraseDups)

/-! ## Parameter references (`DependencyResolver.regex_eval`) -/

/-- a segment of a parameter reference after the first symbol -/
inductive Seg where
  | dot (k : String)       -- .k
  | key (k : String)       -- ['k'] / ["k"]   (already unescaped by `_extract_key`)
  | index (n : Nat)        -- [n]
deriving Repr, DecidableEq

/-- `regex_eval(parsed_string, remaining_string, current_value)` with `current_value = {}` (what
`resolve_dependencies` passes): only the first segment after the context key matters -/
def paramDeps (contextKey first : String) (segs : List Seg) : List String :=
  if first ≠ contextKey then [] else
  match segs with
  | [] => []
  | .dot k :: _ => if k = "" then [] else [k]
  | .key k :: _ => if k = "" then [] else [k]
  | .index _ :: _ => []

/-- value shapes for the reference evaluator of parameter references -/
inductive PVal where
  | prim
  | arr (items : List PVal)
  | obj (fields : List (String × PVal))
deriving Repr

/-- the reference semantics (`cwl_utils` `regex_eval`): walk the segments; `none` = `WorkflowException`.
Returns the fields of the *root* object that were read (at most the first segment's key). -/
def paramWalk : PVal → List Seg → Option Unit
  | _, [] => some ()
  | .obj fs, .dot k :: r => match fs.lookup k with | some v => paramWalk v r | none => none
  | .obj fs, .key k :: r => match fs.lookup k with | some v => paramWalk v r | none => none
  | .arr _, [.dot "length"] => some ()
  | .arr items, .index n :: r => match items[n]? with | some v => paramWalk v r | none => none
  | _, _ => none

/-- fields of the root object read by the reference walk -/
def paramReads : List Seg → List String
  | .dot k :: _ => [k]
  | .key k :: _ => [k]
  | _ => []

/-! ## Interpolated strings

`cwl_utils.expression.interpolate` scans a string for `$(…)` / `${…}` placeholders and hands each to the SAME
`DependencyResolver`: parameter references go to `regex_eval`, everything else to `eval`, and both add to one set
(`self.deps.add`, `self.deps |= listener.deps`). -/

/-- a placeholder of an interpolated string -/
inductive Part where
  | ref (first : String) (segs : List Seg)   -- `$(sym.seg…)`, routed to `regex_eval`
  | js (prog : Js)                           -- `$(expr)` / `${body}`, routed to `eval`

def partDeps (ck : String) : Part → Except LErr (List String)
  | .ref f segs => .ok (paramDeps ck f segs)
  | .js prog => resolve prog

/-- the dependency set of a whole string: the union over its placeholders -/
def interpDeps (ck : String) : List Part → Except LErr (List String)
  | [] => .ok []
  | p :: r => do
      let a ← partDeps ck p
      let b ← interpDeps ck r
      .ok (a ++ b)

/-! ## The evaluator -/

inductive Val where
  | undef
  | num (n : Nat)
  | str (s : String)
  | inp                                   -- the `inputs` object itself
  | obj                                   -- any other object (a field value, a nested value)
  | clo (ps : List String) (body : Js) (scope : List Nat)
deriving Repr, Inhabited, DecidableEq

abbrev Frame := List (String × Val)

structure St where
  heap : List Frame            -- frame id = position
  reads : List String          -- fields of `inputs` read so far (most recent first)
deriving Repr

inductive Res where
  | normal (v : Val)
  | returned (v : Val)
deriving Repr, DecidableEq

def Res.val : Res → Val
  | .normal v => v
  | .returned v => v

def frameAt (h : List Frame) (f : Nat) : Frame := h.getD f []

def lookupVar (h : List Frame) : List Nat → String → Option Val
  | [], _ => none
  | f :: rest, x => ((frameAt h f).lookup x).or (lookupVar h rest x)

def setVar (fr : Frame) (x : String) (v : Val) : Frame :=
  match fr with
  | [] => [(x, v)]
  | (y, w) :: r => if y = x then (y, v) :: r else (y, w) :: setVar r x v

/-- strict mode: assigning to a name no enclosing function declares is a ReferenceError (`none`) -/
def assignVar (h : List Frame) : List Nat → String → Val → Option (List Frame)
  | [], _, _ => none
  | f :: rest, x, v =>
      match (frameAt h f).lookup x with
      | some _ => some (h.set f (setVar (frameAt h f) x v))
      | none => assignVar h rest x v

/-- `var x` / `var x = v` / `function x(){}` in the function frame `f` -/
def declareVar (h : List Frame) (f : Nat) (x : String) (v : Option Val) : List Frame :=
  let fr := frameAt h f
  match fr.lookup x, v with
  | some _, none => h
  | _, some w => h.set f (setVar fr x w)
  | none, none => h.set f (setVar fr x .undef)

def truthy : Val → Bool
  | .undef => false
  | .num n => n != 0
  | .str s => s != ""
  | _ => true

/-- property key of a computed index (`none`: never generated — `inputs` itself as a key would call
`toString` on the recording proxy) -/
def keyOf : Val → Option String
  | .str s => some s
  | .num n => some (toString n)
  | .obj => some "[object Object]"
  | .undef => some "undefined"
  | _ => none

def record (st : St) (k : String) : St := { st with reads := k :: st.reads }

/-- `v.k` / `v[k]`: reading a property. `undefined.k` is a TypeError. Field values of `inputs` and their
nested values are objects; strings and numbers have no own fields of interest. -/
def getProp (st : St) (v : Val) (k : String) : Option (Val × St) :=
  match v with
  | .inp => some (.obj, record st k)
  | .obj => some (.obj, st)
  | .undef => none
  | _ => some (.undef, st)

def plus : Val → Val → Option Val
  | .num a, .num b => some (.num (a + b))
  | .str a, .str b => some (.str (a ++ b))
  | .str a, .num b => some (.str (a ++ toString b))
  | .num a, .str b => some (.str (toString a ++ b))
  | _, _ => none

def bindParams : List String → List Val → Frame
  | [], _ => []
  | p :: ps, [] => (p, .undef) :: bindParams ps []
  | p :: ps, v :: vs => (p, v) :: bindParams ps vs

mutual
/-- big-step evaluation in scope chain `sc` (innermost frame first); `none` = a JavaScript exception or
fuel exhausted -/
def eval : Nat → List Nat → Js → St → Option (Res × St)
  | 0, _, _, _ => none
  | fuel + 1, sc, e, st =>
    match e with
    | .num n => some (.normal (.num n), st)
    | .str s => some (.normal (.str s), st)
    | .ident x => match lookupVar st.heap sc x with
        | some v => some (.normal v, st)
        | none => none
    | .dot e k => match eval fuel sc e st with
        | some (r, st1) => match getProp st1 r.val k with
            | some (v, st2) => some (.normal v, st2)
            | none => none
        | none => none
    | .idx e i => match eval fuel sc e st with
        | some (r, st1) => match eval fuel sc i st1 with
            | some (ri, st2) => match keyOf ri.val with
                | some k => match getProp st2 r.val k with
                    | some (v, st3) => some (.normal v, st3)
                    | none => none
                | none => none
            | none => none
        | none => none
    | .paren e => eval fuel sc e st
    | .assign x e => match eval fuel sc e st with
        | some (r, st1) => match assignVar st1.heap sc x r.val with
            | some h => some (.normal r.val, { st1 with heap := h })
            | none => none
        | none => none
    | .bin a b => match eval fuel sc a st with
        | some (ra, st1) => match eval fuel sc b st1 with
            | some (rb, st2) => match plus ra.val rb.val with
                | some v => some (.normal v, st2)
                | none => none
            | none => none
        | none => none
    | .cond c a b => match eval fuel sc c st with
        | some (rc, st1) => if truthy rc.val then eval fuel sc a st1 else eval fuel sc b st1
        | none => none
    | .call f args => match eval fuel sc f st with
        | some (rf, st1) => match rf.val with
            | .clo ps body csc => match evalArgs fuel sc args st1 with
                | some (vs, st2) =>
                    let fid := st2.heap.length
                    match eval fuel (fid :: csc) body { st2 with heap := st2.heap ++ [bindParams ps vs] } with
                    | some (.returned v, st3) => some (.normal v, st3)
                    | some (.normal _, st3) => some (.normal .undef, st3)
                    | none => none
                | none => none
            | _ => none
        | none => none
    | .fexpr ps body => some (.normal (.clo ps body sc), st)
    | .skip => some (.normal .undef, st)
    | .seq a b => match eval fuel sc a st with
        | some (.returned v, st1) => some (.returned v, st1)
        | some (.normal _, st1) => eval fuel sc b st1
        | none => none
    | .varDecl x => some (.normal .undef, { st with heap := declareVar st.heap (sc.headD 0) x none })
    | .varInit x e => match eval fuel sc e st with
        | some (r, st1) => some (.normal .undef, { st1 with heap := declareVar st1.heap (sc.headD 0) x (some r.val) })
        | none => none
    | .ret e => match eval fuel sc e st with
        | some (r, st1) => some (.returned r.val, st1)
        | none => none
    | .ite c t e => match eval fuel sc c st with
        | some (rc, st1) => if truthy rc.val then eval fuel sc t st1 else eval fuel sc e st1
        | none => none
    | .fdecl f ps body =>
        some (.normal .undef, { st with heap := declareVar st.heap (sc.headD 0) f (some (.clo ps body sc)) })
    | .loop i k n body =>
        if n ≤ k then some (.normal .undef, { st with heap := declareVar st.heap (sc.headD 0) i (some (.num n)) })
        else match eval fuel sc body { st with heap := declareVar st.heap (sc.headD 0) i (some (.num k)) } with
          | some (.returned v, st1) => some (.returned v, st1)
          | some (.normal _, st1) => eval fuel sc (.loop i (k + 1) n body) st1
          | none => none

/-- argument lists are `seq a (seq b … skip)`, evaluated left to right -/
def evalArgs : Nat → List Nat → Js → St → Option (List Val × St)
  | 0, _, _, _ => none
  | fuel + 1, sc, args, st =>
    match args with
    | .seq a rest => match eval fuel sc a st with
        | some (r, st1) => match evalArgs fuel sc rest st1 with
            | some (vs, st2) => some (r.val :: vs, st2)
            | none => none
        | none => none
    | _ => some ([], st)
end

/-- frame 0: the globals `cwl_utils` puts in front of the fragment (`var inputs = …`); frame 1: the wrapper
`(function(){ … })()` every fragment is evaluated in -/
def initSt : St := { heap := [[("inputs", .inp)], []], reads := [] }

/-- run a whole fragment; result: the fields of `inputs` read (duplicates removed, first-read order) -/
def run (fuel : Nat) (prog : Js) : Option (List String) :=
  match eval fuel [1, 0] prog initSt with
  | some (_, st) => some st.reads.reverse.eraseDups
  | none => none

/-- fields of `inputs` a placeholder reads when evaluated -/
def partReads (fuel : Nat) : Part → Option (List String)
  | .ref f segs => some (if f = "inputs" then paramReads segs else [])
  | .js prog => run fuel prog

def interpReads (fuel : Nat) : List Part → Option (List String)
  | [] => some []
  | p :: r =>
      match partReads fuel p, interpReads fuel r with
      | some a, some b => some (a ++ b)
      | _, _ => none

/-! ## The fragment the listener handles (hypothesis of `deps_sound_partial`)

Decidable description of the programs on which the analysis is sound. `inputs` (or a variable the listener
tracks as an alias of it) occurs only
* as the object of `.k` (k not a reserved word) or `['k']`,
* as the whole right-hand side of a plain assignment statement `x = alias` at the top level of the fragment.
Everything else is an expression that cannot evaluate to the `inputs` object. Function declarations and
function expressions are allowed at the top level of the fragment; their bodies use their parameters, their own
`var`s and the alias names known at the point of declaration (parameter shadowing included). -/
namespace Frag

/-- an expression in *value position*: it never evaluates to the `inputs` object.
`loc`: parameters and `var`s of the enclosing function body (`[]` at the top level); `top`: at the top level
of the fragment (calls and function expressions allowed, other variables may be mentioned). -/
def pureOk (n : Names) (loc : List String) (top : Bool) (bodyOk : Names → List String → Js → Bool) : Js → Bool
  | .num _ | .str _ => true
  | .ident x => loc.contains x || (top && !n.has x)
  | .dot e k =>
      match nameOf e with
      | some x =>
          if loc.contains x then true
          else if n.isGlobal x then !isReserved k && k != ""
          else top && !n.has x
      | none => pureOk n loc top bodyOk e
  | .idx e i =>
      match nameOf e with
      | some x =>
          if loc.contains x then
            -- (a local that shares its name with an alias: the listener still looks at the index)
            (if n.isGlobal x then (match i with | .str _ => true | _ => false) else true) && pureOk n loc top bodyOk i
          else if n.isGlobal x then (match i with | .str k => k != "" | _ => false)
          else top && !n.has x && pureOk n loc top bodyOk i
      | none => pureOk n loc top bodyOk e && pureOk n loc top bodyOk i
  | .paren e => pureOk n loc top bodyOk e
  | .bin a b => pureOk n loc top bodyOk a && pureOk n loc top bodyOk b
  | .cond c a b => pureOk n loc top bodyOk c && pureOk n loc top bodyOk a && pureOk n loc top bodyOk b
  | .call f args => top && pureOk n loc top bodyOk f && pureOk n loc top bodyOk args
  | .fexpr ps body => top && bodyOk n ps body
  | .skip => true                                   -- end of an argument list
  | .seq a rest => pureOk n loc top bodyOk a && pureOk n loc top bodyOk rest   -- argument list
  | _ => false

/-- statements of a function body; `loc` grows with the `var`s declared so far. No nested functions, no
calls, assignments only to own variables and without effect on the listener's names. -/
def bodyOk (n : Names) (loc : List String) : Js → Bool
  | .skip => true
  | .seq a b =>
      match a with
      | .varDecl x => bodyOk n (x :: loc) b
      | .varInit x e => pureOk n loc false (fun _ _ _ => false) e && bodyOk n (x :: loc) b
      | _ => bodyOk n loc a && bodyOk n loc b
  | .varDecl _ => true
  | .varInit _ e => pureOk n loc false (fun _ _ _ => false) e
  | .assign x e =>
      loc.contains x && pureOk n loc false (fun _ _ _ => false) e &&
      (match onAssign n x e with | .ok n' => n' == n | .error _ => false)
  | .ret e => pureOk n loc false (fun _ _ _ => false) e
  | .ite c t e => pureOk n loc false (fun _ _ _ => false) c && bodyOk n loc t && bodyOk n loc e
  | .fdecl _ _ _ => false
  | .fexpr _ _ => false
  | .call _ _ => false
  | .loop _ _ _ _ => false
  | .num m => pureOk n loc false (fun _ _ _ => false) (.num m)
  | .str m => pureOk n loc false (fun _ _ _ => false) (.str m)
  | .ident m => pureOk n loc false (fun _ _ _ => false) (.ident m)
  | .dot a k => pureOk n loc false (fun _ _ _ => false) (.dot a k)
  | .idx a i => pureOk n loc false (fun _ _ _ => false) (.idx a i)
  | .paren a => pureOk n loc false (fun _ _ _ => false) (.paren a)
  | .bin a c => pureOk n loc false (fun _ _ _ => false) (.bin a c)
  | .cond a c d => pureOk n loc false (fun _ _ _ => false) (.cond a c d)

/-- value position at the top level -/
def pureTop (n : Names) (e : Js) : Bool := pureOk n [] true bodyOk e

/-- statements at the top level of the fragment. `cnd`: inside a conditional (assignments that make the
listener forget a name are not allowed there). -/
def topOk (cnd : Bool) (n : Names) : Js → Bool
  | .skip => true
  | .seq a b =>
      topOk cnd n a &&
      (match listen n a with
       | .ok (n1, _) => topOk cnd n1 b
       | .error _ => false)
  | .varDecl _ => true
  | .varInit _ e => pureTop n e
  | .assign x e =>
      (match e with
       | .ident y => n.has y || !n.has x || !cnd
       | _ => pureTop n e)
  | .ret e => pureTop n e
  | .ite c t e =>
      pureTop n c && topOk true n t &&
      (match listen n t with
       | .ok (n2, _) => topOk true n2 e
       | .error _ => false)
  | .fdecl _ ps body => bodyOk (shadowParams n.push ps) ps body
  | .loop _ _ _ body =>
      -- the listener walks the body once: the names must not change over an iteration (no loop-carried alias)
      topOk true n body && (match listen n body with | .ok (n1, _) => n1 == n | .error _ => false)
  | .num m => pureTop n (.num m)
  | .str m => pureTop n (.str m)
  | .ident m => pureTop n (.ident m)
  | .dot a k => pureTop n (.dot a k)
  | .idx a i => pureTop n (.idx a i)
  | .paren a => pureTop n (.paren a)
  | .bin a c => pureTop n (.bin a c)
  | .cond a c d => pureTop n (.cond a c d)
  | .call a c => pureTop n (.call a c)
  | .fexpr ps c => pureTop n (.fexpr ps c)

/-- a whole fragment is handled -/
def handled (prog : Js) : Bool := initNames.inner.isEmpty && topOk false initNames prog

end Frag

end SFV.JsDeps
