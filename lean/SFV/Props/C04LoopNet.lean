import SFV.Lemmas.LoopNet
/-! # C04 (loop sub-network) — `loop_terminates`: the loop as a network of steps ends and computes `Net.loopLast`

Property theorems only. The transition system is `SFV/Model/LoopNet.lean` (LoopCombinatorStep, conditional step
`counter < limit`, body `counter += k`, back-propagation, LoopOutputLast step, for several loop instances that run
interleaved, with an arbitrary delivery order of the body outputs to the LoopOutputStep); invariants, the termination
measure `mu` and the helper lemmas are in `SFV/Lemmas/LoopNet.lean`.

`inputs : List (Int × Int)` gives the external input `(counter, limit)` of every instance; `Reachable k inputs s` are
the states of the network under some schedule; `expected k c l` is the value that the workflow model (`Net.Fn.loop`,
the loop seen as ONE node) assigns to the instance: `some (Net.loopLast c l k)`, or `none` (`Token(None)`) when the loop
makes no iteration. Everything except the invariants and `loop_no_deadlock` needs `0 < k`: with `k = 0` the real loop
does not end either (`loop_k_zero_diverges`). -/
namespace SFV.C04
open SFV.LoopNet

/-! ## 1. The closed form used by the workflow model is the loop recursion -/

/-- The closed form `Net.loopLast c l k = c + k * ceil((l - c) / k)` satisfies the recursion of the loop
`while c < l: c += k` (for a positive increment). -/
theorem loopLast_unfold (c l : Int) (k : Nat) (hk : 0 < k) :
    SFV.Net.loopLast c l k = if c < l then SFV.Net.loopLast (c + k) l k else c :=
  loopLast_unfold' c l k hk

/-- After `n` iterations whose conditions held and a failed `n+1`-th condition the closed form is `c + n * k`. -/
theorem loopLast_after_iterations (c l : Int) (k n : Nat) (hk : 0 < k)
    (hlt : ∀ i : Nat, i < n → c + (i : Int) * (k : Int) < l) (hge : ¬ c + (n : Int) * (k : Int) < l) :
    SFV.Net.loopLast c l k = c + (n : Int) * (k : Int) :=
  loopLast_iter k hk l n c hlt hge

/-! ## 2. The per-instance invariant -/

/-- In every reachable state the network has one instance per input, the increment is unchanged, and the instance
`p` satisfies `InstInv` relative to ITS OWN input `(c0, l)`, whatever the other instances did: the counter at every
stage is `c0 + bodies * k`; the body outputs in flight or collected are a permutation of `(i, c0 + (i+1) k)`,
`i < bodies`; every executed body saw a true condition; `count` and `emitted` are only set after the exit. -/
theorem loop_instance_invariant {k : Nat} {inputs : List (Int × Int)} {s : St} (hr : Reachable k inputs s) :
    s.k = k ∧ s.insts.length = inputs.length ∧
      ∀ (p : Nat) (x : Inst), s.insts[p]? = some x →
        ∃ cl : Int × Int, inputs[p]? = some cl ∧ InstInv k cl.1 cl.2 x :=
  ⟨(reachable_inv hr).k_eq, (reachable_inv hr).len, (reachable_inv hr).inst⟩

/-- Every body output `(i, v)` of instance `p`, in flight or collected, carries the value `c0 + (i+1) k`, was
produced under a true condition `c0 + i k < l`, and no two of them have the same index. -/
theorem loop_items_values {k : Nat} {inputs : List (Int × Int)} {s : St} (hr : Reachable k inputs s) {p : Nat}
    {x : Inst} {c0 l : Int} (hx : s.insts[p]? = some x) (hin : inputs[p]? = some (c0, l)) :
    (∀ i v, (i, v) ∈ x.inflight ++ x.collected → v = c0 + ((i : Int) + 1) * (k : Int) ∧ c0 + (i : Int) * (k : Int) < l) ∧
      ((x.inflight ++ x.collected).map (·.1)).Nodup :=
  inv_items_values (reachable_inv hr) hx hin

/-- The IterationTerminationToken count is exact: `count = some n` only after the exit, `n` conditions held, the
`n+1`-th failed, and exactly `n` body outputs exist (in flight or collected). -/
theorem loop_count_is_iterations {k : Nat} {inputs : List (Int × Int)} {s : St} (hr : Reachable k inputs s) {p : Nat}
    {x : Inst} {c0 l : Int} {n : Nat} (hx : s.insts[p]? = some x) (hin : inputs[p]? = some (c0, l))
    (hc : x.count = some n) :
    x.phase = .exited ∧ (∀ i : Nat, i < n → c0 + (i : Int) * (k : Int) < l) ∧ ¬ c0 + (n : Int) * (k : Int) < l ∧
      (x.inflight ++ x.collected).length = n :=
  inv_count (reachable_inv hr) hx hin hc

/-! ## 3. Progress -/

/-- No deadlock (for every `k`): in a reachable state in which some instance has not emitted its output, some action
is enabled. -/
theorem loop_no_deadlock {k : Nat} {inputs : List (Int × Int)} {s : St} (hr : Reachable k inputs s)
    (hf : finished s = false) : ∃ a s', step s a = some s' :=
  inv_progress (reachable_inv hr) hf

/-! ## 4. Termination -/

/-- Every action strictly decreases the potential `mu` (for a positive increment; arbitrary state). -/
theorem loop_step_decreases {s s' : St} {a : Act} (hk : 0 < s.k) (hs : step s a = some s') : mu s' < mu s :=
  mu_step hk hs

/-- The loop terminates: for `0 < k` every run from the initial state, under every interleaving of the instances
and every delivery order, has at most `mu (initSt k inputs) = Σ (4 * max (l - c) 0 + 4)` actions. -/
theorem loop_terminates {k : Nat} (hk : 0 < k) {inputs : List (Int × Int)} {acts : List Act} {s : St}
    (hrun : run (initSt k inputs) acts = some s) :
    acts.length ≤ mu (initSt k inputs) ∧
      mu (initSt k inputs) = (inputs.map (fun cl => 4 * (cl.2 - cl.1).toNat + 4)).sum := by
  have := run_length (s := initSt k inputs) hk hrun
  exact ⟨by omega, mu_init k inputs⟩

/-! ## 5. The value -/

/-- The loop network computes exactly the value the workflow model assigns to the loop as a single node: in every
reachable state — every interleaving, every delivery order — an emitted output of instance `p` is
`expected k c0 l0` for the input `(c0, l0)` of `p`. -/
theorem loop_result {k : Nat} (hk : 0 < k) {inputs : List (Int × Int)} {s : St} (hr : Reachable k inputs s) {p : Nat}
    {x : Inst} {c0 l0 : Int} {v : Option Int} (hx : s.insts[p]? = some x) (hin : inputs[p]? = some (c0, l0))
    (he : x.emitted = some v) : v = expected k c0 l0 :=
  inv_result hk (reachable_inv hr) hx hin he

/-- The same, against the denotation of the `loop k` node of the workflow model: a data output `v` of the network
is the output of `Net.applyFn (.loop k)` on the counter and the limit. -/
theorem loop_result_matches_node {k : Nat} (hk : 0 < k) {inputs : List (Int × Int)} {s : St}
    (hr : Reachable k inputs s) {p : Nat} {x : Inst} {c0 l0 v : Int} (hx : s.insts[p]? = some x)
    (hin : inputs[p]? = some (c0, l0)) (he : x.emitted = some (some v)) :
    SFV.Net.applyFn (.loop k) [.int c0, .int l0] = [.int v] := by
  have h := inv_result hk (reachable_inv hr) hx hin he
  simp only [expected] at h
  split at h
  · cases h; rfl
  · cases h

/-! ## 6. Maximal runs -/

/-- A maximal run (no action enabled at its end) has finished, and the outputs are the expected values, instance by
instance. -/
theorem loop_finishes {k : Nat} (hk : 0 < k) {inputs : List (Int × Int)} {acts : List Act} {s : St}
    (hrun : run (initSt k inputs) acts = some s) (hmax : ∀ a, step s a = none) :
    finished s = true ∧ s.insts.map (fun x => x.emitted) = inputs.map (fun cl => some (expected k cl.1 cl.2)) := by
  have hinv := reachable_inv (reachable_run .init hrun)
  exact ⟨inv_stuck_finished hinv hmax, inv_outputs hk hinv (inv_stuck_finished hinv hmax)⟩

/-- Every run can be completed: from every reachable state some continuation reaches a finished state (whose outputs
are then the expected ones). -/
theorem loop_can_finish {k : Nat} (hk : 0 < k) {inputs : List (Int × Int)} {s : St} (hr : Reachable k inputs s) :
    ∃ acts s', run s acts = some s' ∧ finished s' = true ∧
      s'.insts.map (fun x => x.emitted) = inputs.map (fun cl => some (expected k cl.1 cl.2)) := by
  obtain ⟨acts, s', hrun, hf⟩ := inv_can_finish hk (mu s) s (Nat.le_refl _) (reachable_inv hr)
  exact ⟨acts, s', hrun, hf, inv_outputs hk (reachable_inv (reachable_run hr hrun)) hf⟩

/-! ## 7. `k = 0` -/

/-- The hypothesis `0 < k` is needed: with `k = 0` and `c < l` the run `[combine, eval, body]` repeated `n` times is
enabled for every `n` and the instance never emits — the network (like the Python loop) does not terminate. -/
theorem loop_k_zero_diverges (c l : Int) (hcl : c < l) (n : Nat) :
    ∃ s, run (initSt 0 [(c, l)]) (laps 0 n) = some s ∧ (laps 0 n).length = 3 * n ∧ finished s = false :=
  k_zero_diverges c l hcl n

/-! ## Non-vacuity: concrete runs -/

/-- two instances `(1, 4)` and `(5, 8)`, `k = 2`, interleaved (`demoActs`); instance 0 delivers its outputs out of order -/
example : (run (initSt 2 [(1, 4), (5, 8)]) demoActs).map (fun s => (finished s, s.insts.map (fun x => x.emitted))) =
    some (true, [some (some 5), some (some 9)]) := by decide

example : [(1, 4), (5, 8)].map (fun cl : Int × Int => some (expected 2 cl.1 cl.2)) = [some (some 5), some (some 9)] := by
  decide

example : ∀ a ∈ ([.combine 0, .eval 0, .body 0, .deliver 0 0, .emit 0, .combine 1, .eval 1, .body 1, .deliver 1 0,
    .emit 1, .combine 2] : List Act),
    (run (initSt 2 [(1, 4), (5, 8)]) demoActs).bind (fun s => step s a) = none := by decide

example : demoActs.length = 22 ∧ mu (initSt 2 [(1, 4), (5, 8)]) = 32 := by decide

/-- a zero-iteration instance emits `Token(None)` -/
example : (run (initSt 2 [(7, 3)]) [.combine 0, .eval 0, .emit 0]).map (fun s => (finished s, s.insts.map (fun x => x.emitted))) =
    some (true, [some none]) := by decide

example : expected 2 7 3 = none := by decide

/-- the output cannot be emitted before every body output has been delivered -/
example : (run (initSt 2 [(1, 4)]) [.combine 0, .eval 0, .body 0, .combine 0, .eval 0, .body 0, .combine 0, .eval 0,
    .deliver 0 1, .emit 0]) = none := by decide

/-- `k = 0`: three laps are enabled and nothing has been emitted -/
example : (run (initSt 0 [(1, 4)]) (laps 0 3)).map (fun s => (finished s, s.insts.map (fun x => x.iters))) =
    some (false, [3]) := by decide

end SFV.C04
