import SFV.Lemmas.GatherMain
/-! Nested scatters of ANY depth regathered by chained gather steps, every stage with its own arbitrary arrival order. -/
namespace SFV.Gather
open SFV

/-- a nested list value (`ListToken` of `ListToken` of … of leaf tokens) -/
inductive NV (V : Type) where
  | leaf (v : V)
  | node (l : List (NV V))

/-- `d` more levels of lists below this value -/
def Deep {V} : Nat → NV V → Prop
  | 0, _ => True
  | _ + 1, .leaf _ => False
  | d + 1, .node l => ∀ c ∈ l, Deep d c

/-- the element tokens `ScatterStep` emits for a list token -/
def scatterElems {V} (t : Tok (NV V)) : List (Tok (NV V)) :=
  match t.val with
  | .node l => (scatter t.tag l).1
  | .leaf _ => []

/-- the size token `ScatterStep` emits for a list token -/
def sizeEv {V} (t : Tok (NV V)) : Ev (NV V) :=
  match t.val with
  | .node l => .size t.tag l.length
  | .leaf _ => .size t.tag 0

/-- a gathered list token, as a token of the next stage -/
def asTokNV {V} (g : Tag × List (Tok (NV V))) : Tok (NV V) := ⟨g.1, .node (g.2.map (·.val))⟩

/-- `Regather d T out`: `out` is what comes out of `d` chained gather steps (depth 1) when the tokens `T` have been
    scattered `d` times — every stage receives the previous stage's list tokens (in whatever order they were emitted)
    and the size tokens of the matching scatter level, in ANY interleaving `es`, then the termination tokens. -/
inductive Regather {V} : Nat → List (Tok (NV V)) → List (Tok (NV V)) → Prop where
  | zero {T out} : out.Perm T → Regather 0 T out
  | succ {d T mid out} (es : List (Ev (NV V))) (pa pb : PortId) (hab : pa ≠ pb) (sa sb : Status) :
      Regather d (T.flatMap scatterElems) mid →
      es.Perm (mid.map Ev.elem ++ T.map sizeEv) →
      out = (run 1 (es ++ [.term pa sa, .term pb sb])).out.map asTokNV →
      Regather (d + 1) T out

theorem scatterFrom_vals {V} (tag : Tag) (i : Nat) (xs : List V) : (scatterFrom tag i xs).map (·.val) = xs := by
  induction xs generalizing i with
  | nil => rfl
  | cons x xs ih => simp [scatterFrom, ih]

theorem asTokNV_scatter {V} (t : Tok (NV V)) (l : List (NV V)) (h : t.val = .node l) :
    asTokNV (t.tag, scatterElems t) = t := by
  cases t with
  | mk tag val =>
    simp only at h
    subst h
    simp [asTokNV, scatterElems, scatter, scatterFrom_vals]

theorem scatterElems_tags_nodup {V} (T : List (Tok (NV V))) (hnd : (T.map (·.tag)).Nodup) :
    ((T.flatMap scatterElems).map (·.tag)).Nodup := by
  induction T with
  | nil => simp
  | cons t T ih =>
    simp only [List.map_cons, List.nodup_cons] at hnd
    simp only [List.flatMap_cons, List.map_append, List.nodup_append]
    refine ⟨?_, ih hnd.2, ?_⟩
    · -- tags of one scatter are distinct
      cases hv : t.val with
      | leaf v => simp [scatterElems, hv]
      | node l =>
        have hs : StrictSorted (scatter t.tag l).1 := scatterFrom_sorted t.tag 0 l
        simp only [scatterElems, hv]
        rw [List.Nodup, List.pairwise_map]
        refine hs.imp ?_
        intro a b hab e
        rw [e, (C33.cmp_eq_zero_iff b.tag b.tag).mpr rfl] at hab
        omega
    · intro a ha b hb hab
      obtain ⟨x, hx, rfl⟩ := List.mem_map.mp ha
      obtain ⟨y, hy, rfl⟩ := List.mem_map.mp hb
      obtain ⟨t', ht', hy'⟩ := List.mem_flatMap.mp hy
      have hxt : ∃ i, x.tag = t.tag ++ [i] := by
        cases hv : t.val with
        | leaf v => simp [scatterElems, hv] at hx
        | node l =>
          simp only [scatterElems, hv] at hx
          obtain ⟨i, _, h⟩ := mem_scatterFrom hx
          exact ⟨i, h⟩
      have hyt : ∃ j, y.tag = t'.tag ++ [j] := by
        cases hv : t'.val with
        | leaf v => simp [scatterElems, hv] at hy'
        | node l =>
          simp only [scatterElems, hv] at hy'
          obtain ⟨j, _, h⟩ := mem_scatterFrom hy'
          exact ⟨j, h⟩
      obtain ⟨i, hi⟩ := hxt
      obtain ⟨j, hj⟩ := hyt
      rw [hi, hj] at hab
      have : t.tag = t'.tag := (List.append_inj' hab rfl).1
      exact hnd.1 (this ▸ List.mem_map_of_mem (f := (·.tag)) ht')

/-- the groups one gather stage must restore: one per scattered token -/
def stageGroups {V} (T : List (Tok (NV V))) : List (Tag × List (Tok (NV V))) :=
  T.map (fun t => (t.tag, scatterElems t))

theorem stageGroups_events {V} (T : List (Tok (NV V))) (hdeep : ∀ t ∈ T, ∃ l, t.val = .node l) :
    ((T.flatMap scatterElems).map Ev.elem ++ T.map sizeEv).Perm ((stageGroups T).flatMap groupEvents) := by
  induction T with
  | nil => simp [stageGroups]
  | cons t T ih =>
    obtain ⟨l, hl⟩ := hdeep t (by simp)
    have ih' := ih (fun x hx => hdeep x (List.mem_cons_of_mem _ hx))
    have hsz : sizeEv t = Ev.size t.tag (scatterElems t).length := by
      simp [sizeEv, scatterElems, hl, scatter, scatterFrom_length]
    simp only [stageGroups, List.flatMap_cons, List.map_cons, List.map_append, groupEvents] at ih' ⊢
    rw [hsz]
    -- (A ++ B) ++ (s :: C)  ~  (A ++ [s]) ++ (B ++ C)
    refine List.Perm.trans ?_ (List.Perm.append_left _ ih')
    simp only [List.append_assoc]
    refine List.Perm.append_left _ ?_
    exact (List.perm_middle (a := Ev.size t.tag (scatterElems t).length)
      (l₁ := List.map Ev.elem (List.flatMap scatterElems T)) (l₂ := List.map sizeEv T)).trans (List.Perm.refl _) |>.symm |>.symm

/-- **nested scatters of any depth.** -/
theorem regather_perm {V} : ∀ (d : Nat) (T out : List (Tok (NV V))), (T.map (·.tag)).Nodup →
    (∀ t ∈ T, Deep d t.val) → Regather d T out → out.Perm T := by
  intro d
  induction d with
  | zero => intro T out _ _ h; cases h with | zero hp => exact hp
  | succ d ih =>
    intro T out hnd hdeep h
    cases h with
    | succ es pa pb hab sa sb hmid hes hout =>
      have hnode : ∀ t ∈ T, ∃ l, t.val = .node l := by
        intro t ht
        have := hdeep t ht
        cases hv : t.val with
        | leaf v => rw [hv] at this; exact this.elim
        | node l => exact ⟨l, rfl⟩
      have hdeep' : ∀ x ∈ T.flatMap scatterElems, Deep d x.val := by
        intro x hx
        obtain ⟨t, ht, hxt⟩ := List.mem_flatMap.mp hx
        obtain ⟨l, hl⟩ := hnode t ht
        have hd := hdeep t ht
        rw [hl] at hd
        simp only [scatterElems, hl] at hxt
        have : x.val ∈ l := by
          have := List.mem_map_of_mem (f := (·.val)) hxt
          rwa [show (scatter t.tag l).1 = scatterFrom t.tag 0 l from rfl, scatterFrom_vals] at this
        exact hd _ this
      have hmidp := ih (T.flatMap scatterElems) _ (scatterElems_tags_nodup T hnd) hdeep' hmid
      have hperm : es.Perm ((stageGroups T).flatMap groupEvents) :=
        (hes.trans (List.Perm.append_right _ (hmidp.map Ev.elem))).trans (stageGroups_events T hnode)
      have hg := gather_groups 1 (stageGroups T)
        (by simpa [stageGroups, List.map_map, Function.comp_def] using hnd)
        (by
          intro g hg t ht
          obtain ⟨x, hx, rfl⟩ := List.mem_map.mp hg
          obtain ⟨l, hl⟩ := hnode x hx
          simp only [scatterElems, hl] at ht
          exact scatterFrom_key x.tag 0 l t ht)
        (by
          intro g hg
          obtain ⟨x, hx, rfl⟩ := List.mem_map.mp hg
          obtain ⟨l, hl⟩ := hnode x hx
          simp only [scatterElems, hl]
          exact scatterFrom_sorted x.tag 0 l)
        es hperm pa pb hab sa sb
      rw [hout]
      refine (hg.1.map asTokNV).trans (List.Perm.of_eq ?_)
      simp only [stageGroups, List.map_map]
      conv => rhs; rw [← List.map_id T]
      apply List.map_congr_left
      intro t ht
      obtain ⟨l, hl⟩ := hnode t ht
      simpa using asTokNV_scatter t l hl

end SFV.Gather

namespace SFV.Gather
open SFV

/-- the leaf tokens after `d` scatters, in scatter (row-major) order -/
def leavesAt {V} : Nat → Tok (NV V) → List (Tok (NV V))
  | 0, t => [t]
  | d + 1, t => (scatterElems t).flatMap (leavesAt d)

theorem leavesAt_tags {V} : ∀ (d : Nat) (t x : Tok (NV V)), x ∈ leavesAt d t → ∃ q : Tag, q.length = d ∧ x.tag = t.tag ++ q := by
  intro d
  induction d with
  | zero => intro t x hx; simp [leavesAt] at hx; exact ⟨[], rfl, by simp [hx]⟩
  | succ d ih =>
    intro t x hx
    simp only [leavesAt, List.mem_flatMap] at hx
    obtain ⟨c, hc, hxc⟩ := hx
    obtain ⟨q, hq, hxq⟩ := ih c x hxc
    have hct : ∃ i, c.tag = t.tag ++ [i] := by
      cases hv : t.val with
      | leaf v => simp [scatterElems, hv] at hc
      | node l =>
        simp only [scatterElems, hv] at hc
        obtain ⟨i, _, h⟩ := mem_scatterFrom hc
        exact ⟨i, h⟩
    obtain ⟨i, hi⟩ := hct
    exact ⟨i :: q, by simp [hq], by rw [hxq, hi]; simp⟩

theorem leavesAt_sorted {V} : ∀ (d : Nat) (t : Tok (NV V)), StrictSorted (leavesAt d t) := by
  intro d
  induction d with
  | zero => intro t; simp [leavesAt, StrictSorted]
  | succ d ih =>
    intro t
    unfold StrictSorted
    simp only [leavesAt]
    rw [List.pairwise_flatMap]
    refine ⟨fun c _ => ih c, ?_⟩
    cases hv : t.val with
    | leaf v => simp [scatterElems, hv]
    | node l =>
      simp only [scatterElems, hv]
      have hs : StrictSorted (scatter t.tag l).1 := scatterFrom_sorted t.tag 0 l
      refine List.Pairwise.imp_of_mem ?_ hs
      intro a b ha hb hab x hx y hy
      obtain ⟨i, _, hai⟩ := mem_scatterFrom ha
      obtain ⟨j, _, hbj⟩ := mem_scatterFrom hb
      obtain ⟨q, hq, hxq⟩ := leavesAt_tags d a x hx
      obtain ⟨q', hq', hyq⟩ := leavesAt_tags d b y hy
      rw [hxq, hyq, hai, hbj, List.append_assoc, List.append_assoc]
      rw [hai, hbj] at hab
      have hij : i < j := by
        rcases Nat.lt_trichotomy i j with h | h | h
        · exact h
        · subst h; rw [(C33.cmp_eq_zero_iff _ _).mpr rfl] at hab; omega
        · have := C33.cmp_numeric t.tag [] [] j i rfl h
          have h2 := C33.cmp_antisymm (t.tag ++ [i]) (t.tag ++ [j])
          omega
      exact C33.cmp_numeric t.tag q q' i j (by omega) hij

end SFV.Gather
