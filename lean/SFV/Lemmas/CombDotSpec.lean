import SFV.Lemmas.CombDotMain
/-! Flat dot product: the whole run, the specification, and the final order-independence statement. -/
namespace SFV.Comb
open SFV

theorem CF.WF_append_left {P : Nat} {A B : List CF.Ev} (h : CF.WF P (A ++ B)) : CF.WF P A := by
  obtain ⟨hnd, hp, ha⟩ := h
  refine ⟨(List.nodup_append.mp hnd).1, fun x hx => hp x (List.mem_append_left _ hx), ?_⟩
  intro a ha' b hb'
  exact ha a (List.mem_append_left _ ha') b (List.mem_append_left _ hb')

/-- **the run**: feeding a well-formed rooted stream to the loop-faithful model never raises and emits, schema by
    schema (ports sorted), what the closed-form run emits, in the same order -/
theorem runWith_dot_sim {P : Nat} : ∀ (es R : List Ev) (s : CF.St) (tv : TV) (fo : List Emit),
    CF.WF P ((R ++ es).map liftEv) → Rooted (R ++ es) → CF.Inv P (R.map liftEv) s → Valid P tv →
    tkeys tv = s.keys → sem tv = s.cell →
    fo.map (normEmit P) = s.out.map (fun x => renderCF x.1 x.2) →
    (runWith (dotAdd P) es tv fo).err = none ∧
    (runWith (dotAdd P) es tv fo).out.map (normEmit P) =
      ((es.map liftEv).foldl (CF.step P) s).out.map (fun x => renderCF x.1 x.2) := by
  intro es
  induction es with
  | nil => intro R s tv fo _ _ _ _ _ _ hfo; exact ⟨rfl, by simpa [runWith] using hfo⟩
  | cons e es ih =>
    obtain ⟨p, t⟩ := e
    intro R s tv fo hwf hroot hI hv hk hs hfo
    have hwf1 : CF.WF P ((R ++ [(p, t)]).map liftEv) := by
      have : (R ++ (p, t) :: es).map liftEv = (R ++ [(p, t)]).map liftEv ++ es.map liftEv := by simp
      rw [this] at hwf
      exact CF.WF_append_left hwf
    have hroot1 : Rooted (R ++ [(p, t)]) := by
      intro x hx
      apply hroot x
      rcases List.mem_append.mp hx with h | h
      · exact List.mem_append_left _ h
      · simp at h; subst h; simp
    obtain ⟨e1, v1, k1, s1, N, hN, hout⟩ := dotAdd_sim p t hwf1 hroot1 hI hv hk hs
    have hwf1' : CF.WF P (R.map liftEv ++ [(p, Elem.ofTok p t)]) := by
      simpa [List.map_append, liftEv] using hwf1
    have hI1 := CF.inv_step P hwf1' hI
    simp only [runWith, e1]
    have hR : R ++ (p, t) :: es = (R ++ [(p, t)]) ++ es := by simp
    have hI1' : CF.Inv P ((R ++ [(p, t)]).map liftEv) (CF.step P s (p, Elem.ofTok p t)) := by
      simpa [List.map_append, liftEv] using hI1
    have := ih (R ++ [(p, t)]) (CF.step P s (p, Elem.ofTok p t)) _ (fo ++ (dotAdd P tv p (Elem.ofTok p t)).out)
      (hR ▸ hwf) (hR ▸ hroot) hI1' v1 k1 s1 (by rw [List.map_append, hfo, hout, hN, List.map_append])
    simpa [liftEv] using this

theorem runDot_eq_CF {P : Nat} (es : List Ev) (hwf : CF.WF P (es.map liftEv)) (hroot : Rooted es) :
    (runDot P es).err = none ∧
    (runDot P es).out.map (normEmit P) = (CF.run P (es.map liftEv)).out.map (fun x => renderCF x.1 x.2) := by
  have := runWith_dot_sim (P := P) es [] CF.init [] [] (by simpa using hwf) (by simpa using hroot)
    (by simpa using CF.inv_init P) (valid_nil P) rfl rfl rfl
  simpa [runDot, CF.run] using this

/-! ### the specification -/

def dedup : List Tag → List Tag
  | [] => []
  | a :: l => if a ∈ l then dedup l else a :: dedup l

theorem mem_dedup {a : Tag} {l : List Tag} : a ∈ dedup l ↔ a ∈ l := by
  induction l with
  | nil => simp [dedup]
  | cons b l ih =>
    simp only [dedup]
    split
    · rename_i h
      rw [ih]
      constructor
      · exact List.mem_cons_of_mem _
      · intro h'
        rcases List.mem_cons.mp h' with rfl | h'
        · exact h
        · exact h'
    · simp [ih]

theorem nodup_dedup (l : List Tag) : (dedup l).Nodup := by
  induction l with
  | nil => simp [dedup]
  | cons b l ih =>
    simp only [dedup]
    split
    · exact ih
    · rename_i h
      exact List.nodup_cons.mpr ⟨fun hm => h (mem_dedup.mp hm), ih⟩

/-- the member of port `q` in the combination tagged `κ`: the (first) received token of `q` whose tag is a
    prefix of `κ`, retagged `κ` -/
def specPick (S : List Ev) (κ : Tag) (q : Nat) : Option (Nat × Tok) :=
  (S.find? (fun e => e.1 = q ∧ e.2.tag <+: κ)).map (fun e => (e.1, { e.2 with tag := κ }))

/-- every port `0 … P-1` has a received token whose tag is a prefix of `κ` -/
def specComplete (P : Nat) (S : List Ev) (κ : Tag) : Bool :=
  (List.range P).all (fun q => S.any (fun e => e.1 = q ∧ e.2.tag <+: κ))

/-- **specification of the dot product**: one combination for every received tag `κ` that is complete -/
def specDot (P : Nat) (S : List Ev) : List Emit :=
  ((dedup (S.map (·.2.tag))).filter (specComplete P S)).map
    (fun κ => (List.range P).filterMap (specPick S κ))

/-- well-formed stream of a flat dot product over ports `0 … P-1` -/
def WFDot (P : Nat) (S : List Ev) : Prop :=
  S.Nodup ∧ (∀ e ∈ S, e.1 < P) ∧ Rooted S ∧
  (∀ e ∈ S, ∀ e' ∈ S, e.1 = e'.1 → e.2.tag <+: e'.2.tag → e = e')

theorem pre_iff_prefix_of_ne {a b : Tag} (ha : a ≠ []) : CF.pre a b ↔ a <+: b := by
  rw [CF.pre_iff]
  exact ⟨fun h => h.1, fun h => ⟨h, fun e => absurd e ha⟩⟩

theorem rooted_ne {S : List Ev} (h : Rooted S) {e : Ev} (he : e ∈ S) : e.2.tag ≠ [] := by
  intro h0
  have := h e he
  rw [h0] at this
  simp at this

theorem liftEv_injective : ∀ a b : Ev, liftEv a = liftEv b → a = b := by
  rintro ⟨p, t⟩ ⟨p', t'⟩ h
  simp only [liftEv, Elem.ofTok, Prod.mk.injEq, Elem.mk.injEq, List.cons.injEq, and_true] at h
  obtain ⟨h1, _, _, h2⟩ := h
  rw [h1, h2]

theorem wf_of_WFDot {P : Nat} {S : List Ev} (h : WFDot P S) : CF.WF P (S.map liftEv) := by
  obtain ⟨hnd, hp, hr, ha⟩ := h
  refine ⟨?_, ?_, ?_⟩
  · exact List.Pairwise.map liftEv (fun a b hne e => hne (liftEv_injective a b e)) hnd
  · intro e he
    obtain ⟨ev, hev, rfl⟩ := List.mem_map.mp he
    exact hp ev hev
  · intro e he e' he' hport hpre
    obtain ⟨ev, hev, rfl⟩ := List.mem_map.mp he
    obtain ⟨ev', hev', rfl⟩ := List.mem_map.mp he'
    have : ev = ev' := ha ev hev ev' hev' hport ((pre_iff_prefix_of_ne (rooted_ne hr hev)).mp hpre)
    rw [this]

theorem WFDot_perm {P : Nat} {S S' : List Ev} (hp : S'.Perm S) (h : WFDot P S) : WFDot P S' := by
  obtain ⟨hnd, hpo, hr, ha⟩ := h
  exact ⟨hp.nodup_iff.mpr hnd, fun e he => hpo e (hp.subset he), fun e he => hr e (hp.subset he),
    fun e he e' he' => ha e (hp.subset he) e' (hp.subset he')⟩

theorem schemaOf_filterMap_ofTok {α : Type} (l : List α) (g : α → Option Ev) :
    schemaOf (l.filterMap (fun a => (g a).map (fun e => Elem.ofTok e.1 e.2))) = l.filterMap g := by
  induction l with
  | nil => rfl
  | cons a l ih =>
    simp only [List.filterMap_cons]
    cases hg : g a with
    | none => simpa using ih
    | some e =>
      simp only [Option.map_some, schemaOf, List.flatMap_cons] at ih ⊢
      rw [ih]
      rfl

theorem find?_congr' {α : Type} {p q : α → Bool} {l : List α} (h : ∀ a ∈ l, p a = q a) :
    l.find? p = l.find? q := by
  induction l with
  | nil => rfl
  | cons a l ih =>
    simp only [List.find?_cons]
    rw [h a (by simp), ih (fun b hb => h b (List.mem_cons_of_mem _ hb))]

/-- the closed form's emission for `κ`, rendered, is the specified combination -/
theorem render_picks {P : Nat} {S : List Ev} (hr : Rooted S) (κ : Tag) :
    renderCF κ (CF.picks P (S.map liftEv) κ) = (List.range P).filterMap (specPick S κ) := by
  unfold renderCF CF.picks
  have hpick : ∀ q, CF.pick (S.map liftEv) κ q =
      ((S.find? (fun e => e.1 = q ∧ e.2.tag <+: κ))).map (fun e => Elem.ofTok e.1 e.2) := by
    intro q
    unfold CF.pick
    rw [List.find?_map, Option.map_map]
    have : S.find? ((fun e : CF.Ev => decide (e.1 = q ∧ CF.pre e.2.tag κ)) ∘ liftEv)
        = S.find? (fun e => decide (e.1 = q ∧ e.2.tag <+: κ)) := by
      apply find?_congr'
      intro e he
      show decide ((liftEv e).1 = q ∧ CF.pre (liftEv e).2.tag κ) = decide (e.1 = q ∧ e.2.tag <+: κ)
      apply decide_eq_decide.mpr
      show (e.1 = q ∧ CF.pre e.2.tag κ) ↔ _
      rw [pre_iff_prefix_of_ne (rooted_ne hr he)]
    rw [this]
    rfl
  have : (List.range P).filterMap (CF.pick (S.map liftEv) κ) =
      (List.range P).filterMap (fun q => ((S.find? (fun e => e.1 = q ∧ e.2.tag <+: κ))).map
        (fun e => Elem.ofTok e.1 e.2)) := CF.filterMap_congr' (fun q _ => hpick q)
  rw [this, schemaOf_filterMap_ofTok]
  unfold retagAll specPick
  rw [List.map_filterMap]

theorem specComplete_iff {P : Nat} {S : List Ev} (hr : Rooted S) (κ : Tag) :
    specComplete P S κ = true ↔ CF.complete P (S.map liftEv) κ := by
  unfold specComplete CF.complete
  simp only [List.all_eq_true, List.mem_range, List.any_eq_true, decide_eq_true_eq]
  constructor
  · intro h q hq
    obtain ⟨e, he, h1, h2⟩ := h q hq
    exact ⟨liftEv e, List.mem_map.mpr ⟨e, he, rfl⟩, h1, (pre_iff_prefix_of_ne (rooted_ne hr he)).mpr h2⟩
  · intro h q hq
    obtain ⟨e', he', h1, h2⟩ := h q hq
    obtain ⟨e, he, rfl⟩ := List.mem_map.mp he'
    exact ⟨e, he, h1, (pre_iff_prefix_of_ne (rooted_ne hr he)).mp h2⟩

/-- **the closed-form run emits exactly the specification** (as a multiset) -/
theorem CF_out_perm_spec {P : Nat} {S : List Ev} (h : WFDot P S) :
    ((CF.run P (S.map liftEv)).out.map (fun x => renderCF x.1 x.2)).Perm (specDot P S) := by
  have hwf := wf_of_WFDot h
  have hr := h.2.2.1
  let L : List (Tag × List Elem) := ((dedup (S.map (·.2.tag))).filter (specComplete P S)).map
    (fun κ => (κ, CF.picks P (S.map liftEv) κ))
  have hLnd : L.Nodup := by
    apply CF.nodup_of_map (·.1)
    simp only [L, List.map_map, Function.comp_def, List.map_id']
    exact (nodup_dedup _).filter _
  have hperm : (CF.run P (S.map liftEv)).out.Perm L := by
    apply (List.perm_ext_iff_of_nodup (CF.out_nodup P _ hwf) hLnd).mpr
    rintro ⟨κ, l⟩
    rw [CF.mem_out_iff P _ hwf]
    simp only [L, List.mem_map, List.mem_filter, mem_dedup, Prod.mk.injEq]
    constructor
    · rintro ⟨⟨e', he', hte⟩, hc, hl⟩
      obtain ⟨e, he, rfl⟩ := he'
      exact ⟨κ, ⟨⟨e, he, hte⟩, (specComplete_iff hr κ).mpr hc⟩, rfl, hl.symm⟩
    · rintro ⟨κ', ⟨⟨e, he, hte⟩, hc⟩, rfl, hl⟩
      exact ⟨⟨liftEv e, ⟨e, he, rfl⟩, hte⟩, (specComplete_iff hr κ').mp hc, hl.symm⟩
  have := hperm.map (fun x => renderCF x.1 x.2)
  refine this.trans (List.Perm.of_eq ?_)
  simp only [L, specDot, List.map_map]
  apply List.map_congr_left
  intro κ _
  exact render_picks hr κ

/-- **dot product, any arrival order**: every arrival order of a well-formed stream makes the loop-faithful
    `DotProductCombinator` model emit, without raising, exactly the specified combinations -/
theorem runDot_any_order {P : Nat} (S es : List Ev) (h : WFDot P S) (hp : es.Perm S) :
    (runDot P es).err = none ∧ ((runDot P es).out.map (normEmit P)).Perm (specDot P S) := by
  have hes := WFDot_perm hp h
  obtain ⟨h1, h2⟩ := runDot_eq_CF es (wf_of_WFDot hes) hes.2.2.1
  refine ⟨h1, ?_⟩
  rw [h2]
  have hperm := CF.out_perm P (S.map liftEv) (es.map liftEv) (hp.map liftEv) (wf_of_WFDot h)
  exact (hperm.map _).trans (CF_out_perm_spec h)

/-- "every port has EXACTLY ONE received token whose tag is a prefix of `κ`" -/
def specCompleteOne (P : Nat) (S : List Ev) (κ : Tag) : Bool :=
  (List.range P).all (fun q => (S.filter (fun e => e.1 = q ∧ e.2.tag <+: κ)).length = 1)

theorem length_le_one_of_all_eq {α : Type} {l : List α} (hnd : l.Nodup) (h : ∀ a ∈ l, ∀ b ∈ l, a = b) :
    l.length ≤ 1 := by
  match l, hnd, h with
  | [], _, _ => simp
  | [_], _, _ => simp
  | a :: b :: r, hnd, h =>
    have := h a (by simp) b (by simp)
    subst this
    simp at hnd

/-- under well-formedness "some" is "exactly one" -/
theorem specComplete_eq_one {P : Nat} {S : List Ev} (h : WFDot P S) (κ : Tag) :
    specComplete P S κ = specCompleteOne P S κ := by
  unfold specComplete specCompleteOne
  apply List.all_congr rfl
  intro q
  have hle : (S.filter (fun e => e.1 = q ∧ e.2.tag <+: κ)).length ≤ 1 := by
    apply length_le_one_of_all_eq (h.1.filter _)
    intro a ha b hb
    simp only [List.mem_filter, decide_eq_true_eq] at ha hb
    rcases List.prefix_or_prefix_of_prefix ha.2.2 hb.2.2 with hp | hp
    · exact h.2.2.2 a ha.1 b hb.1 (ha.2.1.trans hb.2.1.symm) hp
    · exact (h.2.2.2 b hb.1 a ha.1 (hb.2.1.trans ha.2.1.symm) hp).symm
  by_cases hany : S.any (fun e => decide (e.1 = q ∧ e.2.tag <+: κ)) = true
  · rw [hany]
    have : 0 < (S.filter (fun e => e.1 = q ∧ e.2.tag <+: κ)).length := by
      rw [List.any_eq_true] at hany
      obtain ⟨e, he, hpe⟩ := hany
      exact List.length_pos_of_mem (List.mem_filter.mpr ⟨he, hpe⟩)
    symm
    simp only [decide_eq_true_eq]
    omega
  · have hany' : S.any (fun e => decide (e.1 = q ∧ e.2.tag <+: κ)) = false := by simpa using hany
    rw [hany']
    have : (S.filter (fun e => e.1 = q ∧ e.2.tag <+: κ)) = [] := by
      rw [List.any_eq_false] at hany'
      apply List.filter_eq_nil_iff.mpr
      intro e he
      exact hany' e he
    rw [this]
    simp

end SFV.Comb
