import SFV.Model.JsDeps
open SFV.JsDeps

theorem eval_dot (fuel sc e k st) : eval (fuel+1) sc (.dot e k) st =
  (match eval fuel sc e st with
        | some (r, st1) => match getProp st1 r.val k with
            | some (v, st2) => some (.normal v, st2)
            | none => none
        | none => none) := by
  simp only [eval]

theorem eval_zero (sc e st) : eval 0 sc e st = none := by simp only [eval]
theorem eval_zero' (sc e st) : eval 0 sc e st = none := by rfl
example (fuel sc st) (x : String) : eval (fuel+1) sc (.ident x) st = (match lookupVar st.heap sc x with
        | some v => some (.normal v, st)
        | none => none) := by rfl
