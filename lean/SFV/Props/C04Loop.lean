import SFV.Lemmas.LoopComb
import SFV.Gen.StepGuards
/-! # C04 (loop combinator) — a failed input termination can leave `LoopCombinatorStep.run` reading forever

Property theorems only (transition system in `SFV/Model/LoopComb.lean`, helper lemmas in
`SFV/Lemmas/LoopComb.lean`). `fixed = false` is the loop as it was before fix 4e89c00, `fixed = true` the repaired loop (the current source)
(`fixes/C04-loop-combinator-failed-input.patch`). A schedule is the order in which the outstanding reads return. -/
namespace SFV.C04
open SFV.LoopComb

/-! ## A. Regression guards — the loop as it was BEFORE fix 4e89c00 (`fixed = false`, the OLD definition) -/

/-- **Regression guard — false before fix 4e89c00 (old definition).** Deadlock witness: two input ports; port 0 delivers one data token and terminates
COMPLETED, port 1 terminates FAILED (or CANCELLED). Both streams are well formed. Under the read orders `[0, 1, 0]` and
`[1, 0, 0]` every producer has delivered everything, yet the loop has not been left: a read of port 0 is
outstanding (its tag is still in the iteration checklist) and nothing will ever arrive. -/
theorem loop_failed_input_deadlock_before_fix_4e89c00 :
    ∃ (streams : List (List Tok)) (s : St),
      (∀ l ∈ streams, wellFormedStream l = true) ∧ (∀ l ∈ streams, hasTerm l = true) ∧
      run false (initSt streams) [0, 1, 0] = some s ∧ run false (initSt streams) [1, 0, 0] = some s ∧
      deadlocked s = true ∧ done s = false ∧ (∀ p ∈ s.ports, p.stream = []) :=
  ⟨[[.data [0], .term .completed], [.term .failed]],
   { ports := [{ stream := [], pending := true, terminated := true, checklist := [[0]] },
               { stream := [], pending := false, terminated := true, checklist := [] }], failed := false },
   by decide⟩

/-- **(old definition, before fix 4e89c00) A deadlock of the unrepaired loop never resolves.** Once a read is outstanding on an exhausted port, every
continuation of the run is still deadlocked and has not left the loop, and that read itself never returns. -/
theorem loop_deadlock_is_permanent_before_fix_4e89c00 {s s' : St} (sched : List Nat) (hd : deadlocked s = true)
    (hr : run false s sched = some s') : deadlocked s' = true ∧ done s' = false :=
  ⟨deadlocked_run_asis sched hd hr, not_done_of_deadlocked (deadlocked_run_asis sched hd hr)⟩

/-- **(old definition, before fix 4e89c00) When exactly the unrepaired loop waits forever.** With terminating producers, a reachable state of the loop
(`fixed = false`) has a read outstanding on an exhausted port exactly when some exhausted, terminated port still has a tag
in its iteration checklist — nothing but the port's own iteration termination tokens (or its own
non-COMPLETED termination) ever removes it, in particular not the FAILED termination of another port. -/
theorem loop_deadlock_iff_before_fix_4e89c00 {streams : List (List Tok)} (hw : ∀ l ∈ streams, hasTerm l = true) {s : St}
    (hr : Reachable false streams s) :
    deadlocked s = true ↔ ∃ p ∈ s.ports, p.stream = [] ∧ p.terminated = true ∧ p.checklist ≠ [] :=
  invA_deadlocked_iff (invA_reachable hw hr)

/-! ## B. The repaired loop (`fixed = true`) -/

/-- **No deadlock after a failure (repaired loop).** If every port's stream contains a termination token
(every port has a producer that terminates), then in every reachable state in which a FAILED termination
was seen no read is outstanding on an exhausted port. -/
theorem loop_fixed_no_deadlock_after_failure {streams : List (List Tok)}
    (hw : ∀ l ∈ streams, hasTerm l = true) {s : St} (hr : Reachable true streams s)
    (hf : s.failed = true) : deadlocked s = false :=
  inv_no_deadlock (inv_reachable hw hr) hf

/-- **The repaired loop is left once everything was delivered.** After a FAILED termination, as soon as every
producer has delivered all its tokens no read is outstanding: `while input_tasks` is over. -/
theorem loop_fixed_done_when_exhausted {streams : List (List Tok)}
    (hw : ∀ l ∈ streams, hasTerm l = true) {s : St} (hr : Reachable true streams s)
    (hf : s.failed = true) (he : ∀ p ∈ s.ports, p.stream = []) : done s = true :=
  inv_done (inv_reachable hw hr) hf he

/-- **Progress after a failure (repaired loop).** After a FAILED termination, as long as the loop has not been
left some outstanding read can return; and every step reads one token, so a run from the initial state has
at most as many steps as there are tokens. -/
theorem loop_fixed_progress_after_failure {streams : List (List Tok)}
    (hw : ∀ l ∈ streams, hasTerm l = true) {s : St} (hr : Reachable true streams s)
    (hf : s.failed = true) (hd : done s = false) : ∃ i s', step true s i = some s' :=
  inv_progress (inv_reachable hw hr) hf hd

/-! ## B'. The loop of the current source

`Gen.loopStopsAfterFailure` is extracted from `LoopCombinatorStep.run` on every run (`true` since fix 4e89c00): these
theorems are the full-strength statements about the code as it is now and stop compiling if the source loses the repair. -/

/-- **A failed loop input never dead-locks the loop combinator** (code as it is now): if every input port has a
producer that terminates, then after a FAILED / CANCELLED termination no read is outstanding on an exhausted port. -/
theorem loop_no_deadlock_after_failure {streams : List (List Tok)}
    (hw : ∀ l ∈ streams, hasTerm l = true) {s : St} (hr : Reachable Gen.loopStopsAfterFailure streams s)
    (hf : s.failed = true) : deadlocked s = false := by
  have hg : Gen.loopStopsAfterFailure = true := rfl
  rw [hg] at hr
  exact inv_no_deadlock (inv_reachable hw hr) hf

/-- **… and the step leaves its loop** (hence terminates, status FAILED) once every producer has delivered everything -/
theorem loop_done_when_exhausted {streams : List (List Tok)}
    (hw : ∀ l ∈ streams, hasTerm l = true) {s : St} (hr : Reachable Gen.loopStopsAfterFailure streams s)
    (hf : s.failed = true) (he : ∀ p ∈ s.ports, p.stream = []) : done s = true := by
  have hg : Gen.loopStopsAfterFailure = true := rfl
  rw [hg] at hr
  exact inv_done (inv_reachable hw hr) hf he

/-- every step (of either version) reads exactly one token: runs are bounded by the number of tokens -/
theorem loop_run_bounded {fixed : Bool} {s s' : St} (sched : List Nat) (hr : run fixed s sched = some s') :
    remaining s' + sched.length = remaining s :=
  run_remaining sched hr

/-- reachable states are exactly the end states of runs from the initial state -/
theorem loop_reachable_iff_run {fixed : Bool} {streams : List (List Tok)} {s : St} :
    Reachable fixed streams s ↔ ∃ sched, run fixed (initSt streams) sched = some s :=
  reachable_iff_run

/-! ## C. The patch changes nothing when no port fails -/

/-- **Patch neutrality.** (1) In a state without recorded failure, a read that does not return a FAILED / CANCELLED
termination has the same effect in both versions. (2) If no stream contains a FAILED / CANCELLED termination, both
versions behave identically under every schedule (SKIPPED terminations included: both versions clear the port's
checklist and neither records a failure). -/
theorem loop_patch_neutral_without_failure :
    (∀ (s : St) (i : Nat), s.failed = false →
        (∀ p, s.ports[i]? = some p → p.stream.head? ≠ some (.term .failed)) → step true s i = step false s i) ∧
    (∀ (streams : List (List Tok)), (∀ l ∈ streams, Tok.term .failed ∉ l) →
        ∀ sched, run true (initSt streams) sched = run false (initSt streams) sched) :=
  ⟨fun _ _ hf hh => step_patch_neutral hf hh, fun _ h sched => run_patch_neutral (noFailSt_init h) sched⟩

/-! ## D. Examples (the hypotheses are satisfiable, the runs evaluated) -/

/-- the witness run, evaluated -/
example : run false (initSt [[.data [0], .term .completed], [.term .failed]]) [0, 1, 0] =
    some { ports := [{ stream := [], pending := true, terminated := true, checklist := [[0]] },
                     { stream := [], pending := false, terminated := true, checklist := [] }],
           failed := false } := by decide

/-- in the deadlocked witness state no read can return -/
example : (List.range 3).all (fun i =>
    (run false (initSt [[.data [0], .term .completed], [.term .failed]]) [0, 1, 0, i]).isNone) = true := by decide

/-- the same streams under the repaired loop: every complete schedule leaves the loop -/
example : ([[0, 1, 0], [1, 0, 0], [0, 0, 1]] : List (List Nat)).all (fun sched =>
    match run true (initSt [[.data [0], .term .completed], [.term .failed]]) sched with
    | some s => done s && !deadlocked s && s.failed
    | none => false) = true := by decide

/-- the streams of the witness satisfy the hypothesis of the theorems about the repaired loop -/
example : ∀ l ∈ [[Tok.data [0], .term .completed], [.term .failed]], hasTerm l = true := by decide

/-- a port with two producers (data and a second termination after the first one): not well formed, but covered -/
example : wellFormedStream [.term .skipped, .data [1], .term .completed] = false ∧
    hasTerm [.term .skipped, .data [1], .term .completed] = true := by decide

/-- a failure-free run on two ports (data, iteration termination, termination) leaves the loop in both versions -/
example : ([true, false] : List Bool).all (fun fixed =>
    match run fixed (initSt [[.data [0], .iterTerm [0], .term .completed], [.data [0], .iterTerm [0], .term .completed]])
        [0, 1, 1, 0, 0, 1] with
    | some s => done s && !deadlocked s && !s.failed
    | none => false) = true := by decide

/-- a SKIPPED termination on one port does not record a failure in the repaired loop, and both versions behave
identically under every order of the four reads (all end in the same state, loop left) -/
example : ([[0, 0, 0, 1], [0, 0, 1, 0], [0, 1, 0, 0], [1, 0, 0, 0]] : List (List Nat)).all (fun sched =>
    let w : List (List Tok) := [[.data [0], .iterTerm [0], .term .completed], [.term .skipped]]
    run true (initSt w) sched == run false (initSt w) sched &&
    match run true (initSt w) sched with
    | some s => done s && !deadlocked s && !s.failed
    | none => false) = true := by decide

/-- a SKIPPED termination clears only its own port's checklist: the missing iteration termination of port 0 still
blocks both versions, and `failed` stays unset (so the theorems about the repaired loop rightly say nothing) -/
example : ([true, false] : List Bool).all (fun fixed =>
    match run fixed (initSt [[.data [0], .term .completed], [.term .skipped]]) [0, 1, 0] with
    | some s => deadlocked s && !s.failed
    | none => false) = true := by decide

/-- without any failure both versions wait on an exhausted port when an iteration termination token is missing
(the designed behaviour, not touched by the patch: the theorems about the repaired loop need `failed`) -/
example : ([true, false] : List Bool).all (fun fixed =>
    match run fixed (initSt [[.data [0], .term .completed]]) [0, 0] with
    | some s => deadlocked s && !s.failed
    | none => false) = true := by decide

end SFV.C04
