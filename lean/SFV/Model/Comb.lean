import SFV.Model.Tag
import SFV.Gen.CombGuards
/-! Combinators (`streamflow/workflow/step.py: Combinator`, `streamflow/workflow/combinator.py:
    DotProductCombinator, CartesianProductCombinator`) — executable, loop-faithful model.

    * `_token_values : tag -> item -> deque` is an insertion-ordered association list of insertion-ordered
      association lists of lists (`TV`, `Cell`); `deque.append` appends on the right, `deque.pop()` takes
      from the right.
    * every loop of the Python code is a named structurally recursive helper over a snapshot list
      (`for key in list(self._token_values.keys())` iterates over a snapshot).
    * an element of a deque (`Elem`) is either a token received on a port (one entry) or the schema
      produced by an inner combinator (several entries); `Elem.tag` is the tag `_add_to_list` computed.
    * items are numbered: ports are their own number, an inner combinator has its own item number.
    * Python exceptions that the loops can raise (`IndexError` of `pop()` on an empty deque, `KeyError`)
      are results (`Err`), not silently totalised. -/
namespace SFV.Comb
open SFV

structure Tok where
  tag : Tag
  val : Nat
deriving DecidableEq, Repr

/-- one entry of a deque: what arrived (`toks` = port ↦ token, in dict order) and the tag it is filed under -/
structure Elem where
  tag : Tag
  toks : List (Nat × Tok)
deriving DecidableEq, Repr

/-- a token that arrived on port `p` -/
def Elem.ofTok (p : Nat) (t : Tok) : Elem := ⟨t.tag, [(p, t)]⟩

abbrev Cell := List (Nat × List Elem)     -- item ↦ deque, dict order
abbrev TV := List (Tag × Cell)            -- tag ↦ cell, dict order
/-- one emitted schema: port ↦ retagged token, in dict order -/
abbrev Emit := List (Nat × Tok)

inductive Err | indexError | keyError
deriving DecidableEq, Repr

/-- `_is_parent_tag(tag, parent)`: `tag.split(".")[:len(parent_idx)] == parent_idx`.
    The empty component list stands for the empty string, whose `split(".")` is `[""]` — a prefix of
    nothing but itself. -/
def isParentTag (tag parent : Tag) : Bool :=
  if parent = [] then tag = [] else Gen.isParentComps tag parent

/-- `Combinator._add_to_port`: create the deque when missing, append on the right -/
def addToPort : Cell → Nat → Elem → Cell
  | [], p, e => [(p, [e])]
  | (q, d) :: r, p, e => if q = p then (q, d ++ [e]) :: r else (q, d) :: addToPort r p e

/-- `CartesianProductCombinator._add_to_port`: same, but an element whose tag is already in the deque is
    dropped (the deque is still created) -/
def addToPortDedup : Cell → Nat → Elem → Cell
  | [], p, e => [(p, [e])]
  | (q, d) :: r, p, e =>
      if q = p then (if Gen.cartDedup && d.any (fun t => t.tag = e.tag) then (q, d) :: r else (q, d ++ [e]) :: r)
      else (q, d) :: addToPortDedup r p e

def tvGet (tv : TV) (k : Tag) : Option Cell := tv.lookup k

/-- `f(self._token_values.setdefault(k, {}))` -/
def tvUpd (f : Cell → Cell) : TV → Tag → TV
  | [], k => [(k, f [])]
  | (k', c) :: r, k => if k' = k then (k', f c) :: r else (k', c) :: tvUpd f r k

/-- `for t in deque: self._add_to_port(t, self._token_values.setdefault(tag, {}), p)` -/
def copyDeque (ap : Cell → Nat → Elem → Cell) (tag : Tag) (p : Nat) : List Elem → TV → TV
  | [], tv => tv
  | t :: ts, tv => copyDeque ap tag p ts (tvUpd (fun c => ap c p t) tv tag)

/-- `for p in self._token_values[key]: for t in self._token_values[key][p]: …` -/
def copyCell (ap : Cell → Nat → Elem → Cell) (tag : Tag) : Cell → TV → TV
  | [], tv => tv
  | (p, d) :: r, tv => copyCell ap tag r (copyDeque ap tag p d tv)

/-- the `for key in list(self._token_values.keys())` loop of `_add_to_list` (propagate = True) -/
def addLoop (ap : Cell → Nat → Elem → Cell) (tag : Tag) (item : Nat) (e : Elem) : List Tag → TV → TV
  | [], tv => tv
  | key :: ks, tv =>
      addLoop ap tag item e ks
        (if tag = key then tv
         else if isParentTag key tag then tvUpd (fun c => ap c item e) tv key
         else if isParentTag tag key then copyCell ap tag ((tvGet tv key).getD []) tv
         else tv)

/-- `Combinator._add_to_list(token, item, depth, propagate=True)`; `tag` is the (already truncated) key -/
def addToList (ap : Cell → Nat → Elem → Cell) (tv : TV) (tag : Tag) (item : Nat) (e : Elem) : TV :=
  tvUpd (fun c => ap c item e) (addLoop ap tag item e (tv.map (·.1)) tv) tag

/-! ### `DotProductCombinator._product` -/

/-- `min(len(i) for i in cell.values())` -/
def minLen : Cell → Nat
  | [] => 0
  | [(_, d)] => d.length
  | (_, d) :: r => min d.length (minLen r)

/-- `elements.pop()` (from the right; `popleft()` would take from the left): `none` is the `IndexError` -/
def popOne (d : List Elem) : Option (Elem × List Elem) :=
  if Gen.dotPopsRight then d.getLast?.map (fun e => (e, d.dropLast))
  else match d with
    | [] => none
    | e :: r => some (e, r)

/-- `for key, elements in cell.items(): element = elements.pop()` — `none` is the `IndexError` of an
    empty deque -/
def popAll : Cell → Option (List Elem × Cell)
  | [] => some ([], [])
  | (p, d) :: r =>
      match popOne d with
      | none => none
      | some (e, d') => (popAll r).map (fun x => (e :: x.1, (p, d') :: x.2))

/-- replace the cell stored under an existing key (the deques are mutated in place) -/
def tvSet (tv : TV) (k : Tag) (c : Cell) : TV := tv.map (fun x => if x.1 = k then (k, c) else x)

/-- the schema assembled from the popped elements and its `get_tag` -/
def schemaOf (es : List Elem) : List (Nat × Tok) := es.flatMap (·.toks)
def schemaTag (s : List (Nat × Tok)) : Tag := getTag (s.map (·.2.tag))
def retagAll (tag : Tag) (s : List (Nat × Tok)) : Emit := s.map (fun x => (x.1, { x.2 with tag := tag }))

structure Res where
  tv : TV
  out : List Emit
  err : Option Err := none
deriving DecidableEq, Repr

/-- `for _ in range(num_items)`: every iteration pops one element per item from the cell of the key `tag` and
    yields the schema retagged with `schema_tag = utils.get_tag(…)` (since fix 0672c9b the loop variable `tag` of the
    enclosing loop is no longer overwritten) -/
def prodIter : Nat → Tag → TV → List Emit → Res
  | 0, _, tv, out => ⟨tv, out, none⟩
  | n + 1, tag, tv, out =>
      match tvGet tv tag with
      | none => ⟨tv, out, some .keyError⟩
      | some c =>
          match popAll c with
          | none => ⟨tv, out, some .indexError⟩
          | some (es, c') =>
              let s := schemaOf es
              let tag' := schemaTag s
              prodIter n tag (tvSet tv tag c') (out ++ [retagAll tag' s])

/-- `for tag in list(self._token_values): if len(self._token_values[tag]) == len(self.items): …` -/
def prodLoop (nItems : Nat) : List Tag → TV → List Emit → Res
  | [], tv, out => ⟨tv, out, none⟩
  | key :: ks, tv, out =>
      match tvGet tv key with
      | none => ⟨tv, out, some .keyError⟩
      | some c =>
          if Gen.dotEmitGuard c.length nItems then
            let r := prodIter (minLen c) key tv out
            match r.err with
            | some _ => r
            | none => prodLoop nItems ks r.tv r.out
          else prodLoop nItems ks tv out

def dotProduct (nItems : Nat) (tv : TV) : Res := prodLoop nItems (tv.map (·.1)) tv []

/-- `DotProductCombinator.combine` for an item of the combinator itself -/
def dotAdd (nItems : Nat) (tv : TV) (item : Nat) (e : Elem) : Res :=
  dotProduct nItems (addToList addToPort tv e.tag item e)

/-! ### `CartesianProductCombinator._product` -/

/-- `itertools.product(*vals)` over the cell in dict order (rightmost varies fastest), as `dict(zip(keys, …))` -/
def cartConfigs : List (Nat × List Elem) → List (List (Nat × Elem))
  | [] => [[]]
  | (k, vs) :: r => vs.flatMap (fun v => (cartConfigs r).map (fun cfg => (k, v) :: cfg))

/-- `{k: [token] if k == port_name else v for k, v in cell.items()}` -/
def cartArgs (c : Cell) (item : Nat) (e : Elem) : List (Nat × List Elem) :=
  c.map (fun x => if x.1 = item then (x.1, [e]) else x)

/-- `for key in self.items: schema[key] = config[key]` (flat items: one token per element);
    `none` = `KeyError` -/
def cartSchema (items : List Nat) (cfg : List (Nat × Elem)) : Option (List (Nat × Tok)) :=
  items.mapM (fun k => (cfg.lookup k).bind (fun e => e.toks.head?))

/-- `t.retag(".".join(t.tag.split(".")[:-1] + suffix))` for every member -/
def cartEmit (s : List (Nat × Tok)) : Emit :=
  let suffix := s.filterMap (fun x => Gen.cartSuffixOf x.2.tag)
  s.map (fun x => (x.1, { x.2 with tag := Gen.cartRetagKeep x.2.tag ++ suffix }))

def cartEmits (items : List Nat) : List (List (Nat × Elem)) → List Emit → Res
  | [], out => ⟨[], out, none⟩
  | cfg :: r, out =>
      match cartSchema items cfg with
      | none => ⟨[], out, some .keyError⟩
      | some s => cartEmits items r (out ++ [cartEmit s])

/-- `token.tag.split(".")[:-depth]` -/
def cartKey (depth : Nat) (t : Tag) : Tag := Gen.cartKey depth t

/-- `CartesianProductCombinator.combine` for a flat item: `_add_to_list(token, port, depth)` then `_product` -/
def cartAdd (depth : Nat) (items : List Nat) (tv : TV) (item : Nat) (e : Elem) : Res :=
  let key := cartKey depth e.tag
  let tv' := addToList addToPortDedup tv key item e
  match tvGet tv' key with
  | none => ⟨tv', [], some .keyError⟩
  | some c =>
      if Gen.cartEmitGuard c.length items.length then
        let r := cartEmits items (cartConfigs (cartArgs c item e)) []
        { r with tv := tv' }
      else ⟨tv', [], none⟩

/-! ### runs over an arrival sequence (flat combinators over ports `0 … P-1`) -/

abbrev Ev := Nat × Tok

/-- feed the events in order; stop at the first exception (the step would crash there) -/
def runWith (add : TV → Nat → Elem → Res) : List Ev → TV → List Emit → Res
  | [], tv, out => ⟨tv, out, none⟩
  | (p, t) :: es, tv, out =>
      let r := add tv p (Elem.ofTok p t)
      match r.err with
      | some e => ⟨r.tv, out ++ r.out, some e⟩
      | none => runWith add es r.tv (out ++ r.out)

def runDot (P : Nat) (es : List Ev) : Res := runWith (dotAdd P) es [] []
def runCart (depth P : Nat) (es : List Ev) : Res := runWith (cartAdd depth (List.range P)) es [] []

/-! ### nested: an outer dot product with flat inner combinators (the shapes the CWL translator builds:
    `dot[cart[…], others…]`, `dot[dot[…], others…]`) -/

inductive Kind
  | dot
  | cart (depth : Nat)
deriving DecidableEq, Repr

/-- an item of the outer combinator: a port, or a flat inner combinator over the listed ports -/
inductive Item
  | port (p : Nat)
  | sub (k : Kind) (ports : List Nat)
deriving DecidableEq, Repr

/-- the outer combinator files every item — a port or an inner combinator (its `name`) — under its position
    in `items`, so the item numbers are `0 … items.length - 1` -/
def findPort (p : Nat) : List Item → Nat → Option Nat
  | [], _ => none
  | .port q :: r, i => if q = p then some i else findPort p r (i + 1)
  | .sub _ _ :: r, i => findPort p r (i + 1)

/-- position of the inner combinator responsible for port `p` (`combinators_map`) -/
def findSub (p : Nat) : List Item → Nat → Option (Nat × Kind × List Nat)
  | [], _ => none
  | .port _ :: r, i => findSub p r (i + 1)
  | .sub k ports :: r, i => if p ∈ ports then some (i, k, ports) else findSub p r (i + 1)

structure NSt where
  outer : TV
  inner : List (Nat × TV)     -- state of inner combinator at position i
deriving Repr

def innerGet (s : NSt) (i : Nat) : TV := (s.inner.lookup i).getD []
def innerSet (s : NSt) (i : Nat) (tv : TV) : NSt :=
  { s with inner := if s.inner.any (·.1 = i) then s.inner.map (fun x => if x.1 = i then (i, tv) else x)
                    else s.inner ++ [(i, tv)] }

/-- `async for schema in c.combine(port, token): self._add_to_list(schema, c.name); async for product in
    self._product(): yield product` -/
def feedSchemas (nItems id : Nat) : List Emit → TV → List Emit → Res
  | [], tv, out => ⟨tv, out, none⟩
  | s :: ss, tv, out =>
      let e : Elem := ⟨schemaTag s, s⟩
      let r := dotAdd nItems tv id e
      match r.err with
      | some x => ⟨r.tv, out ++ r.out, some x⟩
      | none => feedSchemas nItems id ss r.tv (out ++ r.out)

structure NRes where
  st : NSt
  out : List Emit
  err : Option Err := none
deriving Repr

/-- `c.combine(port, token)` of a flat inner combinator of kind `k` over `ports` -/
def innerAdd (k : Kind) (ports : List Nat) (tv : TV) (p : Nat) (t : Tok) : Res :=
  match k with
  | .dot => dotAdd ports.length tv p (Elem.ofTok p t)
  | .cart d => cartAdd d ports tv p (Elem.ofTok p t)

/-- `DotProductCombinator.combine(port, token)` of the outer combinator -/
def nestedAdd (items : List Item) (s : NSt) (p : Nat) (t : Tok) : NRes :=
  match findSub p items 0 with
  | some (i, k, ports) =>
      let r := innerAdd k ports (innerGet s i) p t
      let s1 := innerSet s i r.tv
      -- the inner generator is consumed lazily, but it does not read the outer state: feeding the
      -- schemas it yielded (before raising, if it raises) is the same sequence of outer operations
      let r2 := feedSchemas items.length i r.out s1.outer []
      ⟨{ s1 with outer := r2.tv }, r2.out, match r2.err with | some x => some x | none => r.err⟩
  | none =>
      -- a port that is no item at all would raise `WorkflowExecutionException` in Python; the drivers never send one
      let r := dotAdd items.length s.outer ((findPort p items 0).getD items.length) (Elem.ofTok p t)
      ⟨{ s with outer := r.tv }, r.out, r.err⟩

def runNestedAux (items : List Item) : List Ev → NSt → List Emit → NRes
  | [], s, out => ⟨s, out, none⟩
  | (p, t) :: es, s, out =>
      let r := nestedAdd items s p t
      match r.err with
      | some e => ⟨r.st, out ++ r.out, some e⟩
      | none => runNestedAux items es r.st (out ++ r.out)

def runNested (items : List Item) (es : List Ev) : NRes := runNestedAux items es ⟨[], []⟩ []

/-! ### `CombinatorStep.run` (all input ports terminate with `COMPLETED`)

    `run` feeds every arriving token to `combinator.combine` and puts the tokens of every yielded schema on the output
    port of the same name, in emission order; then it terminates every output port. -/

/-- the data tokens put on output port `p`, in order -/
def portLog (p : Nat) (out : List Emit) : List Tok := out.filterMap (fun e => e.lookup p)

inductive StepStatus | completed | skipped
deriving DecidableEq, Repr

/-- `self._get_status(status)`: `SKIPPED` when some output port is empty, else `COMPLETED` (a data token arrived) -/
def stepStatus (ports : List Nat) (out : List Emit) : StepStatus :=
  if ports.any (fun p => (portLog p out).isEmpty) then .skipped else .completed

/-- `input_token_ids` of `_persist_token`: the ids of all tokens of the schema (a token's value stands for its id) -/
def schemaIds (e : Emit) : List Nat := e.map (fun x => x.2.val)

end SFV.Comb
