import SFV.Model.Sh
import SFV.Gen.CmdTemplates
/-! # Running a command on a location (C25)

* the three renderers of environment + working directory, assembled from the pieces the translator extracts
  (`SFV/Gen/CmdTemplates.lean`): `_build_shell_command` (persistent shell), `create_command` (subprocess path and
  `LocalConnector.run`), `CommandTemplateMap.get_command` (queue managers);
* `BaseShell._read_with_output`: the end-marker framing over an arbitrarily chunked stream;
* `BaseConnector.run`: persistent shell first, fall back to a fresh subprocess on any shell-side failure. -/
namespace SFV.ShellRun
open SFV.Sh SFV.Gen.Cmd

abbrev Str := List Char

/-- `sep.join(parts)` -/
def joinSep (sep : Str) : List Str → Str
  | [] => []
  | [a] => a
  | a :: b :: r => a ++ sep ++ joinSep sep (b :: r)

/-! ## renderers -/

/-- the parts of the sub-shell text of `_build_shell_command`: `cd`, one `export` per variable, the command -/
def bscParts (wd : Option Str) (env : List (Str × Str)) (cmd : Str) : List Str :=
  (match wd with | some w => [render bsc_cd [w]] | none => []) ++
  env.map (fun kv => render bsc_export [kv.1, kv.2]) ++ [cmd]

/-- the text handed to `sh -c` -/
def bscInner (wd : Option Str) (env : List (Str × Str)) (cmd : Str) : Str := joinSep bsc_sep (bscParts wd env cmd)

/-- `_build_shell_command(...)` (`wd = none` stands for `None` and for the empty string, `env = []` for `None`/`{}`) -/
def buildShellCommand (marker : Str) (wd : Option Str) (env : List (Str × Str)) (cmd : Str) : Str :=
  let c := if wd.isNone && env.isEmpty then render bsc_plain [cmd] else render bsc_wrap [bscInner wd env cmd]
  render bsc_frame [c, marker]

/-- `create_command(...)` without redirections: `cd wd && export K="v" && … command` -/
def createCommand (wd : Option Str) (env : List (Str × Str)) (cmd : Str) : Str :=
  (match wd with | some w => render cc_cd [w] | none => []) ++
  (env.map (fun kv => render cc_export [kv.1, kv.2])).flatten ++ cmd

/-- `create_command(...)` with the default redirections (`stderr == stdout`: ` 2>&1` is appended) -/
def createCommandDefault (wd : Option Str) (env : List (Str × Str)) (cmd : Str) : Str :=
  createCommand wd env (cmd ++ cc_merge)

/-- the `streamflow_environment` value `CommandTemplateMap.get_command` passes to the jinja template -/
def getCommandEnv (env : List (Str × Str)) : Str := joinSep gc_sep (env.map (fun kv => render gc_export [kv.1, kv.2]))

/-- what the command must see: every variable set to its value, in order -/
def applyEnv (vars : List (Str × Str)) (env : List (Str × Str)) : List (Str × Str) :=
  env.foldl (fun vs kv => setVar vs kv.1 kv.2) vars

/-- a variable name: non-empty, safe characters, no `=` -/
def keyOk (k : Str) : Bool := !k.isEmpty && k.all isSafe && !k.contains '='

/-! ## framing: `BaseShell._read_with_output` -/

/-- `s.find(pat)` -/
def find (pat : Str) : Str → Option Nat
  | [] => if pat.isEmpty then some 0 else none
  | c :: r => if pat.isPrefixOf (c :: r) then some 0 else (find pat r).map (· + 1)

/-- `str.isspace()` for one character (the characters `str.strip()` removes) -/
def isPySpace (c : Char) : Bool :=
  let n := c.toNat
  (9 ≤ n && n ≤ 13) || (28 ≤ n && n ≤ 32) || n = 0x85 || n = 0xa0 || n = 0x1680 || (0x2000 ≤ n && n ≤ 0x200a) ||
  n = 0x2028 || n = 0x2029 || n = 0x202f || n = 0x205f || n = 0x3000

def lstrip : Str → Str
  | [] => []
  | c :: r => if isPySpace c then lstrip r else c :: r

/-- `s.strip()` -/
def strip (s : Str) : Str := (lstrip (lstrip s).reverse).reverse

/-- the test after every chunk: `marker:` found and a newline after it → (stripped output, return-code text) -/
def tryParse (marker : Str) (output : Str) : Option (Str × Str) :=
  match find (marker ++ [':']) output with
  | none => none
  | some mp =>
      match find ['\n'] (output.drop mp) with
      | none => none
      | some nl => some (strip (output.take mp), (output.drop (mp + marker.length + 1)).take (nl - (marker.length + 1)))

/-- the read loop over the chunks delivered by the pipe; `none`: the chunks ran out (the real reader blocks and,
    with a timeout, raises); otherwise the result and the chunks not consumed -/
def readLoop (marker : Str) (acc : Str) : List Str → Option ((Str × Str) × List Str)
  | [] => none
  | ch :: rest =>
      match tryParse marker (acc ++ ch) with
      | some r => some (r, rest)
      | none => readLoop marker (acc ++ ch) rest

/-- what the shell writes for one command: its output, then the `echo "<marker>:$?"` line -/
def framed (out marker rc : Str) : Str := out ++ marker ++ [':'] ++ rc ++ ['\n']

/-- the marker text `marker:` does not start before position `n` of `s` -/
def NoEarly (pat s : Str) (n : Nat) : Prop := ∀ p, p < n → pat.isPrefixOf (s.drop p) = false

/-- cut a text into chunks of the given sizes (each `n+1`), the rest being the last chunk: every chunking -/
def chunkBy : List Nat → Str → List Str
  | [], s => if s.isEmpty then [] else [s]
  | n :: ns, s => if s.isEmpty then [] else s.take (n + 1) :: chunkBy ns (s.drop (n + 1))

/-! ## `BaseConnector.run`: persistent shell, then fallback -/

/-- a command as the transport sees it: what it prints and its exit status text; `marker` is the uuid of this call -/
structure Cmd where
  out : Str
  rc : Str
  marker : Str
deriving DecidableEq, Repr

inductive Outcome
  | ok (cuts : List Nat)   -- the shell answers in time; the pipe delivers its bytes cut as `cuts`
  | timeout                -- the read times out before the answer arrives (the command keeps running in the shell)
deriving DecidableEq, Repr

structure St where
  pipe : Str := []                    -- bytes written by the shell, not yet consumed by a reader
  execs : List Nat := []              -- how many times each command of the history was executed
  results : List (Str × Str) := []    -- what `run` returned for each command
deriving DecidableEq, Repr

/-- result of running the command in a fresh process: `(stdout.strip(), returncode)` -/
def fresh (c : Cmd) : Str × Str := (strip c.out, c.rc)

/-- one call of `BaseConnector.run` -/
def runStep (s : St) (c : Cmd) : Outcome → St
  | .ok cuts =>
      -- the shell executes the command once and writes the framed answer
      let pipe := s.pipe ++ framed c.out c.marker c.rc
      match readLoop c.marker [] (chunkBy cuts pipe) with
      | some (r, rest) => { pipe := rest.flatten, execs := s.execs ++ [1], results := s.results ++ [r] }
      | none =>
          -- nothing parsed: the reader blocks until the timeout, then the fallback runs the command again
          { pipe := [], execs := s.execs ++ [2], results := s.results ++ [fresh c] }
  | .timeout =>
      -- the command was written to the shell (it runs there, its answer arrives later) and the
      -- `WorkflowExecutionException` is suppressed: `run_in_subprocess` executes it again
      { pipe := s.pipe ++ framed c.out c.marker c.rc, execs := s.execs ++ [2], results := s.results ++ [fresh c] }

def runAll (s : St) : List (Cmd × Outcome) → St
  | [] => s
  | (c, o) :: r => runAll (runStep s c o) r

end SFV.ShellRun
