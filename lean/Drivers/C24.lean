import SFV.Model.Sh
import SFV.Model.FS
import SFV.Model.FSL
import SFV.Gen.CmdTemplates
import SFV.Model.Proto
open SFV SFV.Proto SFV.Sh

def hexL (s : List Char) : String := hexOfString (String.ofList s)
def unhexL (h : String) : Option (List Char) := (stringOfHex h).map (·.toList)

def showItem : Item → String
  | .word w => s!"w:{hexL w.cs}:{if w.exp then 1 else 0}"
  | .op s => s!"o:{hexL s}"

def showRes : Res → String
  | .ok items => " ".intercalate ("ok" :: items.map showItem)
  | .unterminated => "unterminated"
  | .subst => "subst"

/-- a file system from the lists of its directories and files (paths as `/`-separated strings below the root) -/
def mkFS (dirs files : List String) : FS.FS := fun q =>
  let s := "/".intercalate q
  if q = [] then some .dir else if dirs.contains s then some .dir else if files.contains s then some (.file []) else none

def prefixes (p : List String) : List (List String) := (List.range p.length).map (fun i => p.take (i + 1))

def showFs (r : Option FS.FS) (p : List String) : String :=
  match r with
  | none => "error"
  | some fs => "ok " ++ String.join ((prefixes p).map (fun q => if FS.isDir fs q then "1" else "0"))

def splitAtTok (tok : String) (l : List String) : List String × List String :=
  (l.takeWhile (· ≠ tok), (l.dropWhile (· ≠ tok)).drop 1)

/-! `fsl` lines: a file system with links from its entry list `d:<path>`, `f:<path>:<size>:<mode>`, `l:<path>:<target>` (hex, `/`-separated) -/
def comps (s : String) : List String := (s.splitOn "/").filter (· ≠ "")

def parseEntry (e : String) : Option (List String × FSL.Node) :=
  match e.splitOn ":" with
  | ["d", p] => (stringOfHex p).map (fun p => (comps p, .dir))
  | ["f", p, sz, m] => do
      let p ← stringOfHex p
      let n ← sz.toNat?
      let m ← m.toNat?
      pure (comps p, .file (List.replicate n 'x') m)
  | ["l", p, t, n] => do
      let p ← stringOfHex p
      let t ← stringOfHex t
      let n ← n.toNat?
      pure (comps p, .link (comps t) n)
  | _ => none

def mkFSL (es : List (List String × FSL.Node)) : FSL.FS := fun q => if q = [] then some .dir else (es.lookup q)

def kindAt (fs : FSL.FS) (p : List String) : String :=
  match fs p with
  | some .dir => "d"
  | some (.file _ m) => s!"f{m}"
  | some (.link _ _) => "l"
  | none => "-"

def showLink (r : Option FSL.FS) (p : List String) (base : String) : String :=
  match r with
  | none => "error"
  | some fs => s!"ok {kindAt fs p} {kindAt fs (p ++ [base])}"

def handle : List String → String
  | "render" :: name :: args =>
      match Gen.Cmd.table.lookup name, args.mapM unhexL with
      | some t, some args => hexL (render t args)
      | _, _ => "bad-op"
  | "verbatim" :: name :: args =>
      match Gen.Cmd.table.lookup name, args.mapM unhexL with
      | some t, some args => s!"{verbatimOn t args} {showRes (lexLine (render t args))}"
      | _, _ => "bad-op"
  | ["quoted", name] =>
      match Gen.Cmd.table.lookup name with
      | some t => toString (allShQuoted t)
      | none => "bad-op"
  | "fsmkdir" :: par :: eok :: ph :: rest =>
      -- fsmkdir <parents> <exist_ok> <path> D <dirs…> F <files…>
      let (ds, fs) := splitAtTok "F" (rest.drop 1)
      match stringOfHex ph, ds.mapM stringOfHex, fs.mapM stringOfHex with
      | some p, some ds, some fs =>
          let path := (p.splitOn "/").filter (· ≠ "")
          let fsys := mkFS ds fs
          let l := FS.localMkdir (path.length - 1) fsys path (par == "1") (eok == "1")
          let r := FS.remoteMkdir fsys path (par == "1") (eok == "1")
          s!"L {showFs l path} R {showFs r path}"
      | _, _, _ => "bad-op"
  | "fsl" :: op :: ph :: a1 :: a2 :: "E" :: es =>
      match stringOfHex ph, stringOfHex a1, es.mapM parseEntry with
      | some p, some x, some es =>
          let fs := mkFSL es
          let path := comps p
          let dom := es.map (·.1)
          if op == "symlink" then
            let t := comps x
            let base := t.getLast?.getD ""
            let tl := a2.toNat?.getD 0
            s!"L {showLink (FSL.localSymlink fs path t tl) path base} R {showLink (FSL.remoteSymlink fs path t tl base) path base}"
          else if op == "hardlink" then
            let t := comps x
            let base := t.getLast?.getD ""
            s!"L {showLink (FSL.localHardlink fs path t) path base} R {showLink (FSL.remoteHardlink fs path t base) path base}"
          else if op == "size" then
            s!"L {FSL.localSize fs dom path} R {FSL.remoteSize fs dom path}"
          else if op == "chmod" then
            let mode := x.toNat?.getD 0
            let follow := a2 == "1"
            let sh := fun (r : Option FSL.FS) => match r with | none => "error" | some f => s!"ok {kindAt f ((FSL.resolve FSL.FUEL f path).getD path)}"
            s!"L {sh (FSL.localChmod fs path mode follow)} R {sh (FSL.remoteChmod fs path mode follow)}"
          else "bad-op"
      | _, _, _ => "bad-op"
  | ["lex", h] =>
      match unhexL h with
      | some s => showRes (lexLine s)
      | none => "bad-op"
  | _ => "bad-op"

def main : IO Unit := runPure handle
