import SFV.Lemmas.Sh
import SFV.Lemmas.FS
import SFV.Model.FSL
import SFV.Model.ShellRun
import SFV.Gen.CmdTemplates
/-! # C24 — remote path operations agree with the local filesystem

Property theorems about the *command construction* of `RemoteStreamFlowPath` (the part of C24 that is proved; the
agreement of results and file-system states with the local API is validated differentially by the check, see
design_notes/C24.md). The templates come from `SFV/Gen/CmdTemplates.lean`, regenerated from the source on every run. -/
namespace SFV.C24
open SFV.Sh SFV.Gen.Cmd

/-- **`shlex.quote` round trip**: for every string, the shell reads `shlex.quote(s)` as the single word `s`, nothing
    interpreted -/
theorem sh_quote_roundtrip (s : List Char) : lexLine (shlexQuote s) = .ok [.word { cs := s }] :=
  lexLine_shlexQuote s

/-- `shlex.quote(s)` is verbatim in the middle of a command line too: after any text that leaves the shell in
    unquoted mode, and whatever follows -/
theorem sh_quote_in_context (pre post s : List Char) (h : (feed init pre).mode = .unq) :
    feed init (pre ++ shlexQuote s ++ post) = feed ((feed init pre).pushLit s) post := by
  rw [feed_append, feed_append, feed_shlexQuote _ _ h]

/-- **Quoted templates are verbatim**: a template whose argument occurrences all go through `shlex.quote` (or are
    numbers), each met where a word may start, denotes — for every argument list — exactly the command line in which
    the argument values stand as literal text of single words. -/
theorem template_verbatim (t : Template) (args : List (List Char)) (hq : allShQuoted t = true)
    (hp : placed ⟨.unq, true⟩ t = true) (hs : safeArgsOk t args = true) :
    lexLine (render t args) = specLine t args := by
  unfold lexLine specLine
  rw [feed_render_quoted t init args hq hp hs]

/-- the operations of `RemoteStreamFlowPath` that quote their path today: the baseline that must stay quoted -/
def mustQuote : List Template :=
  exists_all ++ is_dir_all ++ is_file_all ++ is_symlink_all ++ is_executable_all ++ checksum_all ++ resolve_all ++ walk_all

/-- **per-operation obligations** (generated templates, fixed baseline): `exists`, `is_dir`, `is_file`, `is_symlink`,
    `is_executable`, `checksum`, `resolve`, `walk` quote every path occurrence, in a position where a word may start.
    Fails to check as soon as one of them stops quoting. -/
theorem quoted_ops_stay_quoted : mustQuote.all (fun t => allShQuoted t && placed ⟨.unq, true⟩ t) = true := by
  decide

/-- hence each of them is verbatim for every path -/
theorem quoted_ops_verbatim (t : Template) (ht : t ∈ mustQuote) (path : List Char) :
    lexLine (render t [path]) = specLine t [path] := by
  have h := List.all_eq_true.mp quoted_ops_stay_quoted t ht
  simp only [Bool.and_eq_true] at h
  refine template_verbatim t [path] h.1 h.2 ?_
  -- none of these templates has a `safe` piece
  have hs : mustQuote.all (fun t => t.all (fun p => match p with | .safe _ => false | _ => true)) = true := by decide
  have := List.all_eq_true.mp hs t ht
  simp only [safeArgsOk, List.all_eq_true] at this ⊢
  intro p hp
  have := this p hp
  cases p <;> simp_all

/-- `exists`: the shell sees exactly `test -e <path>` for every path -/
theorem exists_verbatim (path : List Char) :
    lexLine (render exists_0 [path]) =
      .ok [.word { cs := ['t', 'e', 's', 't'] }, .word { cs := ['-', 'e'] }, .word { cs := path }] := by
  rw [quoted_ops_verbatim exists_0 (by decide) path]
  have hf : feed init ['t', 'e', 's', 't', ' ', '-', 'e', ' ']
      = { out := [.word { cs := ['t', 'e', 's', 't'] }, .word { cs := ['-', 'e'] }] } := by decide
  simp [specLine, specFeed, exists_0, hf, finish, LexSt.insert, LexSt.closeOp, LexSt.pushLit, LexSt.flush, arg]

/-- every argument occurrence `i` of the template goes through `shlex.quote` -/
def argQuoted (t : Template) (i : Nat) : Bool :=
  t.all (fun p => match p with | .raw j => j != i | .dq j => j != i | _ => true)

/-- `glob` quotes the directory path (argument 0); the pattern (argument 1) is meant for the shell -/
theorem glob_quotes_path : glob_all.all (fun t => argQuoted t 0 && placed ⟨.unq, true⟩ t) = true := by decide

/-! ### the tie between "not quoted" and "not verbatim" -/

/-- witness argument values: a blank, a parameter expansion, a command substitution, a double quote -/
def witnesses : List (List Char) := [['a', ' ', 'b'], ['$', 'x'], ['`', 'x', '`'], ['a', '"', 'b']]

def nArgs (t : Template) : Nat :=
  t.foldl (fun n p => match p with | .lit _ => n | .raw i | .shq i | .dq i | .safe i => max n (i + 1)) 0

/-- the witness `w` at every argument position, `7` at the numeric ones -/
def witArgs (t : Template) (w : List Char) : List (List Char) :=
  (List.range (nArgs t)).map (fun i => if t.any (fun p => p == .safe i) then ['7'] else w)

def witnessFails (t : Template) : Bool := witnesses.any (fun w => !verbatimOn t (witArgs t w))

/-- **every extracted template either quotes all its arguments or is demonstrably not verbatim** on one of the four
    witness strings: the syntactic criterion `allShQuoted` used by the obligations is exact on today's templates. -/
theorem every_template_quoted_or_witness :
    allTemplates.all (fun t => (allShQuoted t && placed ⟨.unq, true⟩ t) != witnessFails t) = true := by
  decide +kernel

/-! ### refinement of the local API on a file-system model (no symbolic links)

`SFV/Model/FS.lean`: what `test`, `mkdir [-p]`, `rm -rf`, `cat` do is *assumed* (textbook behaviour, validated
differentially); what is proved is how the flag logic and post-processing of `RemoteStreamFlowPath` relate to
`LocalStreamFlowPath`. Together with `quoted_ops_verbatim` (the shell sees the intended path) this is
`op_refines_local` for the operations below; all other operations are validated differentially only. -/
open SFV.FS

/-- `exists` / `is_dir` / `is_file`: `test -e <path>` (`-d`, `-f`) answers what the local API answers -/
theorem test_ops_refine_local (fs : FS) (p : Path) :
    remoteExists fs p = exists_ fs p ∧ remoteIsDir fs p = isDir fs p ∧ remoteIsFile fs p = isFile fs p :=
  ⟨rfl, rfl, rfl⟩

/-- the local `mkdir` at the top level: the recursion into parents needs at most `len - 1` steps -/
def localMkdirTop (fs : FS) (p : Path) (parents existOk : Bool) : Option FS := localMkdir (p.length - 1) fs p parents existOk

/-- **`mkdir` agrees with the local API when `parents = exist_ok`** (what is missing for the full statement: the remote side
    adds `-p` when *either* flag is set) -/
theorem mkdir_refines_local_partial (fs : FS) (p : Path) (b : Bool) :
    remoteMkdir fs p b b = localMkdirTop fs p b b := by
  unfold remoteMkdir localMkdirTop
  cases b with
  | true =>
    simp only [Bool.or_self, if_true]
    cases p with
    | nil =>
      simp only [List.length_nil, mkdirP]
      rw [localMkdir.eq_def]
      cases h : fs [] with
      | none => simp [isDir, h]
      | some nd => cases nd <;> simp [isDir, h]
    | cons a r =>
      show mkdirP (r.length + 1) fs (a :: r) = localMkdir (r.length + 1 - 1) fs (a :: r) true true
      rw [mkdirP_eq_local]; rfl
  | false =>
    simp only [Bool.or_self, Bool.false_eq_true, if_false]
    unfold mkdirPlain
    rw [localMkdir.eq_def]
    by_cases he : p = []
    · subst he
      cases h : fs [] <;> simp [h]
    · cases h : fs p with
      | some nd => simp [he, h]
      | none =>
        simp only [he, if_false, h, Option.isSome_none, Bool.false_eq_true]
        cases hpar : fs p.dropLast with
        | none => simp [isDir, hpar]
        | some nd => cases nd <;> simp [isDir, hpar]

/-- a root directory and nothing else -/
def emptyRoot : FS := fun q => if q = [] then some .dir else none

/-- the full statement is FALSE: `mkdir(parents=False, exist_ok=True)` with a missing parent fails locally, succeeds remotely -/
theorem mkdir_exist_ok_implies_parents_false :
    localMkdirTop emptyRoot ["a", "b"] false true = none ∧ (remoteMkdir emptyRoot ["a", "b"] false true).isSome = true := by
  constructor
  · simp [localMkdirTop, localMkdir, emptyRoot]
  · simp [remoteMkdir, mkdirP, emptyRoot, isDir]

/-- … and `mkdir(parents=True, exist_ok=False)` on an existing directory fails locally, succeeds remotely -/
theorem mkdir_parents_implies_exist_ok_false :
    localMkdirTop emptyRoot [] true false = none ∧ (remoteMkdir emptyRoot [] true false).isSome = true := by
  constructor
  · simp [localMkdirTop, localMkdir, emptyRoot]
  · simp [remoteMkdir, mkdirP, emptyRoot, isDir]

/-- **`rmtree` agrees with the local API** on well-formed file systems (without symbolic links) -/
theorem rmtree_refines_local (fs : FS) (p : Path) (hwf : WF fs) : remoteRmtree fs p = localRmtree fs p := by
  unfold remoteRmtree rmRf localRmtree
  by_cases he : exists_ fs p = true
  · simp [he]
  · simp only [he, if_false, Bool.false_eq_true]
    funext q
    simp only [removeTree]
    by_cases hpre : p <+: q
    · simp only [hpre, if_true]
      -- nothing exists below a missing path
      by_cases hq : fs q = none
      · exact hq.symm
      · exfalso
        by_cases hpq : p = q
        · subst hpq; simp [exists_] at he; exact hq he
        · have := hwf q hq p hpre hpq
          simp [exists_, this] at he
    · simp [hpre]

/-- `cat <path>` through the shell, then `result.strip()` -/
def remoteReadText (fs : FS) (p : Path) : Option (List Char) :=
  match fs p with
  | some (.file c) => some (SFV.ShellRun.strip c)
  | _ => none

def localReadText (fs : FS) (p : Path) : Option (List Char) :=
  match fs p with
  | some (.file c) => some c
  | _ => none

/-- **`read_text` equals the local result only up to `strip`** -/
theorem read_text_refines_local_partial (fs : FS) (p : Path) :
    remoteReadText fs p = (localReadText fs p).map SFV.ShellRun.strip := by
  unfold remoteReadText localReadText
  cases h : fs p with
  | none => rfl
  | some nd => cases nd <;> rfl

/-- the full statement is FALSE: a trailing newline is lost -/
theorem read_text_full_false :
    remoteReadText (fun q => if q = ["f"] then some (.file ['x', '\n']) else none) ["f"]
      ≠ localReadText (fun q => if q = ["f"] then some (.file ['x', '\n']) else none) ["f"] := by
  decide

/-! ### links, modes, sizes: `SFV/Model/FSL.lean`

`symlink_to`, `hardlink_to`, `chmod`, `size`, `checksum` and the `is_*` tests on symbolic links, over a file-system model with
links (absolute targets), file modes and a finite entry listing. Utility behaviour is assumed; proved is how the command logic of
`RemoteStreamFlowPath` relates to the local API, with the exact side condition under which they agree and a witness outside it. -/
open SFV.FSL

/-- for anything that is not a symbolic link, `stat` and `lstat` agree -/
theorem stat_of_not_link (fs : FSL.FS) (q : FSL.Path) (h : isLink fs q = false) : stat fs q = lstat fs q := by
  unfold stat lstat
  have : FUEL = 39 + 1 := rfl
  rw [this]
  unfold isLink lstat at h
  simp only [resolve]
  cases hq : fs q with
  | none => simp
  | some n =>
    cases n with
    | link t n => simp [hq] at h
    | dir => simp [hq]
    | file c m => simp [hq]

/-- `exists` / `is_file` / `is_dir` / `is_symlink` in the presence of links: `test -e`, `-f`, `-d` follow links like `os.stat`,
    `test -L` looks at the link itself like `os.lstat` -/
theorem link_tests_refine_local (fs : FSL.FS) (p : FSL.Path) :
    testE fs p = localExists fs p ∧ testF fs p = localIsFile fs p ∧ testD fs p = localIsDir fs p ∧ testL fs p = localIsSymlink fs p :=
  ⟨rfl, rfl, rfl, rfl⟩

/-- a dangling link: `exists` is false on both sides, `is_symlink` true on both sides -/
example : testE (fun q => if q = ["l"] then some (.link ["missing"] 7) else if q = [] then some .dir else none) ["l"] = false ∧
    testL (fun q => if q = ["l"] then some (.link ["missing"] 7) else if q = [] then some .dir else none) ["l"] = true := by decide

/-- **`symlink_to` agrees with the local API when nothing is at the destination** (what is missing for the full statement:
    `ln -snf` replaces an existing file or link and creates the link *inside* an existing directory, `os.symlink` refuses both) -/
theorem symlink_to_refines_local_partial (fs : FSL.FS) (p target : FSL.Path) (tlen : Nat) (base : String) (h : lstat fs p = none) :
    remoteSymlink fs p target tlen base = localSymlink fs p target tlen := by
  unfold remoteSymlink localSymlink isDirL
  simp [h]

/-- a root directory with a file `f` and a directory `d` -/
def fs1 : FSL.FS := fun q =>
  if q = [] then some .dir else if q = ["f"] then some (.file ['a', 'b', 'c'] 0o644) else if q = ["d"] then some .dir else none

theorem symlink_to_existing_file_false :
    localSymlink fs1 ["f"] ["d"] 1 = none ∧ (remoteSymlink fs1 ["f"] ["d"] 1 "d").isSome = true := by decide

theorem symlink_to_existing_dir_false :
    localSymlink fs1 ["d"] ["f"] 1 = none ∧
    (remoteSymlink fs1 ["d"] ["f"] 1 "f").map (fun fs => fs ["d", "f"]) = some (some (.link ["f"] 1)) := by decide

/-- non-vacuity: a fresh name in an existing directory -/
example : remoteSymlink fs1 ["d", "new"] ["f"] 4 "f" = localSymlink fs1 ["d", "new"] ["f"] 4 ∧
    (localSymlink fs1 ["d", "new"] ["f"] 4).isSome = true :=
  ⟨symlink_to_refines_local_partial fs1 _ _ _ _ (by decide), by decide⟩

/-- **`hardlink_to` agrees with the local API when nothing is at the destination** (a regular file or a symbolic link as target:
    both sides link the entry itself; anything else is an error on both sides) -/
theorem hardlink_to_refines_local_partial (fs : FSL.FS) (p target : FSL.Path) (base : String) (h : lstat fs p = none) :
    remoteHardlink fs p target base = localHardlink fs p target := by
  unfold remoteHardlink localHardlink isDirL
  cases hl : linkable (lstat fs target) with
  | none => rfl
  | some nd =>
    have hne : (p == target) = false := by
      cases hpt : (p == target) with
      | false => rfl
      | true =>
        have : p = target := by simpa using hpt
        subst this
        simp [h, linkable] at hl
    simp [h, hne]

theorem hardlink_to_existing_false :
    localHardlink fs1 ["d"] ["f"] = none ∧ (remoteHardlink fs1 ["d"] ["f"] "f").isSome = true := by decide

example : (localHardlink fs1 ["g"] ["f"]).map (fun fs => fs ["g"]) = some (some (.file ['a', 'b', 'c'] 0o644)) := by decide

/-- **`chmod` agrees with the local API when links are followed** (the default) -/
theorem chmod_refines_local_partial (fs : FSL.FS) (p : FSL.Path) (mode : Nat) :
    remoteChmod fs p mode true = localChmod fs p mode true := rfl

/-- `chmod(follow_symlinks=False)`: fine locally on a regular file, always an error remotely (`chmod -h`) -/
theorem chmod_nofollow_false :
    (localChmod fs1 ["f"] 0o600 false).isSome = true ∧ remoteChmod fs1 ["f"] 0o600 false = none := by decide

example : (remoteChmod fs1 ["f"] 0o755 true).map (fun fs => fs ["f"]) = some (some (.file ['a', 'b', 'c'] 0o755)) := by decide

/-- **`size` agrees with the local API on trees without symbolic links** (`find -L` follows links, the local walk skips them) -/
theorem size_refines_local_partial (fs : FSL.FS) (dom : List FSL.Path) (p : FSL.Path)
    (hnl : ∀ q, p <+: q → isLink fs q = false) : remoteSize fs dom p = localSize fs dom p := by
  unfold remoteSize localSize
  have hp := hnl p (List.prefix_refl p)
  have hsym : localIsSymlink fs p = false := hp
  have hf : testF fs p = localIsFile fs p := rfl
  have hls : ∀ q, isLink fs q = false → lsSize fs q = fileSize (lstat fs q) := by
    intro q hq
    unfold lsSize
    rw [stat_of_not_link fs q hq]
    unfold isLink at hq
    cases hl : lstat fs q with
    | none => rfl
    | some nd => cases nd <;> simp_all [fileSize]
  rw [hf, hsym, hls p hp]
  simp only [Bool.false_eq_true, if_false]
  congr 2
  apply List.map_congr_left
  intro q hq
  simp only [List.mem_filter, Bool.and_eq_true, decide_eq_true_eq] at hq
  rw [hnl q hq.2.1, hls q (hnl q hq.2.1)]
  simp

/-- a directory `d` with a link `d/l` to the file `f` (3 bytes) -/
def fs2 : FSL.FS := fun q =>
  if q = [] then some .dir else if q = ["f"] then some (.file ['a', 'b', 'c'] 0o644) else if q = ["d"] then some .dir
  else if q = ["d", "l"] then some (.link ["f"] 4) else none

/-- with a link below the directory the two sides differ: 0 locally; remotely `find -L` selects the link and `ls -ln` adds the
    length of its text (4 for `../f`) -/
theorem size_with_link_false :
    localSize fs2 [[], ["f"], ["d"], ["d", "l"]] ["d"] = 0 ∧ remoteSize fs2 [[], ["f"], ["d"], ["d", "l"]] ["d"] = 4 := by decide

example : remoteSize fs1 [[], ["f"], ["d"]] [] = 3 ∧ localSize fs1 [[], ["f"], ["d"]] [] = 3 := by decide

/-- **`checksum` agrees with the local API on regular files** (also through links); for anything else the local API answers
    `None` and the remote side the empty string -/
theorem checksum_refines_local_partial (h : List Char → List Char) (fs : FSL.FS) (p : FSL.Path) (hf : testF fs p = true) :
    remoteChecksum h fs p = localChecksum h fs p := by
  unfold remoteChecksum localChecksum
  unfold testF at hf
  cases hs : stat fs p with
  | none => simp [hs] at hf
  | some n => cases n <;> simp_all

theorem checksum_non_file_false (h : List Char → List Char) :
    localChecksum h fs1 ["d"] = none ∧ remoteChecksum h fs1 ["d"] = some [] := by
  constructor <;> rfl

example (h : List Char → List Char) : testF fs2 ["d", "l"] = true ∧ localChecksum h fs2 ["d", "l"] = some (h ['a', 'b', 'c']) := by
  constructor
  · decide
  · rfl

end SFV.C24
