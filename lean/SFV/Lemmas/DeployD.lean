import SFV.Lemmas.DeployF
/-! An eager `connector.deploy()` call (`pc = dConn`) exists only in the non-lazy configuration. -/
namespace SFV.Deploy

def InvD (s : St) : Prop := ∀ p o, s.pc p = .dConn o → s.lazy = false

theorem invD_init (lazy kinds) : InvD (init lazy kinds) := by
  intro p o h; rcases init_pc lazy kinds p with ⟨k, hk⟩ | hk <;> simp_all

theorem invD_setPc {s : St} {p c} (h : InvD s) (hc : ∀ o, c = Pc.dConn o → s.lazy = false := by intros; simp_all) :
    InvD (setPc s p c) := by
  intro q o hq
  simp only [setPc_pc] at hq
  split at hq
  · exact hc o hq
  · exact h q o hq

theorem setEvent_pc_dConn {s : St} {e q o} : (setEvent s e).pc q = .dConn o ↔ s.pc q = .dConn o := by
  simp only [setEvent_pc]; split <;> (try split) <;> simp_all

theorem wakeFut_pc_dConn {s : St} {g q o} : (wakeFut s g).pc q = .dConn o ↔ s.pc q = .dConn o := by
  simp only [wakeFut_pc]; split <;> (try split) <;> simp_all

theorem invD_setEvent {s : St} {e} (h : InvD s) : InvD (setEvent s e) := by
  intro q o hq; exact h q o (setEvent_pc_dConn.mp hq)

theorem invD_wakeFut {s : St} {f} (h : InvD s) : InvD (wakeFut s f) := by
  intro q o hq; exact h q o (wakeFut_pc_dConn.mp hq)

/-- any change that leaves `pc` and `lazy` alone -/
theorem invD_congr {s t : St} (h : InvD s) (hpc : t.pc = s.pc) (hl : t.lazy = s.lazy) : InvD t := by
  intro q o hq; rw [hpc] at hq; rw [hl]; exact h q o hq

theorem invD_finishDeploy {s : St} {p} (h : InvD s) : InvD (finishDeploy s p) := by
  unfold finishDeploy; split
  · exact invD_setPc (invD_congr h rfl rfl)
  · exact invD_setPc h

theorem invD_register {s : St} {p} (h : InvD s) : InvD (register s p) := by
  unfold register
  split
  · exact invD_finishDeploy (invD_setEvent (invD_congr h rfl rfl))
  · rename_i hl
    refine invD_setPc (invD_congr h rfl rfl) ?_
    intro o _; simpa using hl

theorem invD_afterWait {s : St} {p} (h : InvD s) : InvD (afterWait s p) := by
  unfold afterWait; split
  · exact invD_setPc h
  · split
    · exact invD_finishDeploy h
    · exact invD_register h

theorem invD_loopHead {s : St} {p} (h : InvD s) : InvD (loopHead s p) := by
  unfold loopHead; split
  · exact invD_register h
  · split
    · exact invD_setPc h
    · split
      · exact invD_afterWait h
      · exact invD_setPc h

theorem invD_callUndeploy {s : St} {p o e} (h : InvD s) : InvD (callUndeploy s p o e) := by
  unfold callUndeploy; exact invD_setPc (invD_congr h rfl rfl)

theorem invD_uBody {cfg : Cfg} {s : St} {p} (h : InvD s) : InvD (uBody cfg s p) := by
  unfold uBody
  split
  · split
    · exact invD_callUndeploy (invD_congr h rfl rfl)
    · split
      · exact invD_callUndeploy (invD_congr h rfl rfl)
      · split
        · exact invD_setPc (invD_congr h rfl rfl)
        · exact invD_setPc (invD_setEvent (invD_congr h rfl rfl))
  · exact invD_setPc (invD_congr h rfl rfl)
  · exact invD_setPc h

theorem invD_useStart {s : St} {p} (h : InvD s) : InvD (useStart s p) := by
  unfold useStart
  split
  · exact invD_setPc h
  · exact invD_setPc h
  · simp only []
    split
    · exact invD_setPc h
    · split
      · exact invD_setPc (invD_congr h rfl rfl)
      · split <;> exact invD_setPc h

theorem invD_step {cfg : Cfg} {s a s'} (h : InvD s) (hs : step cfg s a = some s') : InvD s' := by
  cases a with
  | start p =>
    simp only [step] at hs
    split at hs
    · cases hs; exact invD_loopHead h
    · (repeat' split at hs) <;> first
        | (cases hs; done)
        | (cases hs; first | exact invD_uBody h | exact invD_setPc h)
    · cases hs; exact invD_useStart h
    · cases hs
  | wake p =>
    simp only [step] at hs
    split at hs
    · cases hs; exact invD_afterWait h
    · cases hs; exact invD_uBody h
    · split at hs <;> (cases hs; exact invD_setPc h)
    · split at hs
      · cases hs; exact invD_callUndeploy h
      · split at hs
        · cases hs; exact invD_setPc (invD_setEvent h)
        · cases hs
    · cases hs
  | connOk p =>
    simp only [step] at hs
    split at hs
    · split at hs
      · cases hs; exact invD_finishDeploy (invD_setEvent (invD_congr h rfl rfl))
      · cases hs
    · split at hs
      · cases hs; exact invD_setPc (invD_setEvent (invD_congr h rfl rfl))
      · cases hs
    · cases hs; exact invD_setPc (invD_wakeFut (invD_congr h rfl rfl))
    · cases hs
  | connFail p =>
    simp only [step] at hs
    split at hs
    · split at hs
      · split at hs
        · cases hs; exact invD_setPc (invD_congr h rfl rfl)
        · cases hs; exact invD_setPc (invD_setEvent (invD_congr h rfl rfl))
      · cases hs
    · cases hs; exact invD_setPc (invD_wakeFut (invD_congr h rfl rfl))
    · cases hs

theorem invD_reachable {cfg : Cfg} {lazy kinds s} (h : Reachable cfg lazy kinds s) : InvD s := by
  induction h with
  | init => exact invD_init lazy kinds
  | step _ hs ih => exact invD_step ih hs

end SFV.Deploy
