"""C28 — steps get the binding of their nearest bound ancestor (config/config.py, deployment/utils.py)."""
from __future__ import annotations

import contextlib
import copy
import os
import random
import signal
import tempfile
import zlib
from pathlib import PurePosixPath

from streamflow.config.config import WorkflowConfig
from streamflow.config.validator import SfValidator
from streamflow.core.exception import WorkflowDefinitionException
from streamflow.deployment.utils import get_binding_config

from sfv.framework import Ctx, Property
from sfv.rt.hexs import hx

DRIVER = "Drivers/C28.lean"
LOCAL_DEFAULT = os.path.join(os.path.realpath(tempfile.gettempdir()), "streamflow")


class Hang(Exception):
    pass


@contextlib.contextmanager
def time_limit(seconds: int):
    """watchdog for the synchronous real code (a cyclic wraps chain that is not rejected never ends)"""
    def handler(signum, frame):
        raise Hang()
    old = signal.signal(signal.SIGALRM, handler)
    signal.alarm(seconds)
    try:
        yield
    finally:
        signal.alarm(0)
        signal.signal(signal.SIGALRM, old)


_VALIDATOR = []


def _validator():
    if not _VALIDATOR:
        _VALIDATOR.append(SfValidator())
    return _VALIDATOR[0]


def o(s):  # Optional[str] -> protocol
    return "~" if s is None else hx(s)


def parts_of(path: str):
    return list(PurePosixPath(path).parts)


def pp(parts):
    return ",".join(hx(p) for p in parts) if parts else "~"


# ------------------------------------------------------------------------------------------------
# generator
# ------------------------------------------------------------------------------------------------
NAMES = ["a", "b", "c", "s", "step", "0", "1", "x y", "é", "..", "sub"]
WORKDIRS = ["/wd1", "/wd2", "/w d", "", "/é"]


def gen_path(rng, depth=None, absolute=True):
    d = rng.randint(0, 4) if depth is None else depth
    comps = [rng.choice(NAMES[:6] if rng.random() < 0.8 else NAMES) for _ in range(d)]
    s = ("/" if absolute else "") + "/".join(comps)
    r = rng.random()
    if r < 0.04 and s != "/":
        s += "/"
    elif r < 0.07:
        s = "/" + s          # '//a' keeps a '//' root
    elif r < 0.10 and comps:
        s = s.replace("/", "/./", 1)
    return s or ("/" if absolute else "")


def gen_case(rng: random.Random, search: bool):
    ndep = rng.randint(1, 6)
    dep_names = [f"d{i}" for i in range(ndep)]
    cyc = rng.random() < 0.3
    deps = {}
    for i, n in enumerate(dep_names):
        ty = rng.choice(["docker", "ssh", "local", "slurm"])
        d = {"type": ty, "config": {"docker": {"image": "img"}, "ssh": {"nodes": ["h"], "username": "u"}}.get(ty, {})}
        if rng.random() < 0.35:
            d["workdir"] = rng.choice(WORKDIRS)
        r = rng.random()
        if r < 0.55:
            if cyc:
                w = rng.choice(dep_names)              # may create cycles and self references
            else:
                later = dep_names[i + 1:]
                w = rng.choice(later) if later else None
            if w is not None:
                d["wraps"] = w if rng.random() < 0.5 else {"deployment": w, "service": "svc"}
        elif r < 0.57 and search:
            d["wraps"] = "undefined"
        deps[n] = d
    filters = {"f1": {"type": "shuffle", "config": {}}, "f2": {"type": "shuffle", "config": {}}}
    nb = rng.randint(1, 8)
    bindings = []
    pool = [gen_path(rng) for _ in range(4)]
    for _ in range(nb):
        kind = "step" if rng.random() < 0.7 else "port"
        path = rng.choice(pool) if rng.random() < 0.5 else gen_path(rng)
        if rng.random() < 0.1:
            path = "/"
        if rng.random() < 0.03:
            path = gen_path(rng, absolute=False)
        nt = 1 if rng.random() < 0.6 or (kind == "port" and rng.random() < 0.93) else rng.randint(1, 3)
        targets = []
        for _ in range(nt):
            t = {"deployment": rng.choice(dep_names), "locations": rng.randint(1, 99)}
            if rng.random() < 0.06:        # deprecated spellings still accepted by get_binding_config
                t = {"model": t["deployment"], "resources": t["locations"]}
            if rng.random() < (0.97 if kind == "port" else 0.3):
                t["workdir"] = rng.choice(WORKDIRS)
            if rng.random() < 0.2:
                t["service"] = "svc"
            targets.append(t)
        as_list = nt > 1 or rng.random() < (0.03 if kind == "port" else 0.2)
        b = {kind: path, "target": targets if as_list else targets[0]}
        r = rng.random()
        if r < 0.15:
            b["filters"] = ["f1"] if r < 0.1 else ["f2", "f1"]
        elif r < 0.17:
            b["filters"] = ["nofilter"]
        bindings.append(b)
    queries = []
    for _ in range(8):
        base = rng.choice(bindings)
        bp = base.get("step", base.get("port"))
        r = rng.random()
        if r < 0.35:
            q = bp.rstrip("/") + "/" + "/".join(rng.choice(NAMES[:6]) for _ in range(rng.randint(1, 2)))
        elif r < 0.5:
            q = bp
        elif r < 0.65:
            q = str(PurePosixPath(bp).parent)
        else:
            q = gen_path(rng, absolute=rng.random() < 0.95)
        queries.append(("step" if rng.random() < 0.75 else "port", q))
    return {"deployments": deps, "filters": filters, "bindings": bindings, "queries": queries}


CORPUS = [
    {"deployments": {"d": {"type": "docker", "config": {}, "wraps": "d"}}, "filters": {}, "bindings":
        [{"step": "/", "target": {"deployment": "d"}}], "queries": [("step", "/a")]},
    {"deployments": {"a": {"type": "docker", "config": {}, "wraps": "b"}, "b": {"type": "ssh", "config": {}, "wraps": "a"}},
     "filters": {}, "bindings": [{"step": "/x", "target": {"deployment": "a"}}], "queries": [("step", "/x")]},
    {"deployments": {"a": {"type": "docker", "config": {}, "workdir": "/wa"}, "b": {"type": "ssh", "config": {}, "wraps": "a"},
                     "c": {"type": "slurm", "config": {}, "wraps": {"deployment": "b"}},
                     "l": {"type": "local", "config": {}}, "e": {"type": "ssh", "config": {}, "workdir": "", "wraps": "a"}},
     "filters": {}, "bindings": [
         {"step": "/", "target": {"deployment": "a"}},
         {"port": "/s/p", "target": {"deployment": "b", "workdir": "/pw"}},
         {"step": "/s/p/q", "target": [{"deployment": "c"}, {"deployment": "a", "workdir": "/own"}, {"deployment": "l"},
                                       {"deployment": "e"}, {"deployment": "c", "workdir": ""}]},
         {"step": "/s", "target": {"deployment": "l"}}, {"step": "/s", "target": {"deployment": "c", "locations": 7}}],
     "queries": [("step", "/s/p/q/r"), ("step", "/s/p"), ("step", "/s/p/z"), ("step", "/t"), ("step", "/"), ("port", "/s/p"),
                 ("port", "/s/p/q"), ("port", "/s"), ("step", "rel/x"), ("step", "/s/"), ("step", "//s"), ("step", "")]},
    {"deployments": {"a": {"type": "docker", "config": {}}}, "filters": {}, "bindings":
        [{"port": "/s/p", "target": [{"deployment": "a", "workdir": "/w"}]}], "queries": [("port", "/s/p")]},
    {"deployments": {"a": {"type": "docker", "config": {}}}, "filters": {}, "bindings":
        [{"port": "/s/p", "target": {"deployment": "a"}}], "queries": [("port", "/s/p")]},
    {"deployments": {}, "filters": {}, "bindings": [], "queries": [("step", "/a/b")]},
]


# ------------------------------------------------------------------------------------------------
# the property's own oracle (strings and dicts only)
# ------------------------------------------------------------------------------------------------
def tdep(t):
    return t["deployment"] if "deployment" in t else t["model"]


def tloc(t):
    return t["locations"] if "locations" in t else t.get("resources", 1)


def wraps_name(d):
    w = d.get("wraps")
    return None if w is None else (w if isinstance(w, str) else w["deployment"])


def has_cycle(deps) -> bool | None:
    """None when a wraps reference dangles before a repeat is seen"""
    for n in deps:
        seen, cur = {n}, n
        while (w := wraps_name(deps[cur])) is not None:
            if w not in deps:
                return None
            if w in seen:
                return True
            seen.add(w)
            cur = w
    return False


def spec_workdir(deps, target):
    own = target.get("workdir")
    if own:
        return own
    cur = tdep(target)
    inh = None
    for _ in range(len(deps) + 1):
        d = deps[cur]
        if d.get("workdir") is not None:
            inh = d["workdir"]
            break
        w = wraps_name(d)
        if w is None:
            break
        cur = w
    if inh:
        return inh
    return "<localtmp>/streamflow" if deps[tdep(target)]["type"] == "local" else "/tmp/streamflow"


def spec_binding(bindings, kind, qparts):
    """the binding of that kind on the longest prefix of the queried path (last one wins)"""
    best = None
    for b in bindings:
        if kind not in b:
            continue
        bp = parts_of(b[kind])
        if len(bp) <= len(qparts) and qparts[: len(bp)] == bp:
            if best is None or len(bp) >= len(parts_of(best[kind])):
                best = b
    return best


def exc_kind(e: Exception) -> str:
    if isinstance(e, KeyError):
        return "KeyError"
    if isinstance(e, WorkflowDefinitionException):
        m = str(e)
        if "circular reference" in m:
            return "circular"
        if "mandatory when specifying a `port`" in m:
            return "portWithoutWorkdir"
        if "Binding filter" in m:
            return "filterUndefined"
        if "absolute POSIX path" in m:
            return "notAbsolute"
        return "WDE:" + m[:40]
    return "EXC:" + type(e).__name__


def norm_wd(t) -> str:
    """Target.workdir, with the type default of a local deployment made machine independent"""
    return "<localtmp>/streamflow" if t.workdir == LOCAL_DEFAULT and t.deployment.type == "local" else t.workdir


class C28(Property):
    pid = "C28"
    title = "Steps get the binding of their nearest bound ancestor"
    lean_targets = ["SFV.Props.C28", "SFV.Model.Proto"]
    props_files = ["SFV/Props/C28.lean"]
    drivers = [DRIVER]
    translators = []
    rule = ("random StreamFlow configurations: 1..6 deployments with random wraps chains (30% may contain cycles / self references), "
            "workdir placements (incl. the empty string), 1..8 bindings over step/port paths of depth 0..4 (root binding, repeated "
            "paths, step and port bindings interleaved, list and single targets, 1..3 targets, filters, a few relative paths / "
            "undefined filters / port bindings without workdir), 8 queries each (below, at, above a bound path and unrelated; step "
            "and port). Every configuration goes through the real WorkflowConfig and get_binding_config, the Lean model (driver) "
            "and an independent string-level oracle (longest-prefix binding, workdir inheritance, cycle predicate). "
            "Non-trivial = distinct configuration with >= 2 bindings or a wraps chain.")
    trusted_base = [
        "modelled, not verified: PurePosixPath(...).parts (paths enter the model as their parts tuple, computed by CPython); "
        "dict insertion order; the JSON-schema validation of the StreamFlow file is outside the model (constructor level only)",
        "Target.__init__'s type default workdir is compared symbolically (<localtmp>/streamflow for type local)",
    ]
    technique = ("Lean 4 theorems over an executable model of the filesystem trie (put / set_targets / propagate), "
                 "_check_stacked_deployments and _get_workdir (fuel = number of deployments, proved sufficient) + differential "
                 "correspondence on random configurations")
    level_text = ("grade A: unbounded theorems — propagate returns the last binding on the longest bound prefix (set_targets proved "
                  "transparent), get_binding_config keeps the declared target order / LocalTarget otherwise, workdir = own, else first "
                  "along the wraps chain, else type default, _check_stacked_deployments raises iff some chain revisits a deployment "
                  "and always terminates, _get_workdir terminates on accepted configurations (and diverges on a witness without the "
                  "check); model compared with the real classes on random configurations")
    level_note = ("Lean kernel, axioms within {propext, Classical.choice, Quot.sound}; hand-written model tied to the code by the "
                  "correspondence check (no table/guard to translate)")
    assumptions = ["deployment names are distinct (dict keys); the StreamFlow file passed schema validation or is given as a dict "
                   "of the same shape"]
    quick_budget_s = 480          # generous: the machine may be heavily loaded
    min_nontrivial = 50

    def _run_case(self, ctx: Ctx, case, lines, expect, meta, bucket):
        deps, bindings = case["deployments"], case["bindings"]
        config = {"version": "v1.0", "workflows": {"wf": {"type": "cwl", "config": {"file": "main.cwl"}, "bindings": copy.deepcopy(bindings)}},
                  "deployments": copy.deepcopy(deps), "bindingFilters": copy.deepcopy(case["filters"])}
        # half of the configurations go through the JSON-schema validation of the StreamFlow file first (as `streamflow run`
        # does); the validator must accept them unchanged or reject them — a rejected one is still given to the constructor
        if zlib.crc32(repr(case).encode()) % 2 == 0:
            try:
                with time_limit(20):
                    validated = _validator().validate(copy.deepcopy(config))
                ctx.count("schema:accepted")
                if validated != config:
                    ctx.count("schema:normalised")
                config = validated
            except WorkflowDefinitionException:
                ctx.count("schema:rejected")
            except Hang:
                ctx.count("schema:slow")

        def q(line, exp, what):
            lines.append(line)
            expect.append(exp)
            meta.append((case, what))

        q("new", "ok", "new")
        for n, d in deps.items():
            q(f"dep {hx(n)} {hx(d['type'])} {o(d.get('workdir'))} {o(wraps_name(d))}", "ok", "dep")
        for f in case["filters"]:
            q(f"filter {hx(f)}", "ok", "filter")
        for b in bindings:
            kind = "step" if "step" in b else "port"
            ts = b["target"] if isinstance(b["target"], list) else [b["target"]]
            tl = ";".join(f"{hx(tdep(t))}:{o(t.get('workdir'))}:{tloc(t)}" for t in ts) or "~"
            q(f"bind {kind[0]} {'L' if isinstance(b['target'], list) else 'D'} {pp(parts_of(b[kind]))} {tl} "
              f"{pp(b.get('filters', []))}", "ok", "bind")
        # ---- real constructor ----
        try:
            with time_limit(15):
                wc = WorkflowConfig("wf", config)
            res = "ok"
        except Hang:
            wc, res = None, "HANG"
            ctx.fail("wraps:check-hangs", f"WorkflowConfig.__init__ did not return within 15 s on deployments {deps}", {"case": case})
        except Exception as e:  # noqa: BLE001
            wc, res = None, exc_kind(e)
        q("init", res, "WorkflowConfig.__init__")
        ctx.count("init:" + res.split(":")[0])
        # oracle: cyclic chains are rejected with a definition error, and only those
        cyc = has_cycle(deps)
        prior_error = res in ("portWithoutWorkdir", "filterUndefined", "notAbsolute")
        if not prior_error and cyc is not None and res != "HANG":
            if cyc and res != "circular":
                ctx.fail("wraps:cycle-not-rejected", f"deployments {deps} contain a wraps cycle, constructor -> {res}", {"case": case})
            if not cyc and res != "ok":
                ctx.fail("wraps:acyclic-rejected", f"deployments {deps} are acyclic, constructor -> {res}", {"case": case})
        nontriv = len(bindings) >= 2 or any("wraps" in d for d in deps.values())
        if wc is not None:
            for kind, path in case["queries"]:
                qparts = parts_of(path)
                try:
                    with time_limit(15):
                        bc = get_binding_config(path, kind, wc)
                    real = ";".join(f"{hx(t.deployment.name)}:{hx(norm_wd(t))}:{o(t.deployment.workdir)}:{t.locations}"
                                    for t in bc.targets) + "|" + (",".join(hx(f.name) for f in bc.filters) or "~")
                    rl = [(t.deployment.name, norm_wd(t), t.locations) for t in bc.targets]
                except Hang:
                    real, rl = "HANG", None
                except Exception as e:  # noqa: BLE001
                    real, rl = exc_kind(e), None
                q(f"q {kind[0]} {pp(qparts)}", real, f"get_binding_config({path!r},{kind!r})")
                # raw propagate / get (the latter sees what set_targets materialised)
                cfg = wc.propagate(PurePosixPath(path), kind)
                q(f"prop {kind[0]} {pp(qparts)}", "~" if cfg is None else (",".join(str(tloc(t)) for t in cfg["targets"]) or "[]"),
                  f"propagate({path!r},{kind!r})")
                g = wc.get(PurePosixPath(path), kind)
                q(f"get {kind[0]} {pp(qparts)}", "~" if g is None else (",".join(str(tloc(t)) for t in g["targets"]) or "[]"),
                  f"get({path!r},{kind!r})")
                # the same with an explicit default: `get` hands it out only when the PATH is unknown (a known node without the
                # attribute gives None), `propagate` when no node on the path carries the attribute
                sent = {"targets": [{"locations": 999999}], "filters": []}
                cfg = wc.propagate(PurePosixPath(path), kind, sent)
                q(f"propd {kind[0]} {pp(qparts)}", "~" if cfg is None else (",".join(str(tloc(t)) for t in cfg["targets"]) or "[]"),
                  f"propagate({path!r},{kind!r},default)")
                g = wc.get(PurePosixPath(path), kind, sent)
                q(f"getd {kind[0]} {pp(qparts)}", "~" if g is None else (",".join(str(tloc(t)) for t in g["targets"]) or "[]"),
                  f"get({path!r},{kind!r},default)")
                ctx.count("query:" + kind)
                # oracle: nearest bound ancestor, declared order, workdir inheritance
                sb = spec_binding(bindings, kind, qparts)
                if sb is None:
                    want = [("__LOCAL__", "<localtmp>/streamflow", 1)]
                else:
                    ts = sb["target"] if isinstance(sb["target"], list) else [sb["target"]]
                    want = [(tdep(t), spec_workdir(deps, t), tloc(t)) for t in ts]
                if rl is None:
                    ctx.fail("binding:raises", f"get_binding_config({path!r},{kind!r}) -> {real}", {"case": case, "query": [kind, path]})
                elif [(a, c) for a, _, c in rl] != [(a, c) for a, _, c in want]:
                    ctx.fail("binding:not-nearest-ancestor", f"get_binding_config({path!r},{kind!r}) targets {rl}, nearest bound ancestor gives {want}",
                             {"case": case, "query": [kind, path]})
                elif rl != want:
                    ctx.fail("binding:workdir", f"get_binding_config({path!r},{kind!r}) workdirs {rl}, expected {want}",
                             {"case": case, "query": [kind, path]})
        ctx.case({"deployments": {k: {kk: vv for kk, vv in v.items() if kk != "config"} for k, v in deps.items()},
                  "bindings": bindings[:4], "init": res},
                 ("cfg", repr(case)) if nontriv else None, bucket)

    def explore(self, ctx: Ctx) -> None:
        rng = ctx.rng
        lines, expect, meta = [], [], []
        for case in CORPUS:
            self._run_case(ctx, case, lines, expect, meta, "corpus")
            ctx.corpus_replayed += 1
        n = 1200 if ctx.tier == "quick" else 12000
        if ctx.mode == "search":
            n *= 3
        for k in range(n):
            if ctx.out_of_time():
                ctx.extra["configs_run"] = k
                if k < 250:
                    ctx.extra["incomplete"] = True
                break
            self._run_case(ctx, gen_case(rng, ctx.mode == "search"), lines, expect, meta, "random")
        got = ctx.lean(DRIVER, lines)
        bad = 0
        seen = set()
        for gl, e, (case, what) in zip(got, expect, meta):
            if gl != e and id(case) not in seen:
                seen.add(id(case))
                bad += 1
                ctx.disagree("model vs " + what.split("(")[0], f"{what}: code {e!r}, Lean model {gl!r}", {"case": case, "what": what})

    def replay(self, ctx: Ctx, data) -> None:
        r = data.get("replay") or (data.get("no_longer_checks") or [{}])[0].get("case") or {}
        case = r.get("case")
        if not case:
            return super().replay(ctx, data)
        case["queries"] = [tuple(x) for x in case["queries"]]
        lines, expect, meta = [], [], []
        self._run_case(ctx, case, lines, expect, meta, "replay")
        got = ctx.lean(DRIVER, lines)
        for ln, gl, e, (_, what) in zip(lines, got, expect, meta):
            if what in ("new", "dep", "filter", "bind"):
                continue
            print(f"{what}\n   code : {e}\n   model: {gl}")
            if gl != e:
                ctx.disagree("model vs code", f"{what}: code {e!r}, model {gl!r}", r)


PROPERTY = C28()
