"""C12 — a job that fits is eventually scheduled (no lost wake-ups)."""
from __future__ import annotations

from sfv.framework import Ctx, Property
from sfv.props.c10 import SCHED_RULE, SCHED_TRUSTED
from sfv.rt import schedprop
from sfv.translate import schedguards


class C12(Property):
    pid = "C12"
    title = "A job that fits is eventually scheduled (no lost wake-ups)"
    lean_targets = ["SFV.Props.C12", "SFV.Model.SchedProto"]
    props_files = ["SFV/Props/C12.lean"]
    drivers = ["Drivers/C10.lean", "Drivers/C10Hyp.lean"]
    translators = [schedguards.generate]
    rule = SCHED_RULE + (" Jobs are released in arbitrary orders; at every quiescent point of the controlled loop (no ready handle, no new "
                         "scheduler event for three consecutive yields) every pending schedule() request is checked against the free "
                         "capacity computed from the REAL state (cores/memory/slots: capacity minus the exact requirements of the occupying "
                         "jobs; storage: capacity minus the scheduler's own books): a request that fits while its task still waits is a "
                         "failure; a scenario that does not finish within its bound is a failure (hang).")
    trusted_base = SCHED_TRUSTED + [
        "asyncio.Condition semantics: wait() releases the lock atomically and re-acquires it before returning; notify_all() wakes every "
        "waiter (modelled in SFV/Model/Wait.lean, exercised by the controlled event loop with shuffled ready handles)"]
    technique = ("Lean 4: transition system of waiter tasks / condition / notify_all with an abstract bookkeeping instantiated by the ledger of "
                 "C10; invariant for every interleaving; notify_all position extracted from the source; quiescent-point monitor on the real "
                 "scheduler under a controlled event loop")
    level_text = ("grade B: quiescent_no_missed_fit (every reachable quiescent state, every interleaving of checks, notifications, timeouts), "
                  "state_change_implies_notify, granted_after_release, eventually_granted (after the woken tasks re-check in any order the "
                  "system is quiescent and every waiting request does not fit) over a model that abstracts asyncio's Condition; the position "
                  "of notify_all() is regenerated from notify_status each run; every generated history is checked at its quiescent points "
                  "on the real scheduler; leaks of the real code that starve requests (shared inner location, heterogeneous multi-location "
                  "release, rolled-back job still listed on an inner slot location, float residue) are known findings")
    level_note = ("Lean kernel, axioms within {propext, Classical.choice, Quot.sound}; asyncio Condition/Lock semantics modelled, not verified; "
                  "fairness of the event loop is not part of the theorems (each woken task is assumed to run once)")
    assumptions = ["asyncio.Condition semantics as modelled", "every woken task eventually runs (event-loop fairness)",
                   "an allocation never makes another request fit (proved for the ledger instance: ledger_antitone)"]
    quick_budget_s = 600

    def explore(self, ctx: Ctx) -> None:
        schedprop.explore(ctx, self.pid)

    def replay(self, ctx: Ctx, data) -> None:
        schedprop.replay(ctx, self.pid, data)


PROPERTY = C12()
