-- PILOT (round 0): Bytes.lean (TellableStreamWrapper.read exact for EVERY chunking policy; one-shot seek witness by decide; 80 lines, 0.7 s). Lessons: avoid `let` inside defs that omega must see through; wf-recursive functions do not reduce under `decide` — use structural/fuel recursion for functions that appear in decide-witnesses, or rewrite with the proved lemma first.
/-! Pilot: TellableStreamWrapper.read is exact for every chunking policy; the one-shot seek is not. -/
namespace PilotB

/-- underlying stream: remaining data + a policy: how many bytes (≥1 when data remains) a raw read of
    `req` bytes returns, as a function of (request, remaining length). -/
structure Raw where
  data : List Nat
  policy : Nat → Nat → Nat

/-- a raw read returns between 1 and min req remaining bytes (0 only when nothing is requested/left) -/
def Raw.grant (r : Raw) (req : Nat) : Nat :=
  max (min 1 (min req r.data.length)) (min (r.policy req r.data.length) (min req r.data.length))

def Raw.read (r : Raw) (req : Nat) : List Nat × Raw :=
  let n := r.grant req
  (r.data.take n, { r with data := r.data.drop n })

theorem Raw.grant_le (r : Raw) (req : Nat) : r.grant req ≤ min req r.data.length := by
  unfold Raw.grant; omega
theorem Raw.grant_pos (r : Raw) (req : Nat) (h1 : 0 < req) (h2 : 0 < r.data.length) : 0 < r.grant req := by
  unfold Raw.grant; omega

/-- TellableStreamWrapper.read(size): loop until `size` bytes or EOF -/
def tellRead : Nat → Raw → List Nat × Raw
  | 0, r => ([], r)
  | size+1, r =>
      let (chunk, r') := r.read (size+1)
      if chunk.length = 0 then ([], r')
      else
        let (rest, r'') := tellRead (size + 1 - chunk.length) r'
        (chunk ++ rest, r'')
termination_by size => size
decreasing_by omega

theorem tellRead_exact (size : Nat) (r : Raw) :
    (tellRead size r).1 = r.data.take size ∧ (tellRead size r).2.data = r.data.drop size := by
  induction size using Nat.strongRecOn generalizing r with
  | _ size ih =>
    cases size with
    | zero => simp [tellRead]
    | succ n =>
      unfold tellRead
      simp only [Raw.read]
      have hle := r.grant_le (n+1)
      by_cases hlen : r.data.length = 0
      · have hnil : r.data = [] := List.eq_nil_of_length_eq_zero hlen
        simp [hnil, Raw.grant]
      · have hpos := r.grant_pos (n+1) (by omega) (by omega)
        have hg : (List.take (r.grant (n+1)) r.data).length = r.grant (n+1) := by
          rw [List.length_take]; omega
        simp only [hg]
        have hne : ¬ r.grant (n+1) = 0 := by omega
        simp only [hne, if_false]
        have := ih (n + 1 - r.grant (n+1)) (by omega) { r with data := r.data.drop (r.grant (n+1)) }
        simp only at this
        constructor
        · rw [this.1, ← List.take_add]
          congr 1; omega
        · rw [this.2, List.drop_drop]
          congr 1; omega

/-- SeekableStreamReaderWrapper.seek as written: ONE raw read, then position := offset -/
def seekOnce (r : Raw) (skip : Nat) : Raw := (r.read skip).2
/-- seek with the looping read -/
def seekLoop (r : Raw) (skip : Nat) : Raw := (tellRead skip r).2

theorem seekLoop_exact (r : Raw) (skip : Nat) : (seekLoop r skip).data = r.data.drop skip :=
  (tellRead_exact skip r).2

/-- witness: with a policy that returns at most 3 bytes per raw read, the one-shot seek under-skips -/
def shortPolicy : Nat → Nat → Nat := fun _ _ => 3
example : (seekOnce { data := List.range 10, policy := shortPolicy } 5).data ≠ (List.range 10).drop 5 := by decide
example : (seekLoop { data := List.range 10, policy := shortPolicy } 5).data = (List.range 10).drop 5 :=
  seekLoop_exact _ _

end PilotB
#print axioms PilotB.tellRead_exact
