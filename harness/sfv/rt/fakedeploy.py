"""Instrumented fake connectors + a driver for DefaultDeploymentManager (C26).

* `FakeBase` / `FakeWrap` are registered at run time in `streamflow.deployment.connector.connector_classes`
  (types `sfv-base`, `sfv-wrap`); every deploy/undeploy call is logged with enter/exit instants, takes a scripted
  number of suspension steps and may fail as scripted.
* `TraceDict` / `TraceEvent` replace the manager's four maps and the events stored in `events_map`, so that the
  real execution yields the exact sequence of atomic segments (which task ran between which suspension points) — the
  schedule the Lean model is replayed on.
* `run_case(case)` runs a scripted scenario: a sequential prefix, a batch of concurrent requests, a final `undeploy_all`."""
from __future__ import annotations

import asyncio
import types
from typing import Any

from streamflow.core.deployment import Connector, DeploymentConfig, WrapsConfig
from streamflow.deployment.connector import connector_classes
from streamflow.deployment.wrapper import ConnectorWrapper

WORLD: "World | None" = None


class World:
    def __init__(self, scripts: dict):
        self.scripts = scripts            # name -> {"deploy": [[steps, ok], ...], "undeploy_steps": n}
        self.seq = 0
        self.log: list[tuple] = []        # (seq, kind, name, objid, task)
        self.objs = 0
        self.calls: dict[str, int] = {}
        self.segments: list[tuple] = []   # (task, why)  -- a new atomic segment of `task` starts
        self.ops: list[tuple] = []        # (task, op, name)  -- map / event operations in execution order

    def ev(self, kind: str, name: str, obj: int = -1) -> int:
        self.seq += 1
        self.log.append((self.seq, kind, name, obj, _task()))
        return self.seq

    def seg(self, why: str) -> None:
        self.segments.append((_task(), why))
        self.ops.append((_task(), "SEG", why))

    def op(self, op: str, name: Any) -> None:
        self.ops.append((_task(), op, name))


def _task() -> str:
    try:
        t = asyncio.current_task()
    except RuntimeError:
        return "?"
    return t.get_name() if t is not None else "?"


async def _steps(n: int) -> None:
    for _ in range(n):
        await asyncio.sleep(0)


class _FakeMixin:
    sfv_kind = "?"

    def _init(self, name: str):
        w = WORLD
        w.objs += 1
        self.sfv_obj = w.objs
        self.sfv_name = name
        w.ev("create", name, self.sfv_obj)

    async def deploy(self, external: bool) -> None:
        w = WORLD
        k = w.calls.get(self.sfv_name, 0)
        w.calls[self.sfv_name] = k + 1
        script = w.scripts.get(self.sfv_name, {}).get("deploy", [])
        steps, ok = script[k] if k < len(script) else (1, True)
        w.ev("deploy-enter", self.sfv_name, self.sfv_obj)
        w.op("conn-deploy-enter", self.sfv_name)
        await _steps(max(1, steps))
        w.seg("call-exit")
        if not ok:
            w.ev("deploy-fail", self.sfv_name, self.sfv_obj)
            w.op("conn-deploy-fail", self.sfv_name)
            raise RuntimeError(f"scripted deploy failure of {self.sfv_name}")
        w.ev("deploy-exit", self.sfv_name, self.sfv_obj)
        w.op("conn-deploy-exit", self.sfv_name)

    async def undeploy(self, external: bool) -> None:
        w = WORLD
        w.ev("undeploy-enter", self.sfv_name, self.sfv_obj)
        w.op("conn-undeploy-enter", self.sfv_name)
        await _steps(max(1, w.scripts.get(self.sfv_name, {}).get("undeploy_steps", 1)))
        w.seg("call-exit")
        w.ev("undeploy-exit", self.sfv_name, self.sfv_obj)
        w.op("conn-undeploy-exit", self.sfv_name)

    async def get_available_locations(self, service=None):
        WORLD.ev("use", self.sfv_name, self.sfv_obj)
        WORLD.op("use", self.sfv_name)
        return {}

    async def copy_local_to_remote(self, *a, **k): raise NotImplementedError
    async def copy_remote_to_local(self, *a, **k): raise NotImplementedError
    async def copy_remote_to_remote(self, *a, **k): raise NotImplementedError
    async def get_shell(self, *a, **k): raise NotImplementedError
    async def get_stream_reader(self, *a, **k): raise NotImplementedError
    async def get_stream_writer(self, *a, **k): raise NotImplementedError
    async def run(self, *a, **k): raise NotImplementedError

    @classmethod
    def get_schema(cls) -> str:
        return ""


class FakeBase(_FakeMixin, Connector):
    sfv_kind = "base"

    def __init__(self, deployment_name: str, config_dir: str, transferBufferSize: int = 65536, **kwargs):
        Connector.__init__(self, deployment_name, config_dir, transferBufferSize)
        self._init(deployment_name)


class FakeWrap(_FakeMixin, ConnectorWrapper):
    sfv_kind = "wrap"

    def __init__(self, deployment_name: str, config_dir: str, connector: Connector, service: str | None = None,
                 transferBufferSize: int = 65536, **kwargs):
        ConnectorWrapper.__init__(self, deployment_name, config_dir, connector, service, transferBufferSize)
        self._init(deployment_name)
        inner = getattr(connector, "sfv_name", None) or getattr(connector, "deployment_name", "?")
        WORLD.ev("wrap-of", deployment_name + ">" + inner, self.sfv_obj)


def register() -> None:
    connector_classes["sfv-base"] = FakeBase
    connector_classes["sfv-wrap"] = FakeWrap


class TraceEvent(asyncio.Event):
    def __init__(self, name: str):
        super().__init__()
        self.sfv_name = name

    def set(self):
        WORLD.op("ev-set", self.sfv_name)
        super().set()

    def clear(self):
        WORLD.op("ev-clear", self.sfv_name)
        super().clear()

    async def wait(self):
        if self.is_set():
            WORLD.op("ev-pass", self.sfv_name)
            return await super().wait()
        WORLD.op("ev-block", self.sfv_name)
        r = await super().wait()
        WORLD.seg("ev-wake")
        return r


class TraceSet(set):
    def __init__(self, owner: str):
        super().__init__()
        self.owner = owner

    def add(self, x):
        WORLD.op("deps.add", self.owner + "<" + x)
        super().add(x)

    def discard(self, x):
        WORLD.op("deps.discard", self.owner + "<" + x)
        super().discard(x)


class TraceDict(dict):
    def __init__(self, label: str):
        super().__init__()
        self.label = label

    def __setitem__(self, k, v):
        if self.label == "events_map" and not isinstance(v, TraceEvent):
            v = TraceEvent(k)
        if self.label == "dependency_graph" and not isinstance(v, TraceSet):
            v = TraceSet(k)
        WORLD.op(self.label + ".set", k)
        super().__setitem__(k, v)

    def __delitem__(self, k):
        WORLD.op(self.label + ".del", k)
        super().__delitem__(k)

    def pop(self, k, *d):
        WORLD.op(self.label + ".pop", k)
        return super().pop(k, *d)

    def __iter__(self):          # forces dict(self) through keys(), so that snapshots are visible
        return super().__iter__()

    def keys(self):
        if self.label == "deployments_map":
            WORLD.op("deployments_map.keys", len(self))
        return super().keys()


def make_manager(deployments: dict):
    """deployments: name -> {"kind": base|wrap, "wraps": name|None, "lazy": bool}"""
    from streamflow.deployment.manager import DefaultDeploymentManager

    cfg = {}
    for name, d in deployments.items():
        cfg[name] = {"type": "sfv-" + d["kind"], "config": {}, "external": False, "lazy": d["lazy"],
                     "scheduling_policy": None, "workdir": None, "wraps": d.get("wraps")}
    ctx = types.SimpleNamespace(config={"path": "/nonexistent/streamflow.yml", "deployments": cfg})
    mgr = DefaultDeploymentManager(ctx)
    mgr.config_map = TraceDict("config_map")
    mgr.events_map = TraceDict("events_map")
    mgr.deployments_map = TraceDict("deployments_map")
    mgr.dependency_graph = TraceDict("dependency_graph")
    return mgr


def deployment_config(name: str, d: dict) -> DeploymentConfig:
    return DeploymentConfig(name=name, type="sfv-" + d["kind"], config={}, external=False, lazy=d["lazy"],
                            wraps=WrapsConfig(deployment=d["wraps"]) if d.get("wraps") else None)


def run_case(case: dict) -> dict:
    """case = {deployments, scripts, prefix: [req], batch: [req], lseed, shuffle}; req = [kind, name|None]"""
    global WORLD
    from sfv.rt.loop import run_controlled

    register()
    world = WORLD = World(case.get("scripts", {}))
    out: dict = {"requests": [], "hang": False}

    async def do(req, rid: str):
        kind, name = req[0], req[1] if len(req) > 1 else None
        if len(req) > 2 and req[2]:
            await _steps(req[2])          # start delay (scheduler steps)
        rec = {"rid": rid, "req": req, "start": world.ev("req-start:" + kind, name or "*")}
        out["requests"].append(rec)
        world.seg("start")
        try:
            if kind == "deploy":
                await mgr.deploy(deployment_config(name, case["deployments"][name]))
            elif kind == "undeploy":
                await mgr.undeploy(name)
            elif kind == "undeploy_all":
                await mgr.undeploy_all()
            elif kind == "use":
                c = mgr.get_connector(name)
                if c is None:
                    rec["outcome"] = "no-connector"
                    rec["end"] = world.ev("req-end:" + kind, name or "*")
                    world.op("req-end", "no-connector")
                    return
                await c.get_available_locations()
            rec["outcome"] = "ok"
        except Exception as e:  # noqa: BLE001
            rec["outcome"] = "exc:" + type(e).__name__
            rec["msg"] = str(e)[:120]
        rec["end"] = world.ev("req-end:" + kind, name or "*")
        world.op("req-end", rec["outcome"])

    async def main():
        nonlocal mgr
        mgr = make_manager(case["deployments"])
        for i, req in enumerate(case.get("prefix", [])):
            t = asyncio.create_task(do(req, f"p{i}"), name=f"p{i}")
            done, pend = await asyncio.wait([t], timeout=500)
            if pend:
                out["hang"] = True
                for x in pend:
                    x.cancel()
                return
        world.ev("batch-start", "*")
        tasks = [asyncio.create_task(do(req, f"b{i}"), name=f"b{i}") for i, req in enumerate(case.get("batch", []))]
        if tasks:
            done, pend = await asyncio.wait(tasks, timeout=500)
            if pend:
                out["hang"] = True
                out["pending"] = sorted(x.get_name() for x in pend)
                for x in pend:
                    x.cancel()
                await asyncio.sleep(0)
                return
        world.ev("batch-end", "*")
        if case.get("final_undeploy_all", True):
            t = asyncio.create_task(do(["undeploy_all"], "f0"), name="f0")
            done, pend = await asyncio.wait([t], timeout=500)
            if pend:
                out["hang"] = True
                out["pending"] = ["f0"]
                for x in pend:
                    x.cancel()

    mgr = None
    try:
        run_controlled(main, case.get("lseed", 0), timeout=5000, virtual_time=True, shuffle=case.get("shuffle", True))
    except TimeoutError:
        out["hang"] = True
    out["log"] = world.log
    out["ops"] = world.ops
    out["maps"] = {"config_map": sorted(mgr.config_map), "deployments_map": sorted(mgr.deployments_map),
                   "dependency_graph": {k: sorted(v) for k, v in mgr.dependency_graph.items()}} if mgr is not None else {}
    return out
