"""Differential harness shared by C29 / C30 / C34: run one CWL document with StreamFlow's cwl-runner entry point and
with the reference runner cwltool, each in a **fresh forked process** with a private HOME, TMPDIR, working directory,
output directory and (StreamFlow) a private sqlite database, then optionally export the run's provenance.

Nothing is shared between runs or with any other process on the machine: the default `~/.streamflow/<version>/sqlite.db`
is never used (an explicit streamflow file names the database), so checks can run in parallel with anything else.

`run_case(case)` is a picklable top-level function for `sfv.rt.par.pmap`.
case = {"dir": abs dir containing the document, "doc": "x.cwl", "job": "job.json" | None, "name": workflow name,
        "timeout": seconds per runner, "prov": bool, "stdin_text": text given to both runners on stdin}
"""
from __future__ import annotations

import hashlib
import json
import os
import signal
import sys
import time
import zipfile

STDIN_TEXT = "RUNNER-STDIN\n"


# ------------------------------------------------------------------------------------------------
# forked execution
# ------------------------------------------------------------------------------------------------
def _forked(fn, cwd: str, env: dict, stdin_path: str, stdout_path: str, stderr_path: str, timeout: float):
    """run fn() -> int in a forked child (own session) with redirected fds; returns (rc | 'timeout', wall seconds)"""
    t0 = time.time()
    pid = os.fork()
    if pid == 0:
        rc = 1
        try:
            os.setsid()
            os.chdir(cwd)
            os.environ.update(env)
            fd0 = os.open(stdin_path, os.O_RDONLY)
            fd1 = os.open(stdout_path, os.O_WRONLY | os.O_CREAT | os.O_TRUNC, 0o644)
            fd2 = os.open(stderr_path, os.O_WRONLY | os.O_CREAT | os.O_TRUNC, 0o644)
            sys.stdout.flush()
            sys.stderr.flush()
            os.dup2(fd0, 0)
            os.dup2(fd1, 1)
            os.dup2(fd2, 2)
            sys.stdin = os.fdopen(0, "r", closefd=False)
            sys.stdout = os.fdopen(1, "w", closefd=False)
            sys.stderr = os.fdopen(2, "w", closefd=False)
            import tempfile

            tempfile.tempdir = None  # re-read TMPDIR
            rc = int(fn() or 0)
        except SystemExit as e:
            rc = int(e.code) if isinstance(e.code, int) else (0 if e.code is None else 1)
        except BaseException:  # noqa: BLE001
            import traceback

            traceback.print_exc()
            rc = 70
        finally:
            try:
                sys.stdout.flush()
                sys.stderr.flush()
            except Exception:  # noqa: BLE001
                pass
            os._exit(rc & 0xFF)
    deadline = t0 + timeout
    while True:
        got, status = os.waitpid(pid, os.WNOHANG)
        if got == pid:
            rc = os.waitstatus_to_exitcode(status)
            # make sure nothing of the run survives (tools reading an inherited stdin, stray shells)
            try:
                os.killpg(pid, signal.SIGKILL)
            except (ProcessLookupError, PermissionError):
                pass
            return rc, time.time() - t0
        if time.time() > deadline:
            try:
                os.killpg(pid, signal.SIGKILL)
            except (ProcessLookupError, PermissionError):
                pass
            try:
                os.kill(pid, signal.SIGKILL)
            except ProcessLookupError:
                pass
            os.waitpid(pid, 0)
            return "timeout", time.time() - t0
        time.sleep(0.02)


def _mk(*parts: str) -> str:
    p = os.path.join(*parts)
    os.makedirs(p, exist_ok=True)
    return p


def _read(path: str, limit: int = 4000) -> str:
    try:
        with open(path, errors="replace") as f:
            s = f.read()
        return s[-limit:]
    except OSError:
        return ""


def _parse_stdout_json(path: str):
    try:
        s = open(path, errors="replace").read().strip()
    except OSError:
        return None
    if not s:
        return None
    try:
        return json.loads(s)
    except ValueError:
        # tolerate log lines before the object
        i = s.find("{")
        while i >= 0:
            try:
                return json.loads(s[i:])
            except ValueError:
                i = s.find("{", i + 1)
        return None


def run_streamflow(case: dict) -> dict:
    d = case["dir"]
    base = _mk(d, "sf")
    home, tmp, cwd, out = _mk(base, "home"), _mk(base, "tmp"), _mk(base, "cwd"), _mk(base, "out")
    sf_file = os.path.join(base, "streamflow.yml")
    db = os.path.join(base, "sqlite.db")
    with open(sf_file, "w") as f:
        f.write("version: v1.0\nworkflows:\n  wf:\n    type: cwl\n    config:\n      file: %s\n" % json.dumps(os.path.join(d, case["doc"])))
        f.write("database:\n  type: default\n  config:\n    connection: %s\n" % json.dumps(db))
    stdin_path = os.path.join(base, "stdin.txt")
    with open(stdin_path, "w") as f:
        f.write(case.get("stdin_text", STDIN_TEXT))
    argv = ["--streamflow-file", sf_file, "--name", case.get("name", "wf"), "--outdir", out, os.path.join(d, case["doc"])]
    if case.get("job"):
        argv.append(os.path.join(d, case["job"]))

    def go():
        import streamflow.cwl.runner as runner

        return runner.main(argv)

    rc, wall = _forked(go, cwd, {"HOME": home, "TMPDIR": tmp}, stdin_path, os.path.join(base, "stdout.txt"),
                       os.path.join(base, "stderr.txt"), case.get("timeout", 120))
    res = {"rc": rc, "wall": round(wall, 2), "outdir": out, "base": base, "out": None, "stderr": ""}
    if rc == 0:
        res["out"] = _parse_stdout_json(os.path.join(base, "stdout.txt"))
    if rc != 0 or res["out"] is None:
        res["stderr"] = _read(os.path.join(base, "stderr.txt"), 3000)
    return res


def run_cwltool(case: dict) -> dict:
    d = case["dir"]
    base = _mk(d, "ct")
    home, tmp, cwd, out = _mk(base, "home"), _mk(base, "tmp"), _mk(base, "cwd"), _mk(base, "out")
    stdin_path = os.path.join(base, "stdin.txt")
    with open(stdin_path, "w") as f:
        f.write(case.get("stdin_text", STDIN_TEXT))
    argv = ["--outdir", out, "--tmpdir-prefix", tmp + "/", "--tmp-outdir-prefix", tmp + "/", "--quiet",
            os.path.join(d, case["doc"])]
    if case.get("job"):
        argv.append(os.path.join(d, case["job"]))

    def go():
        import cwltool.main

        return cwltool.main.main(argv)

    rc, wall = _forked(go, cwd, {"HOME": home, "TMPDIR": tmp}, stdin_path, os.path.join(base, "stdout.txt"),
                       os.path.join(base, "stderr.txt"), case.get("timeout", 120))
    res = {"rc": rc, "wall": round(wall, 2), "outdir": out, "base": base, "out": None, "stderr": ""}
    if rc == 0:
        res["out"] = _parse_stdout_json(os.path.join(base, "stdout.txt"))
    if rc != 0 or res["out"] is None:
        res["stderr"] = _read(os.path.join(base, "stderr.txt"), 3000)
    return res


def export_provenance(case: dict, sf: dict, tag: str = "") -> dict:
    """`streamflow prov <name>` on the private database of the run"""
    base = sf["base"]
    out = _mk(base, "prov" + tag)
    argv = ["prov", case.get("name", "wf"), "--file", os.path.join(base, "streamflow.yml"), "--outdir", out, "--name", "crate.zip"]
    argv += list(case.get("prov_args", []))

    def go():
        import streamflow.main

        return streamflow.main.main(argv)

    rc, wall = _forked(go, os.path.join(base, "cwd"), {"HOME": os.path.join(base, "home"), "TMPDIR": os.path.join(base, "tmp")},
                       os.path.join(base, "stdin.txt"), os.path.join(base, f"prov{tag}-stdout.txt"),
                       os.path.join(base, f"prov{tag}-stderr.txt"), case.get("timeout", 120))
    path = os.path.join(out, "crate.zip")
    return {"rc": rc, "wall": round(wall, 2), "archive": path if os.path.exists(path) else None,
            "stderr": "" if rc == 0 else _read(os.path.join(base, f"prov{tag}-stderr.txt"), 3000)}


def run_case(case: dict) -> dict:
    """both runners (+ provenance export) for one document"""
    os.makedirs(case["dir"], exist_ok=True)
    res = {"id": case.get("id"), "sf": run_streamflow(case)}
    res["ct"] = ({"rc": 0, "wall": 0, "outdir": "", "base": "", "out": None, "stderr": "skipped"} if case.get("only_sf")
                 else run_cwltool(case))
    if case.get("prov") and res["sf"]["rc"] == 0:
        res["prov"] = export_provenance(case, res["sf"])
        if case.get("prov_args_alt"):
            res["prov_alt"] = export_provenance({**case, "prov_args": case["prov_args_alt"]}, res["sf"], tag="-alt")
    for side in ("sf", "ct"):
        if res[side]["out"] is not None:
            res[side]["norm"] = normalize_output(res[side]["out"])
    if case.get("collect"):
        # files the tool wrote, read back from each runner's output directory
        for side in ("sf", "ct"):
            got = {}
            for name in case["collect"]:
                p = os.path.join(res[side]["outdir"], name)
                if os.path.exists(p):
                    try:
                        got[name] = open(p, errors="replace").read()
                    except OSError:
                        got[name] = None
            res[side]["files"] = got
    return res


def enable_bytecode_cache() -> None:
    """`check` sets PYTHONDONTWRITEBYTECODE so that nothing is written into /repo; importing streamflow + cwltool without
    byte-code costs ~8 s per process. Byte-code goes to a private cache directory of this worktree instead (a cache only:
    nothing there is needed by a later run; stale entries are detected by the interpreter through source mtimes)."""
    here = os.path.dirname(os.path.dirname(os.path.dirname(os.path.dirname(os.path.abspath(__file__)))))
    cache = os.path.join(here, "lean", ".lake", "pycache")
    try:
        os.makedirs(cache, exist_ok=True)
        sys.pycache_prefix = cache
        sys.dont_write_bytecode = False
    except OSError:
        pass


def _timed_out(res) -> bool:
    if not isinstance(res, dict) or "sf" not in res or "ct" not in res:
        return True
    sides = [res["sf"], res["ct"]] + [res[k] for k in ("prov", "prov_alt") if isinstance(res.get(k), dict)]
    return any(x.get("rc") == "timeout" for x in sides)


def run_cases_confirmed(cases, workers: int = 8, pool_timeout: float = 2400.0, time_left=None):
    """run `run_case` over `cases` in the worker pool; every case that timed out there (pool watchdog, lost worker, or one of
    its runners / the provenance export hitting its own bound) is run AGAIN, alone and sequentially, after the pool has
    drained, with four times the runner bound (cut to what is left of the budget when `time_left` is given). Yields
    (case, result) for confirmed results only, each case once. A case that still cannot be completed raises `Unconfirmed`:
    a time-out of the harness under load is never a disagreement or a violation by itself, the check ends inconclusive."""
    import shutil

    from sfv.rt.par import pmap

    cases = list(cases)
    seen, again = set(), []
    for case, status, res in pmap(run_case, cases, timeout=pool_timeout, workers=workers):
        if case["id"] in seen:
            continue
        seen.add(case["id"])
        if status != "ok" or _timed_out(res):
            again.append(case)
        else:
            yield case, res
    again += [c for c in cases if c["id"] not in seen]          # never reported by the pool
    for case in again:
        bound = 4 * case.get("timeout", 120)
        if time_left is not None:
            left = time_left()
            if left < 60:
                raise Unconfirmed(f"case {case.get('id')} timed out in the pool and the budget has no room to re-run it alone")
            bound = min(bound, left)
        for sub in ("sf", "ct"):
            shutil.rmtree(os.path.join(case["dir"], sub), ignore_errors=True)
        try:
            res = run_case({**case, "timeout": bound})
        except Exception as e:  # noqa: BLE001  a harness error is not a finding about the code
            raise Unconfirmed(f"case {case.get('id')}: harness error when re-run alone: {type(e).__name__}: {e}") from e
        if _timed_out(res):
            which = [k for k in ("sf", "ct", "prov", "prov_alt") if isinstance(res.get(k), dict) and res[k].get("rc") == "timeout"]
            raise Unconfirmed(f"case {case.get('id')} ({case.get('dir')}): {'/'.join(which)} did not finish even alone within {int(bound)} s")
        yield case, res


class Unconfirmed(Exception):
    """a case that cannot be completed within the budget: the check must end inconclusive (exit 2)"""


def warm_up() -> None:
    """import both runners in the parent so that forked children start instantly"""
    enable_bytecode_cache()
    import cwltool.main  # noqa: F401
    import streamflow.cwl.runner  # noqa: F401
    import streamflow.main  # noqa: F401


# ------------------------------------------------------------------------------------------------
# output objects "up to file locations"
# ------------------------------------------------------------------------------------------------
def normalize_output(v):
    """File/Directory objects keep class, basename, checksum, size (File) and listing/secondaryFiles; everything about
    where the file lives is dropped. Everything else is kept verbatim (array order, nulls, numbers)."""
    if isinstance(v, list):
        return [normalize_output(x) for x in v]
    if isinstance(v, dict):
        cls = v.get("class")
        if cls == "File":
            out = {"class": "File", "basename": v.get("basename"), "checksum": v.get("checksum"), "size": v.get("size")}
            if v.get("secondaryFiles"):
                out["secondaryFiles"] = [normalize_output(x) for x in v["secondaryFiles"]]
            if v.get("format"):
                out["format"] = v["format"]
            return out
        if cls == "Directory":
            out = {"class": "Directory", "basename": v.get("basename")}
            if "listing" in v:
                out["listing"] = sorted((normalize_output(x) for x in v["listing"]), key=lambda x: json.dumps(x, sort_keys=True))
            return out
        return {k: normalize_output(x) for k, x in v.items()}
    return v


def sha1_file(path: str) -> str:
    h = hashlib.sha1()
    with open(path, "rb") as f:
        for chunk in iter(lambda: f.read(1 << 16), b""):
            h.update(chunk)
    return h.hexdigest()


def outcome(side: dict) -> str:
    if side["rc"] == "timeout":
        return "timeout"
    return "success" if side["rc"] == 0 and side["out"] is not None else "failure"
