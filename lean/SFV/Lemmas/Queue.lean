import SFV.Model.Queue
/-! Inductive invariant of the queue-polling transition system (`SFV/Model/Queue.lean`). -/
namespace SFV.Queue

/-- The inductive invariant. -/
def Inv (s : St) : Prop :=
  -- I0: ids in `_scheduled_jobs` belong to registered runs that are still waiting
  (∀ j, j ∈ s.scheduled → (s.pc j).waiting = true ∧ j ∈ s.submitted) ∧
  -- I1: a cached answer lists every registered id whose run is past the cache clear, and is right about absent ids
  (∀ r q, s.cache = some (r, q) →
      (∀ j, j ∈ s.scheduled → s.pc j ≠ .needClear → j ∈ q) ∧ (∀ j, j ∈ q → j ∉ r → j ∉ s.queue)) ∧
  -- I2: while the lock is held a query is in flight, and it lists every such id as well
  (∀ h, s.lock = some h → (s.pc h = .query ∨ s.pc h = .answered) ∧
      (∀ k, k ∈ s.scheduled → s.pc k ≠ .needClear → k ∈ s.asked)) ∧
  -- I3: an answer not yet stored is right about absent ids
  (∀ h, s.pc h = .answered → ∀ k, k ∈ s.asked → k ∉ s.answer → k ∉ s.queue) ∧
  -- I4: whoever is querying holds the lock
  (∀ j, (s.pc j = .query ∨ s.pc j = .answered) → s.lock = some j) ∧
  -- I5: a run that left the loop normally: its job has left the queue
  (∀ j, (s.pc j).finished = true → j ∉ s.queue) ∧
  -- I6/I7: bookkeeping
  (∀ j, j ∈ s.queue → j ∈ s.submitted) ∧ (∀ j, j ∈ s.submitted → s.pc j ≠ .idle) ∧
  -- I8/I9: the fetched fields are those of the final record of the same id
  (∀ j o, s.pc j = .gotOut o → o = some (s.res j).1) ∧
  (∀ j o c, s.pc j = .done o c → o = some (s.res j).1 ∧ c = some (s.res j).2) ∧
  -- I10/I11: only submitted ids are ever listed in a query
  (∀ r q, s.cache = some (r, q) → ∀ j, j ∈ q → j ∈ s.submitted) ∧ (∀ j, j ∈ s.asked → j ∈ s.submitted) ∧
  -- I12: a run that has started has submitted its id
  (∀ j, s.pc j ≠ .idle → j ∈ s.submitted)

/-- Invariant about `undeploy` (one undeploy per connector life). -/
def UInv (s : St) : Prop :=
  (s.upc = .idle → ∀ j, (s.pc j).waiting = true → j ∈ s.scheduled) ∧
  (s.upc = .idle → ∀ j, s.pc j ≠ .failed) ∧
  (∀ js, (s.upc = .sent js ∨ s.upc = .finished js) → ∀ j, j ∈ js → j ∉ s.queue) ∧
  (∀ js, (s.upc = .cancelling js ∨ s.upc = .sent js ∨ s.upc = .finished js) → ∀ j, j ∈ js → j ∈ s.submitted)

theorem inv_init (res) : Inv (init res) := by
  simp [Inv, init, Pc.finished]

theorem uinv_init (res) : UInv (init res) := by
  simp [UInv, init, Pc.waiting]

attribute [local grind] Pc.waiting Pc.finished setPc

theorem inv_afterPoll_hit {s : St} {j : Nat} {r q : List Nat} (hI : Inv s) (hp : s.pc j = .poll)
    (hl : s.lock = none) (hc : s.cache = some (r, q)) : Inv (afterPoll s j r) := by
  obtain ⟨h0, h1, h2, h3, h4, h5, h6, h7, h8, h9, h10, h11, h12⟩ := hI
  unfold afterPoll
  split
  · refine ⟨?_, ?_, ?_, ?_, ?_, ?_, ?_, ?_, ?_, ?_, ?_, ?_, ?_⟩ <;> grind
  · split
    · refine ⟨?_, ?_, ?_, ?_, ?_, ?_, ?_, ?_, ?_, ?_, ?_, ?_, ?_⟩ <;> grind
    · refine ⟨?_, ?_, ?_, ?_, ?_, ?_, ?_, ?_, ?_, ?_, ?_, ?_, ?_⟩ <;> grind

theorem inv_afterPoll_store {s : St} {j : Nat} (hI : Inv s) (hp : s.pc j = .answered) :
    Inv (afterPoll { s with cache := some (s.answer, s.asked), lock := none } j s.answer) := by
  obtain ⟨h0, h1, h2, h3, h4, h5, h6, h7, h8, h9, h10, h11, h12⟩ := hI
  have hl := h4 j (Or.inr hp)
  unfold afterPoll
  split
  · refine ⟨?_, ?_, ?_, ?_, ?_, ?_, ?_, ?_, ?_, ?_, ?_, ?_, ?_⟩ <;> grind
  · split
    · refine ⟨?_, ?_, ?_, ?_, ?_, ?_, ?_, ?_, ?_, ?_, ?_, ?_, ?_⟩ <;> grind
    · refine ⟨?_, ?_, ?_, ?_, ?_, ?_, ?_, ?_, ?_, ?_, ?_, ?_, ?_⟩ <;> grind

end SFV.Queue
