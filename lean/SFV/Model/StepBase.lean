/-! Pieces of `BaseStep` shared by the step models (C01 gather, C06 loop output):
    the statuses a termination token carries, `_reduce_statuses` on `[status, token.value]`, `_get_status`. -/
namespace SFV

/-- `streamflow.core.workflow.Status`, restricted to the members a `TerminationToken` can carry -/
inductive Status | skipped | completed | failed | cancelled | recovered
deriving DecidableEq, Repr

/-- the `match` inside the loop of `_reduce_statuses`: `some s` = early `return s` -/
def Status.early : Status → Option Status
  | .failed => some .failed
  | .cancelled => some .cancelled
  | _ => none

/-- `_reduce_statuses([a, b])` -/
def reduce2 (a b : Status) : Status :=
  match a.early with
  | some s => s
  | none =>
    match b.early with
    | some s => s
    | none =>
      if a = .recovered ∨ b = .recovered then .recovered
      else if a = .skipped ∧ b = .skipped then .skipped
      else .completed

/-- `BaseStep._get_status(status)`; `outEmpty` = some output port has an empty `token_list` -/
def getStatus (status : Status) (outEmpty : Bool) : Status :=
  if status = .failed then status
  else if status = .recovered then .completed
  else if outEmpty then .skipped
  else status

def Status.render : Status → String
  | .skipped => "SKIPPED" | .completed => "COMPLETED" | .failed => "FAILED"
  | .cancelled => "CANCELLED" | .recovered => "RECOVERED"

def Status.parse : String → Option Status
  | "SKIPPED" => some .skipped | "COMPLETED" => some .completed | "FAILED" => some .failed
  | "CANCELLED" => some .cancelled | "RECOVERED" => some .recovered | _ => none

end SFV
