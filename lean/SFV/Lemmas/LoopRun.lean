import SFV.Lemmas.Loop
/-! Projection of the loop output step onto one loop instance; the run-level theorem. -/
namespace SFV.Loop
open SFV

def view {V} (s : St V) (k : Tag) : KSt V := ⟨s.toks k, s.sizes k, s.out.filter (fun o => o.tag = k)⟩

def evKey {V} : Ev V → Option Tag
  | .data t => some t.tag.dropLast
  | .iterTerm tag => some tag.dropLast
  | .term _ => none

def toK {V} : Ev V → Option (KEv V)
  | .data t => some (.data t)
  | .iterTerm tag => some (.iterTerm (tag.getLast?.getD 0))
  | .term _ => none

def proj {V} (k : Tag) (es : List (Ev V)) : List (KEv V) :=
  es.filterMap (fun e => if evKey e = some k then toK e else none)

def IsData {V} : Ev V → Prop
  | .term _ => False
  | _ => True

/-- the step is inside its loop and has not seen the port's termination token -/
def Quiet {V} (s : St V) : Prop := s.terminated = none ∧ s.termKeys = []

theorem processOutput_tag {V} (m : Method) (k : Tag) (l : List (Tok V)) : (processOutput m k l).tag = k := by
  cases m <;> rfl

theorem setKey_same {α} (m : Tag → α) (k : Tag) (v : α) : setKey m k v k = v := by simp [setKey]
theorem setKey_other {α} (m : Tag → α) (k k' : Tag) (v : α) (h : k' ≠ k) : setKey m k v k' = m k' := by
  simp [setKey, h]

theorem view_check_same {V} (m : Method) (s : St V) (k : Tag) : view (check m s k) k = kcheck m k (view s k) := by
  by_cases h : Gen.loopEmits (s.toks k).length ((s.sizes k).getD Gen.loopSizeDefault) = true
  · simp [check, kcheck, view, h, List.filter_append, processOutput_tag]
  · simp [check, kcheck, view, h]

theorem view_check_other {V} (m : Method) (s : St V) (k k' : Tag) (h : k' ≠ k) : view (check m s k) k' = view s k' := by
  unfold check
  split
  · have : ¬ k = k' := fun e => h e.symm
    simp [view, List.filter_append, processOutput_tag, this]
  · rfl

theorem check_fields {V} (m : Method) (s : St V) (k : Tag) :
    (check m s k).terminated = s.terminated ∧ (check m s k).termKeys = s.termKeys ∧ (check m s k).status = s.status ∧
    (check m s k).keys = s.keys := by
  unfold check; split <;> exact ⟨rfl, rfl, rfl, rfl⟩

theorem exits_quiet {V} (s : St V) (h : s.termKeys = []) : exits s = false := by simp [exits, h]

/-- `token_map[prefix].append(token)` -/
def addTok {V} (s : St V) (t : Tok V) : St V :=
  { s with keys := addKey s.keys t.tag.dropLast, toks := setKey s.toks t.tag.dropLast (s.toks t.tag.dropLast ++ [t]) }

/-- `size_map[prefix] = int(last component)` -/
def setSize {V} (s : St V) (tag : Tag) : St V :=
  { s with sizes := setKey s.sizes tag.dropLast (some (Gen.loopSizeOf ((tag.getLast?.getD 0 : Nat) : Int))) }

theorem step_data {V} (m : Method) (s : St V) (t : Tok V) (hq : Quiet s) :
    step m s (.data t) = check m (addTok s t) t.tag.dropLast := by
  obtain ⟨hq1, hq2⟩ := hq
  have hex := exits_quiet (check m (addTok s t) t.tag.dropLast) ((check_fields m _ _).2.1.trans hq2)
  simp only [addTok] at hex
  have hno : s.terminated.isSome = false := by simp [hq1]
  simp only [step, addTok, hno, Bool.false_eq_true, if_false, hex]

theorem step_iterTerm {V} (m : Method) (s : St V) (tag : Tag) (hq : Quiet s) :
    step m s (.iterTerm tag) = check m (setSize s tag) tag.dropLast := by
  obtain ⟨hq1, hq2⟩ := hq
  have hex := exits_quiet (check m (setSize s tag) tag.dropLast) ((check_fields m _ _).2.1.trans hq2)
  simp only [setSize] at hex
  have hno : s.terminated.isSome = false := by simp [hq1]
  simp only [step, setSize, hno, Bool.false_eq_true, if_false, hex]

theorem step_term {V} (m : Method) (s : St V) (st : Status) (hq : Quiet s) (ht : s.toks [] = []) (hs : s.sizes [] = none)
    (hk : ∀ k ∈ s.keys, k ≠ []) :
    (step m s (.term st)).out = s.out ∧
    (step m s (.term st)).terminated = some (getStatus (reduce2 s.status st) s.out.isEmpty) := by
  obtain ⟨hq1, hq2⟩ := hq
  have e0 : Gen.loopEmits (0 : Int) Gen.loopSizeDefault = false := loopEmits_none 0
  have hall : s.keys.all (fun k => !k.isEmpty) = true := by
    rw [List.all_eq_true]
    intro k hk'
    have := hk k hk'
    cases k with
    | nil => exact absurd rfl this
    | cons a r => rfl
  by_cases hke : s.keys.isEmpty = true
  · simp [step, hq1, hke, leave]
  · simp [step, hq1, hke, leave, check, ht, hs, e0, exits, hall]

theorem view_step {V} (m : Method) (s : St V) (e : Ev V) (hq : Quiet s) (hd : IsData e) (k : Tag) :
    view (step m s e) k =
      (match (if evKey e = some k then toK e else none) with
       | some ke => kstep m k (view s k) ke
       | none => view s k) ∧ Quiet (step m s e) ∧ (step m s e).status = s.status := by
  cases e with
  | term st => exact (hd : False).elim
  | data t =>
    rw [step_data m s t hq]
    obtain ⟨hq1, hq2⟩ := hq
    simp only [evKey, toK, Option.some.injEq]
    refine ⟨?_, ⟨(check_fields m _ _).1.trans hq1, (check_fields m _ _).2.1.trans hq2⟩, (check_fields m _ _).2.2.1⟩
    by_cases hk : t.tag.dropLast = k
    · subst hk
      simp only [if_true, view_check_same]
      simp [view, kstep, setKey_same, addTok, setSize]
    · simp only [hk, if_false]
      rw [view_check_other _ _ _ _ (fun e => hk e.symm)]
      simp [view, setKey_other _ _ _ _ (fun e => hk e.symm), addTok, setSize]
  | iterTerm tag =>
    rw [step_iterTerm m s tag hq]
    obtain ⟨hq1, hq2⟩ := hq
    simp only [evKey, toK, Option.some.injEq]
    refine ⟨?_, ⟨(check_fields m _ _).1.trans hq1, (check_fields m _ _).2.1.trans hq2⟩, (check_fields m _ _).2.2.1⟩
    by_cases hk : tag.dropLast = k
    · subst hk
      simp only [if_true, view_check_same]
      simp [view, kstep, setKey_same, addTok, setSize]
    · simp only [hk, if_false]
      rw [view_check_other _ _ _ _ (fun e => hk e.symm)]
      simp [view, setKey_other _ _ _ _ (fun e => hk e.symm), addTok, setSize]

theorem view_foldl {V} (m : Method) (es : List (Ev V)) (hd : ∀ e ∈ es, IsData e) :
    ∀ (s : St V), Quiet s → ∀ k,
      view (es.foldl (step m) s) k = (proj k es).foldl (kstep m k) (view s k) ∧
      Quiet (es.foldl (step m) s) ∧ (es.foldl (step m) s).status = s.status := by
  induction es with
  | nil => intro s hq k; exact ⟨rfl, hq, rfl⟩
  | cons e es ih =>
    intro s hq k
    have hstep := view_step m s e hq (hd e (by simp)) k
    have ih' := ih (fun x hx => hd x (List.mem_cons_of_mem _ hx)) (step m s e) hstep.2.1 k
    simp only [List.foldl_cons]
    refine ⟨?_, ih'.2.1, ih'.2.2.trans hstep.2.2⟩
    rw [ih'.1, hstep.1]
    simp only [proj, List.filterMap_cons]
    cases hc : (if evKey e = some k then toK e else none) with
    | none => simp
    | some ke => simp

theorem mem_addKey {keys : List Tag} {k k' : Tag} : k' ∈ addKey keys k ↔ k' ∈ keys ∨ k' = k := by
  unfold addKey
  split
  · constructor
    · exact Or.inl
    · rintro (h | rfl)
      · exact h
      · assumption
  · simp

/-- every key of `token_map` is the prefix of a data token received -/
theorem keys_sub {V} (m : Method) (es : List (Ev V)) (hd : ∀ e ∈ es, IsData e) :
    ∀ (s : St V), Quiet s → ∀ k ∈ (es.foldl (step m) s).keys, k ∈ s.keys ∨ ∃ e ∈ es, evKey e = some k := by
  induction es with
  | nil => intro s _ k hk; exact Or.inl hk
  | cons e es ih =>
    intro s hq k hk
    have hstep := view_step m s e hq (hd e (by simp)) k
    rcases ih (fun x hx => hd x (List.mem_cons_of_mem _ hx)) (step m s e) hstep.2.1 k hk with h | ⟨e', he', hk'⟩
    · have : k ∈ s.keys ∨ evKey e = some k := by
        obtain ⟨hq1, hq2⟩ := hq
        cases e with
        | term st => exact (hd (Ev.term st) (by simp) : False).elim
        | data t =>
          rw [step_data m s t ⟨hq1, hq2⟩, (check_fields m _ _).2.2.2] at h
          simp only [addTok] at h
          rcases mem_addKey.mp h with h | h
          · exact Or.inl h
          · exact Or.inr (by simp [evKey, h])
        | iterTerm tag =>
          rw [step_iterTerm m s tag ⟨hq1, hq2⟩, (check_fields m _ _).2.2.2] at h
          simp only [setSize] at h
          exact Or.inl h
      rcases this with h | h
      · exact Or.inl h
      · exact Or.inr ⟨e, by simp, h⟩
    · exact Or.inr ⟨e', List.mem_cons_of_mem _ he', hk'⟩

/-! ### lists of outputs with distinct tags -/

theorem nodup_of_filter_tag {V} (l : List (Out V)) (h : ∀ k, (l.filter (fun o => o.tag = k)).length ≤ 1) : l.Nodup := by
  induction l with
  | nil => exact List.nodup_nil
  | cons o l ih =>
    refine List.nodup_cons.mpr ⟨?_, ih ?_⟩
    · intro hmem
      have := h o.tag
      have h2 : o ∈ l.filter (fun x => x.tag = o.tag) := List.mem_filter.mpr ⟨hmem, by simp⟩
      simp only [List.filter_cons, decide_true, if_true, List.length_cons] at this
      have := List.length_pos_of_mem h2
      omega
    · intro k
      have := h k
      simp only [List.filter_cons] at this
      split at this
      · simp only [List.length_cons] at this; omega
      · exact this

theorem nodup_of_nodup_map {α β} (f : α → β) (l : List α) (h : (l.map f).Nodup) : l.Nodup := by
  induction l with
  | nil => exact List.nodup_nil
  | cons x l ih =>
    simp only [List.map_cons, List.nodup_cons, List.mem_map, not_exists, not_and] at h
    exact List.nodup_cons.mpr ⟨fun hx => h.1 x hx rfl, ih h.2⟩

/-! ### the events of complete loop instances -/

/-- the tokens of instance `i = (p, vals)`: body outputs `p.j ↦ vals[j]` and the iteration termination `p.n` -/
def instEvents {V} (i : Tag × List V) : List (Ev V) :=
  (iterToks i.1 0 i.2).map Ev.data ++ [Ev.iterTerm (i.1 ++ [i.2.length])]

def instKEvents {V} (i : Tag × List V) : List (KEv V) :=
  (iterToks i.1 0 i.2).map KEv.data ++ [KEv.iterTerm i.2.length]

theorem instEvents_data {V} (i : Tag × List V) : ∀ e ∈ instEvents i, IsData e := by
  intro e he
  simp only [instEvents, List.mem_append, List.mem_map, List.mem_singleton] at he
  rcases he with ⟨t, _, rfl⟩ | rfl <;> trivial

theorem instEvents_key {V} (i : Tag × List V) : ∀ e ∈ instEvents i, evKey e = some i.1 := by
  intro e he
  simp only [instEvents, List.mem_append, List.mem_map, List.mem_singleton] at he
  rcases he with ⟨t, ht, rfl⟩ | rfl
  · obtain ⟨j, _, htag⟩ := mem_iterToks ht
    simp [evKey, htag]
  · simp [evKey]

theorem proj_of_key {V} (k : Tag) (es : List (Ev V)) (h : ∀ e ∈ es, evKey e = some k) :
    proj k es = es.filterMap toK := by
  induction es with
  | nil => rfl
  | cons e es ih =>
    simp only [proj, List.filterMap_cons, h e (by simp), if_true]
    have := ih (fun x hx => h x (List.mem_cons_of_mem _ hx))
    simp only [proj] at this
    rw [this]

theorem proj_of_other {V} (k k' : Tag) (hk : k ≠ k') (es : List (Ev V)) (h : ∀ e ∈ es, evKey e = some k') :
    proj k es = [] := by
  induction es with
  | nil => rfl
  | cons e es ih =>
    have he := h e (by simp)
    have : ¬ (evKey e = some k) := by rw [he]; simpa using fun e => hk e.symm
    simp only [proj, List.filterMap_cons, this, if_false]
    exact ih (fun x hx => h x (List.mem_cons_of_mem _ hx))

theorem filterMap_toK_inst {V} (i : Tag × List V) : (instEvents i).filterMap toK = instKEvents i := by
  simp only [instEvents, instKEvents, List.filterMap_append]
  congr 1
  · induction iterToks i.1 0 i.2 with
    | nil => rfl
    | cons t ts ih => simp [toK, ih]
  · simp [toK]

theorem proj_append {V} (k : Tag) (a b : List (Ev V)) : proj k (a ++ b) = proj k a ++ proj k b := by
  simp [proj, List.filterMap_append]

theorem proj_insts_other {V} (insts : List (Tag × List V)) (k : Tag) (hk : k ∉ insts.map (·.1)) :
    proj k (insts.flatMap instEvents) = [] := by
  induction insts with
  | nil => rfl
  | cons g gs ih =>
    simp only [List.map_cons, List.mem_cons, not_or] at hk
    simp only [List.flatMap_cons, proj_append]
    rw [proj_of_other k g.1 hk.1 _ (instEvents_key g), ih hk.2]
    rfl

theorem proj_insts_same {V} (insts : List (Tag × List V)) (hnd : (insts.map (·.1)).Nodup)
    (g : Tag × List V) (hg : g ∈ insts) : proj g.1 (insts.flatMap instEvents) = instKEvents g := by
  induction insts with
  | nil => cases hg
  | cons x gs ih =>
    simp only [List.map_cons, List.nodup_cons] at hnd
    simp only [List.flatMap_cons, proj_append]
    rcases List.mem_cons.mp hg with rfl | hg'
    · rw [proj_of_key g.1 _ (instEvents_key g), filterMap_toK_inst, proj_insts_other gs g.1 hnd.1]
      simp
    · have hne : g.1 ≠ x.1 := by
        intro e
        exact hnd.1 (e ▸ List.mem_map_of_mem (f := (·.1)) hg')
      rw [proj_of_other g.1 x.1 hne _ (instEvents_key x), ih hnd.2 hg']
      rfl

theorem expected_tag {V} (m : Method) (i : Tag × List V) : (expected m i).tag = i.1 := by
  cases m <;> rfl

/-- **Any arrival order, any number of concurrent loop instances.** -/
theorem loop_output_insts {V} (m : Method) (insts : List (Tag × List V))
    (hnd : (insts.map (·.1)).Nodup) (hne : ∀ i ∈ insts, i.1 ≠ [])
    (es : List (Ev V)) (hperm : es.Perm (insts.flatMap instEvents)) (st : Status) :
    (run m (es ++ [.term st])).out.Perm (insts.map (expected m)) ∧
    (run m (es ++ [.term st])).terminated = some (getStatus (reduce2 .skipped st) insts.isEmpty) := by
  have hd : ∀ e ∈ es, IsData e := by
    intro e he
    obtain ⟨g, _, heg⟩ := List.mem_flatMap.mp (hperm.subset he)
    exact instEvents_data g e heg
  have hq : Quiet ({} : St V) := ⟨rfl, rfl⟩
  let s0 := es.foldl (step m) ({} : St V)
  have hview : ∀ k, view s0 k = (proj k es).foldl (kstep m k) {} := fun k => (view_foldl m es hd {} hq k).1
  have hq0 : Quiet s0 := (view_foldl m es hd {} hq []).2.1
  have hst0 : s0.status = .skipped := (view_foldl m es hd {} hq []).2.2
  have hin : ∀ g ∈ insts, s0.out.filter (fun o => o.tag = g.1) = [expected m g] := by
    intro g hg
    have h1 := congrArg KSt.outs (hview g.1)
    simp only [view] at h1
    rw [h1]
    apply kloop_perm m g.1 g.2
    have := List.Perm.filterMap (fun e => if evKey e = some g.1 then toK e else none) hperm
    have h2 : proj g.1 (insts.flatMap instEvents) = instKEvents g := proj_insts_same insts hnd g hg
    simp only [proj] at h2
    rw [h2] at this
    exact this
  have hprojnil : ∀ k, k ∉ insts.map (·.1) → proj k es = [] := by
    intro k hk
    have h2 := (List.Perm.filterMap (fun e => if evKey e = some k then toK e else none) hperm).length_eq
    have h3 : proj k (insts.flatMap instEvents) = [] := proj_insts_other insts k hk
    simp only [proj] at h3
    rw [h3] at h2
    exact List.eq_nil_of_length_eq_zero h2
  have hout : ∀ k, k ∉ insts.map (·.1) → view s0 k = {} := by
    intro k hk
    rw [hview k, hprojnil k hk]; rfl
  have hmem : ∀ o, o ∈ s0.out ↔ o ∈ insts.map (expected m) := by
    intro o
    constructor
    · intro ho
      have hof : o ∈ s0.out.filter (fun x => x.tag = o.tag) := List.mem_filter.mpr ⟨ho, by simp⟩
      by_cases hk : o.tag ∈ insts.map (·.1)
      · obtain ⟨g, hg, hgo⟩ := List.mem_map.mp hk
        rw [← hgo, hin g hg] at hof
        simp at hof
        exact List.mem_map.mpr ⟨g, hg, hof.symm⟩
      · have := congrArg KSt.outs (hout o.tag hk)
        simp only [view] at this
        rw [this] at hof; cases hof
    · intro hg
      obtain ⟨g, hg', rfl⟩ := List.mem_map.mp hg
      have : expected m g ∈ s0.out.filter (fun x => x.tag = g.1) := by rw [hin g hg']; simp
      exact (List.mem_filter.mp this).1
  have hnd0 : s0.out.Nodup := by
    apply nodup_of_filter_tag
    intro k
    by_cases hk : k ∈ insts.map (·.1)
    · obtain ⟨g, hg, hgo⟩ := List.mem_map.mp hk
      rw [← hgo, hin g hg]; simp
    · have := congrArg KSt.outs (hout k hk)
      simp only [view] at this
      rw [this]; simp
  have hndE : (insts.map (expected m)).Nodup := by
    apply nodup_of_nodup_map Out.tag
    simpa [List.map_map, Function.comp_def, expected_tag] using hnd
  have hpermout : s0.out.Perm (insts.map (expected m)) := (List.perm_ext_iff_of_nodup hnd0 hndE).mpr hmem
  -- the termination token
  have hkeys : ∀ k ∈ s0.keys, k ≠ [] := by
    intro k hk
    rcases keys_sub m es hd {} hq k hk with h | ⟨e, he, hek⟩
    · cases h
    · obtain ⟨g, hg, heg⟩ := List.mem_flatMap.mp (hperm.subset he)
      have := instEvents_key g e heg
      rw [this] at hek
      have hk' : g.1 = k := by simpa using hek
      exact hk' ▸ hne g hg
  have hnil : view s0 [] = {} := hout [] (by
    intro h; obtain ⟨g, hg, hg0⟩ := List.mem_map.mp h; exact hne g hg hg0)
  have htoks : s0.toks [] = [] := congrArg KSt.toks hnil
  have hsizes : s0.sizes [] = none := congrArg KSt.size hnil
  have hrun : run m (es ++ [.term st]) = step m s0 (.term st) := by simp [run, List.foldl_append, s0]
  have hfinal := step_term m s0 st hq0 htoks hsizes hkeys
  rw [hrun]
  refine ⟨hfinal.1 ▸ hpermout, ?_⟩
  rw [hfinal.2, hst0]
  congr 2
  have := hpermout.length_eq
  cases hA : s0.out <;> cases hB : insts <;> simp_all

/-- the step leaves its loop only on the port's termination token -/
theorem no_exit_before_term {V} (m : Method) (es : List (Ev V)) (hd : ∀ e ∈ es, IsData e) :
    (run m es).terminated = none :=
  (view_foldl m es hd {} ⟨rfl, rfl⟩ []).2.1.1

end SFV.Loop

namespace SFV.Loop
open SFV

/-- **provenance of a loop output.** Whenever a body output or an iteration termination makes the step emit for an instance, the
    inputs recorded for the emitted token are exactly the body outputs collected for that instance, of which the output is
    `_process_output` -/
theorem provOfStep_data {V} (m : Method) (s : St V) (e : Ev V) (hq : Quiet s) (hd : IsData e) :
    ∀ p ∈ provOfStep m s e, processOutput m p.1 p.2 ∈ (step m s e).out ∧ evKey e = some p.1 := by
  cases e with
  | term st => exact (hd : False).elim
  | data t =>
    intro p hp
    simp only [provOfStep] at hp
    rw [step_data m s t hq] at hp ⊢
    unfold check at hp ⊢
    split at hp
    · rename_i hem
      simp only [hem, if_true]
      simp only [addTok, List.drop_left, List.map_cons, List.map_nil, List.mem_singleton, processOutput_tag] at hp
      subst hp
      exact ⟨by simp [addTok], by simp [evKey]⟩
    · simp [addTok] at hp
  | iterTerm tag =>
    intro p hp
    simp only [provOfStep] at hp
    rw [step_iterTerm m s tag hq] at hp ⊢
    unfold check at hp ⊢
    split at hp
    · rename_i hem
      simp only [hem, if_true]
      simp only [setSize, List.drop_left, List.map_cons, List.map_nil, List.mem_singleton, processOutput_tag] at hp
      subst hp
      exact ⟨by simp [setSize], by simp [evKey]⟩
    · simp [setSize] at hp

end SFV.Loop
