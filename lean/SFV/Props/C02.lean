import SFV.Lemmas.CombDotSpec
import SFV.Lemmas.CombCartMain
/-! # C02 — combinators emit exactly the right combinations, whatever the arrival order

Property theorems only. The statements are about the LOOP-FAITHFUL executable model of
`DotProductCombinator` / `CartesianProductCombinator` in `SFV/Model/Comb.lean` (the model the driver runs and
the correspondence check compares with the Python classes); guards, the side of `pop()`, `_is_parent_tag` and
the tag slices come from `SFV/Gen/CombGuards.lean`, `get_tag` from `SFV/Gen/TagGuards.lean`, both regenerated
from `/repo` on every run. Helper lemmas: `SFV/Lemmas/Comb*.lean`.

* `runDot P es` feeds the arrival sequence `es : List (port × token)` to a flat dot product over ports
  `0 … P-1`; `.out` is the list of emitted schemas (port ↦ retagged token, dict order), `.err` a Python exception.
* `normEmit P` sorts a schema by port; `specDot P S` is the specification (one combination for every received
  tag `κ` such that every port has a received token whose tag is a prefix of `κ`: those tokens, retagged `κ`).
* `WFDot P S`: no repeated event, ports below `P`, tags rooted at `0`, and on every port no tag is a prefix of
  another one (in particular the tags of a port are distinct).
* `runCart depth P es` is the flat cartesian product (`depth` = its `depth` attribute); its schemas are already in
  port order. `specCart depth P S`: for every key (tag minus its last `depth` components) the cross product, over
  ports `0 … P-1`, of the received tokens with that key (`cartConfigs` = `itertools.product`), every member retagged
  `own tag[:-1] ++ [last component of every member]`. `WFCart depth P L S`: `depth ≥ 1`, `P ≥ 1`, no repeated
  event, ports below `P`, all tags of the same length `L`, per port distinct tags.
* Nested combinators (outer dot product over an inner dot/cartesian product) are modelled (`runNested`) and
  checked by correspondence and monitor only — no theorem yet (`nested_any_order` of DESIGN §4 is NOT proved). -/
namespace SFV.C02
open SFV SFV.Comb

/-- **Dot product, any arrival order.** For every number of ports, every well-formed stream `S` and every
    arrival order `es` of it, `DotProductCombinator` raises nothing and the multiset of emitted
    (tag, per-port value) combinations is exactly the specification — hence the same for all orders. -/
theorem dot_any_order (P : Nat) (S es : List Ev) (hwf : WFDot P S) (hperm : es.Perm S) :
    (runDot P es).err = none ∧ ((runDot P es).out.map (normEmit P)).Perm (specDot P S) :=
  runDot_any_order S es hwf hperm

/-- two arrival orders of a well-formed stream emit the same multiset -/
theorem dot_order_independent (P : Nat) (S es es' : List Ev) (hwf : WFDot P S) (h : es.Perm S) (h' : es'.Perm S) :
    ((runDot P es).out.map (normEmit P)).Perm ((runDot P es').out.map (normEmit P)) :=
  (runDot_any_order S es hwf h).2.trans (runDot_any_order S es' hwf h').2.symm

/-- under well-formedness "some received token of the port has a prefix tag" is "exactly one has" -/
theorem dot_spec_member_unique (P : Nat) (S : List Ev) (hwf : WFDot P S) (κ : Tag) (e e' : Ev)
    (he : e ∈ S) (he' : e' ∈ S) (hq : e.1 = e'.1) (h : e.2.tag <+: κ) (h' : e'.2.tag <+: κ) : e = e' := by
  rcases List.prefix_or_prefix_of_prefix h h' with hp | hp
  · exact hwf.2.2.2 e he e' he' hq hp
  · exact (hwf.2.2.2 e' he' e he hq.symm hp).symm

/-- non-vacuity: the 3-port broadcast example (tags `0`, `0.1`, `0.1.0`) is well formed, its specification is
    the single combination tagged `0.1.0`, and the model emits it -/
example : WFDot 3 [(0, ⟨[0], 100⟩), (1, ⟨[0, 1], 200⟩), (2, ⟨[0, 1, 0], 300⟩)] := by
  unfold WFDot Rooted; decide
example : specDot 3 [(0, ⟨[0], 100⟩), (1, ⟨[0, 1], 200⟩), (2, ⟨[0, 1, 0], 300⟩)] =
    [[(0, ⟨[0, 1, 0], 100⟩), (1, ⟨[0, 1, 0], 200⟩), (2, ⟨[0, 1, 0], 300⟩)]] := by decide
example : (runDot 3 [(2, ⟨[0, 1, 0], 300⟩), (0, ⟨[0], 100⟩), (1, ⟨[0, 1], 200⟩)]).out =
    [[(2, ⟨[0, 1, 0], 300⟩), (0, ⟨[0, 1, 0], 100⟩), (1, ⟨[0, 1, 0], 200⟩)]] := by decide +kernel
/-- a stream with a two-digit component and two complete tags -/
example : WFDot 2 [(0, ⟨[0], 1⟩), (1, ⟨[0, 10], 2⟩), (1, ⟨[0, 9], 3⟩)] ∧
    (specDot 2 [(0, ⟨[0], 1⟩), (1, ⟨[0, 10], 2⟩), (1, ⟨[0, 9], 3⟩)]).length = 2 := by
  refine ⟨by unfold WFDot Rooted; decide, by decide⟩

/-- **Negative witness.** Port 0 carries `0` and its own descendant `0.0`: two arrival orders of the same
    stream emit a different number of combinations (1 and 2). Evaluated on the loop-faithful model by the kernel;
    reproduces on the real class (known finding). -/
theorem dot_counterexample :
    (runDot 2 [(0, ⟨[0], 100⟩), (1, ⟨[0], 7⟩), (0, ⟨[0, 0], 5⟩)]).out.length = 1 ∧
    (runDot 2 [(0, ⟨[0], 100⟩), (0, ⟨[0, 0], 5⟩), (1, ⟨[0], 7⟩)]).out.length = 2 := by
  decide +kernel

/-- the full-strength statement (every stream with distinct events, without the prefix-antichain condition) is
    FALSE of the code -/
theorem dot_any_order_full_false :
    ¬ (∀ (P : Nat) (S es es' : List Ev), S.Nodup → (∀ e ∈ S, e.1 < P) → Rooted S → es.Perm S → es'.Perm S →
        ((runDot P es).out.map (normEmit P)).Perm ((runDot P es').out.map (normEmit P))) := by
  intro h
  have := h 2 [(0, ⟨[0], 100⟩), (1, ⟨[0], 7⟩), (0, ⟨[0, 0], 5⟩)]
    [(0, ⟨[0], 100⟩), (1, ⟨[0], 7⟩), (0, ⟨[0, 0], 5⟩)] [(0, ⟨[0], 100⟩), (0, ⟨[0, 0], 5⟩), (1, ⟨[0], 7⟩)]
    (by decide) (by decide) (by unfold Rooted; decide) (List.Perm.refl _)
    (by decide)
  have hl := this.length_eq
  simp only [List.length_map] at hl
  rw [dot_counterexample.1, dot_counterexample.2] at hl
  exact absurd hl (by decide)

/-- **Cartesian product, any arrival order.** For every depth ≥ 1, every number of ports ≥ 1, every stream
    `S` whose tags all have the same length (per port distinct) and every arrival order `es` of it,
    `CartesianProductCombinator` raises nothing and the multiset of emitted schemas is exactly the full cross
    product per key with the composite tags — hence the same for all orders. -/
theorem cart_any_order (depth P L : Nat) (S es : List Ev) (hwf : WFCart depth P L S) (hperm : es.Perm S) :
    (runCart depth P es).err = none ∧ (runCart depth P es).out.Perm (specCart depth P S) :=
  runCart_any_order S es hwf hperm

/-- non-vacuity: two ports, two tokens each, one key: four combinations with composite tags; a two-digit
    component; depth 2 keeps the members' own middle component -/
example : WFCart 1 2 2 [(0, ⟨[0, 0], 1⟩), (0, ⟨[0, 10], 2⟩), (1, ⟨[0, 0], 3⟩), (1, ⟨[0, 1], 4⟩)] := by
  unfold WFCart; decide
example : specCart 1 2 [(0, ⟨[0, 0], 1⟩), (0, ⟨[0, 10], 2⟩), (1, ⟨[0, 0], 3⟩), (1, ⟨[0, 1], 4⟩)] =
    [[(0, ⟨[0, 0, 0], 1⟩), (1, ⟨[0, 0, 0], 3⟩)], [(0, ⟨[0, 0, 1], 1⟩), (1, ⟨[0, 0, 1], 4⟩)],
     [(0, ⟨[0, 10, 0], 2⟩), (1, ⟨[0, 10, 0], 3⟩)], [(0, ⟨[0, 10, 1], 2⟩), (1, ⟨[0, 10, 1], 4⟩)]] := by decide
example : WFCart 2 2 3 [(0, ⟨[0, 1, 2], 1⟩), (0, ⟨[0, 3, 4], 2⟩), (1, ⟨[0, 5, 6], 3⟩)] ∧
    specCart 2 2 [(0, ⟨[0, 1, 2], 1⟩), (0, ⟨[0, 3, 4], 2⟩), (1, ⟨[0, 5, 6], 3⟩)] =
    [[(0, ⟨[0, 1, 2, 6], 1⟩), (1, ⟨[0, 5, 2, 6], 3⟩)], [(0, ⟨[0, 3, 4, 6], 2⟩), (1, ⟨[0, 5, 4, 6], 3⟩)]] := by
  refine ⟨by unfold WFCart; decide, by decide⟩

/-- **Negative witness (cartesian).** Tokens of different depths (`0.0`, `0.1` on port 0; `0.0.1`, `0.0.2` on
    port 1, depth 1): two arrival orders emit a different number of schemas (2 and 3). Reproduces on the real
    class (known finding). -/
theorem cart_counterexample :
    (runCart 1 2 [(0, ⟨[0, 0], 1⟩), (1, ⟨[0, 0, 1], 2⟩), (1, ⟨[0, 0, 2], 3⟩), (0, ⟨[0, 1], 4⟩)]).out.length = 2 ∧
    (runCart 1 2 [(0, ⟨[0, 0], 1⟩), (1, ⟨[0, 0, 1], 2⟩), (0, ⟨[0, 1], 4⟩), (1, ⟨[0, 0, 2], 3⟩)]).out.length = 3 := by
  decide +kernel

/-- the full-strength statement (without "all tags have the same length") is FALSE of the code -/
theorem cart_any_order_full_false :
    ¬ (∀ (depth P : Nat) (S es es' : List Ev), 0 < depth → 0 < P → S.Nodup → (∀ e ∈ S, e.1 < P) →
        (∀ e ∈ S, ∀ e' ∈ S, e.1 = e'.1 → e.2.tag = e'.2.tag → e = e') → es.Perm S → es'.Perm S →
        (runCart depth P es).out.Perm (runCart depth P es').out) := by
  intro h
  have := h 1 2 [(0, ⟨[0, 0], 1⟩), (1, ⟨[0, 0, 1], 2⟩), (1, ⟨[0, 0, 2], 3⟩), (0, ⟨[0, 1], 4⟩)]
    [(0, ⟨[0, 0], 1⟩), (1, ⟨[0, 0, 1], 2⟩), (1, ⟨[0, 0, 2], 3⟩), (0, ⟨[0, 1], 4⟩)]
    [(0, ⟨[0, 0], 1⟩), (1, ⟨[0, 0, 1], 2⟩), (0, ⟨[0, 1], 4⟩), (1, ⟨[0, 0, 2], 3⟩)]
    (by decide) (by decide) (by decide) (by decide) (by decide) (List.Perm.refl _) (by decide)
  have hl := this.length_eq
  rw [cart_counterexample.1, cart_counterexample.2] at hl
  exact absurd hl (by decide)

end SFV.C02
