import SFV.Model.HW
import SFV.Model.Proto
/-! Line-protocol encoding of rationals, storages and hardware (used by the C10–C14 drivers).

    rat       `n` or `n/d`
    storage   `key:mount:size:paths:bind`   paths = `p1+p2+…` or `-`, bind = `b` or `-`
    hardware  `cores|memory|storage|storage|…` -/
namespace SFV.HWProto
open SFV.HW

def ratStr (r : Rat) : String := if r.den = 1 then toString r.num else s!"{r.num}/{r.den}"

def parseRat (s : String) : Option Rat :=
  match s.splitOn "/" with
  | [n] => n.toInt?.map (fun i => (i : Rat))
  | [n, d] => do
      let i ← n.toInt?
      let k ← d.toNat?
      if k = 0 then none else some (mkRat i k)
  | _ => none

def insertSorted (x : Nat) : List Nat → List Nat
  | [] => [x]
  | y :: ys => if x ≤ y then x :: y :: ys else y :: insertSorted x ys
def sortNats (l : List Nat) : List Nat := l.foldr insertSorted []

def pathsStr (l : List Nat) : String :=
  if l.isEmpty then "-" else "+".intercalate ((sortNats l).map toString)

def parsePaths (s : String) : Option (List Nat) :=
  if s = "-" then some [] else (s.splitOn "+").mapM (·.toNat?)

def optStr : Option Nat → String
  | none => "-"
  | some b => toString b

def parseOpt (s : String) : Option (Option Nat) :=
  if s = "-" then some none else s.toNat?.map some

def storageStr (k : Nat) (s : Storage) : String :=
  s!"{k}:{s.mount}:{ratStr s.size}:{pathsStr s.paths}:{optStr s.bind}"

def parseStorage (s : String) : Option (Nat × Storage) :=
  match s.splitOn ":" with
  | [k, m, sz, ps, b] => do
      let k ← k.toNat?
      let m ← m.toNat?
      let sz ← parseRat sz
      let ps ← parsePaths ps
      let b ← parseOpt b
      pure (k, { mount := m, size := sz, paths := ps, bind := b })
  | _ => none

def hwStr (h : Hardware) : String :=
  "|".intercalate ([ratStr h.cores, ratStr h.memory] ++ h.storage.map (fun kd => storageStr kd.1 kd.2))

def parseHw (s : String) : Option Hardware :=
  match s.splitOn "|" with
  | c :: m :: sts => do
      let c ← parseRat c
      let m ← parseRat m
      let sts ← sts.mapM parseStorage
      pure { cores := c, memory := m, storage := sts }
  | _ => none

def errStr : Err → String
  | .negativeSize => "negativeSize"
  | .mountMismatch => "mountMismatch"
  | .missingStorage => "missingStorage"
  | .keyError => "keyError"

def resStr {α} (f : α → String) : Except Err α → String
  | .ok a => "ok " ++ f a
  | .error e => "err " ++ errStr e

end SFV.HWProto
