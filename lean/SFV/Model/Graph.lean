/-! `DirectedGraph` / `DirectedAcyclicGraph` of `streamflow/recovery/utils.py`, as the code keeps it:
    two adjacency maps `_successors`, `_predecessors` (each a key list plus a total function; an absent
    key maps to `[]`). Python sets are lists whose order is never observed by the theorems;
    `set.discard(x)` is `filter (· != x)`, `set.add` is `setAdd`. Core Lean only. -/
namespace SFV.Graph

structure G where
  /-- keys of `_successors` -/
  sk : List Nat
  /-- keys of `_predecessors` -/
  pk : List Nat
  succ : Nat → List Nat
  pred : Nat → List Nat

def G.empty : G := ⟨[], [], fun _ => [], fun _ => []⟩

/-- `d[k] = v` -/
def upd (f : Nat → List Nat) (k : Nat) (v : List Nat) : Nat → List Nat :=
  fun x => if x = k then v else f x

/-- `s.add(x)` -/
def setAdd (l : List Nat) (x : Nat) : List Nat := if x ∈ l then l else l ++ [x]

/-- `s.discard(x)` (and, when `x ∈ s`, `s.remove(x)`) -/
def discard (l : List Nat) (x : Nat) : List Nat := l.filter (· != x)

/-- `_add_node` -/
def G.addNode (g : G) (n : Nat) : G :=
  if n ∈ g.sk then g
  else { sk := g.sk ++ [n], pk := g.pk ++ [n], succ := upd g.succ n [], pred := upd g.pred n [] }

/-- `add(u, v)` -/
def G.add (g : G) (u : Nat) (v : Option Nat) : G :=
  let g1 := g.addNode u
  match v with
  | none => g1
  | some v =>
      let g2 := g1.addNode v
      { g2 with succ := upd g2.succ u (setAdd (g2.succ u) v), pred := upd g2.pred v (setAdd (g2.pred v) u) }

/-- `for succ in self._successors[current]: self._predecessors[succ].discard(current)` -/
def dropFromPreds (cur : Nat) : List Nat → G → G
  | [], g => g
  | s :: ss, g => dropFromPreds cur ss { g with pred := upd g.pred s (discard (g.pred s) cur) }

/-- `for pred in self._predecessors[current]: self._successors[pred].discard(current);
     if prune_dead_end and not self._successors[pred].difference(stack): stack.append(pred)`.
    The stack is kept with its top first. -/
def predLoop (prune : Bool) (cur : Nat) : List Nat → G → List Nat → G × List Nat
  | [], g, stack => (g, stack)
  | p :: ps, g, stack =>
      let s' := discard (g.succ p) cur
      let stack' := if prune && s'.all (· ∈ stack) then p :: stack else stack
      predLoop prune cur ps { g with succ := upd g.succ p s' } stack'

/-- `del self._successors[current]; del self._predecessors[current]` -/
def G.delNode (g : G) (cur : Nat) : G :=
  { sk := g.sk.filter (· != cur), pk := g.pk.filter (· != cur), succ := upd g.succ cur [], pred := upd g.pred cur [] }

/-- one iteration of the `while stack` loop for a `current` that is a key -/
def removeStep (prune : Bool) (g : G) (cur : Nat) (rest : List Nat) : G × List Nat :=
  let g1 := dropFromPreds cur (g.succ cur) g
  let r := predLoop prune cur (g1.pred cur) g1 rest
  (r.1.delNode cur, r.2)

theorem dropFromPreds_sk (cur : Nat) (l : List Nat) (g : G) : (dropFromPreds cur l g).sk = g.sk := by
  induction l generalizing g with
  | nil => rfl
  | cons a l ih => simp [dropFromPreds, ih]

theorem predLoop_sk (prune : Bool) (cur : Nat) (ps : List Nat) (g : G) (st : List Nat) :
    (predLoop prune cur ps g st).1.sk = g.sk := by
  induction ps generalizing g st with
  | nil => rfl
  | cons p ps ih => simp [predLoop, ih]

theorem removeStep_sk (prune : Bool) (g : G) (cur : Nat) (rest : List Nat) :
    (removeStep prune g cur rest).1.sk = g.sk.filter (· != cur) := by
  simp [removeStep, G.delNode, predLoop_sk, dropFromPreds_sk]

/-- the `while stack` loop of `remove_nodes`; terminates because every productive iteration deletes a key -/
def removeLoop (prune : Bool) (g : G) (stack : List Nat) (removed : List Nat) : G × List Nat :=
  match stack with
  | [] => (g, removed)
  | cur :: rest =>
      if h : cur ∈ g.sk then
        let r := removeStep prune g cur rest
        removeLoop prune r.1 r.2 (removed ++ [cur])
      else removeLoop prune g rest removed
termination_by (g.sk.length, stack.length)
decreasing_by
  · apply Prod.Lex.left
    rw [removeStep_sk]
    exact List.length_filter_lt_length_iff_exists.mpr ⟨cur, h, by simp⟩
  · apply Prod.Lex.right
    simp

/-- `remove_nodes(nodes, prune_dead_end)`: python pops from the end of `list(nodes)` -/
def G.removeNodes (g : G) (nodes : List Nat) (prune : Bool) : G × List Nat :=
  removeLoop prune g nodes.reverse []

/-- first loop of `replace`: `for succ in S[old]: S[new].add(succ); P[succ].remove(old); P[succ].add(new)` -/
def replSucc (old new : Nat) : List Nat → G → G
  | [], g => g
  | s :: ss, g =>
      let g1 : G := { g with succ := upd g.succ new (setAdd (g.succ new) s) }
      let g2 : G := { g1 with pred := upd g1.pred s (setAdd (discard (g1.pred s) old) new) }
      replSucc old new ss g2

/-- second loop of `replace`: `for pred in P[old]: P[new].add(pred); S[pred].remove(old); S[pred].add(new)` -/
def replPred (old new : Nat) : List Nat → G → G
  | [], g => g
  | p :: ps, g =>
      let g1 : G := { g with pred := upd g.pred new (setAdd (g.pred new) p) }
      let g2 : G := { g1 with succ := upd g1.succ p (setAdd (discard (g1.succ p) old) new) }
      replPred old new ps g2

/-- `replace(old, new)`: `none` is the `ValueError` (new node already present) -/
def G.replace (g : G) (old new : Nat) : Option G :=
  if old ∉ g.sk then some g
  else if new ∈ g.sk then none
  else
    let g0 := g.addNode new
    let g1 := replSucc old new (g0.succ old) g0
    let g2 := replPred old new (g1.pred old) g1
    some (g2.delNode old)

/-- loop of `promote_to_source` over the snapshot `list(self._predecessors[node])` -/
def promoteLoop (node : Nat) : List Nat → G → List Nat → G × List Nat
  | [], g, del => (g, del)
  | p :: ps, g, del =>
      let g1 : G := { g with succ := upd g.succ p (discard (g.succ p) node) }
      let g2 : G := { g1 with pred := upd g1.pred node (discard (g1.pred node) p) }
      promoteLoop node ps g2 (if (g2.succ p).isEmpty then del ++ [p] else del)

/-- `promote_to_source(node)` -/
def G.promote (g : G) (node : Nat) : G × List Nat :=
  if node ∉ g.sk then (g, [])
  else
    let r := promoteLoop node (g.pred node) g []
    r.1.removeNodes r.2 true

/-- `get_sources` / `get_sinks` -/
def G.sources (g : G) : List Nat := g.pk.filter (fun n => (g.pred n).isEmpty)
def G.sinks (g : G) : List Nat := g.sk.filter (fun n => (g.succ n).isEmpty)

/-! ### operation histories -/

inductive Op where
  | add (u : Nat) (v : Option Nat)
  | remove (nodes : List Nat) (prune : Bool)
  | replace (old new : Nat)
  | promote (node : Nat)

/-- one public operation; a rejected `replace` (ValueError) leaves the graph unchanged -/
def G.apply (g : G) : Op → G
  | .add u v => g.add u v
  | .remove ns prune => (g.removeNodes ns prune).1
  | .replace old new => (g.replace old new).getD g
  | .promote n => (g.promote n).1

def run (ops : List Op) : G := ops.foldl G.apply G.empty

end SFV.Graph
