"""C17 — retries are bounded and exhausted retries fail the workflow."""
from __future__ import annotations

import json
import random

from sfv.framework import Ctx, Property
from sfv.rt import recov
from sfv.rt.par import pmap
from sfv.translate import retryguard


def gen_cases(rng: random.Random, quick: bool) -> list[dict]:
    cases = []
    combos = []
    for limit in (1, 2, 3, 4, 5):
        for f in range(0, limit + 3):
            combos.append((limit, f))
    rng.shuffle(combos)
    keep = combos[:14] if quick else combos
    # always: exactly at the limit, one below, one above, for a small limit
    for must in [(2, 1), (2, 2), (2, 3), (1, 1), (3, 0)]:
        if must not in keep:
            keep.append(must)
    for limit, f in keep:
        n = rng.choice([1, 2, 3])
        stage = rng.randrange(n)
        phase = rng.choice(["execute", "execute", "transfer", "schedule"])
        cases.append({"name": f"limit{limit}-fail{f}-pipeline{n}-s{stage}-{phase}", "shape": {"kind": "pipeline", "n": n, "data": rng.choice(["file", "file", "primitive"])},
                      "plan": ([{"step": f"/s{stage}", "tag": "0", "phase": phase, "kind": "soft", "count": f}] if f else []),
                      "max_retries": limit, "limit": limit, "fails": f, "stage": stage, "n": n, "phase": phase})
    # without a rollback failure manager the first failure fails the workflow
    for phase in (["execute"] if quick else ["execute", "transfer", "schedule"]):
        cases.append({"name": f"dummy-manager-{phase}", "shape": {"kind": "pipeline", "n": 2}, "manager": "dummy",
                      "plan": [{"step": "/s1", "tag": "0", "phase": phase, "kind": "soft", "count": 1}], "max_retries": None,
                      "limit": None, "fails": 1, "stage": 1, "n": 2, "phase": phase})
    # an ExecuteStep WITHOUT output ports: its failure must be noticed all the same (retried, bounded, and fatal without a manager)
    cases.append({"name": "sink-step-fails-once-limit3", "shape": {"kind": "pipeline", "n": 2, "sink": True}, "max_retries": 3,
                  "plan": [{"step": "/s1", "tag": "0", "phase": "execute", "kind": "soft", "count": 1}],
                  "limit": 3, "fails": 1, "stage": 1, "n": 2, "phase": "execute"})
    cases.append({"name": "sink-step-always-fails-limit3", "shape": {"kind": "pipeline", "n": 2, "sink": True}, "max_retries": 3,
                  "plan": [{"step": "/s1", "tag": "0", "phase": "execute", "kind": "soft", "count": 9}],
                  "limit": 3, "fails": 9, "stage": 1, "n": 2, "phase": "execute"})
    cases.append({"name": "sink-step-dummy-manager", "shape": {"kind": "pipeline", "n": 2, "sink": True}, "manager": "dummy", "max_retries": None,
                  "plan": [{"step": "/s1", "tag": "0", "phase": "execute", "kind": "soft", "count": 1}],
                  "limit": None, "fails": 1, "stage": 1, "n": 2, "phase": "execute"})
    # two failing jobs on volatile data: upstream A fails once, downstream B twice (fail-stop, losing A's data too), limit 3:
    # A would need a 4th execution -> the workflow must raise after 3 executions of A
    cases.append({"name": "chain-A-fails-once-B-twice-failstop-limit3", "shape": {"kind": "pipeline", "n": 2}, "max_retries": 3,
                  "plan": [{"step": "/s0", "tag": "0", "phase": "execute", "kind": "soft", "count": 1},
                           {"step": "/s1", "tag": "0", "phase": "execute", "kind": "failstop", "count": 2, "lose": [["/s1", "0"], ["/s0", "0"]]}],
                  "limit": 3, "expect": "raise", "acts": "s0 f0 s1 f1:0 f1:0", "n": 2, "expect_versions": [3, 2]})
    # a scattered step: one element exhausts its retries, the others do not fail
    m = rng.choice([3, 4])
    el = rng.randrange(m)
    cases.append({"name": f"scatter{m}-b{el}-exhausted", "shape": {"kind": "scatter", "m": m}, "max_retries": 2,
                  "plan": [{"step": "/b", "tag": f"0.{el}", "phase": "execute", "kind": "soft", "count": 5}],
                  "limit": 2, "fails": 5, "scatter": True})
    return cases


def judge(case: dict, r: dict) -> list[tuple[str, str]]:
    fails = []
    name = case["name"]
    limit, f = case["limit"], case.get("fails", 0)
    if r["outcome"] in ("hang", "harness-error"):
        fails.append((f"run:{r['outcome']}", f"{name}: {r.get('msg', '')[:300]}"))
        return fails
    rows = r.get("execution_rows") or {}
    for job, n in r["attempts"].items():
        if job in rows and len(rows[job]) != n:
            fails.append(("execution-table-disagrees-with-injector-log", f"{name}: {job}: {len(rows[job])} rows in `execution`, {n} executions logged"))
    if limit is not None:
        for job, n in r["attempts"].items():
            if n > limit:
                fails.append(("executed-more-than-max_retries", f"{name}: job {job} was executed {n} times, max_retries = {limit}"))
        for job, v in r["versions"].items():
            if v > limit:
                fails.append(("version-above-max_retries", f"{name}: RecoveryRequest {job} has version {v} > {limit}"))
    if case.get("manager") == "dummy":
        if r["outcome"] == "ok":
            fails.append(("dummy-manager-recovered", f"{name}: the workflow completed although the job failed and no rollback manager is configured"))
        if sum(r["attempts"].values()) > case["n"]:
            fails.append(("dummy-manager-retried", f"{name}: attempts {r['attempts']}"))
        return fails
    if case.get("expect"):
        if (r["outcome"] == "ok") != (case["expect"] == "ok"):
            fails.append(("completed-although-retries-exhausted" if r["outcome"] == "ok" else "failed-below-retry-limit",
                          f"{name}: expected the workflow to {case['expect']}, outcome {r['outcome']}; attempts {r['attempts']} versions {r['versions']}"))
        return fails
    # an execute-phase failure is retried: the failing job runs min(f + 1, limit) times
    if case.get("phase") == "execute" and not case.get("scatter") and "stage" in case:
        job = f"/s{case['stage']}/0"
        want = min(f + 1, limit)
        if r["attempts"].get(job) != want:
            fails.append(("failing-job-not-retried-as-expected", f"{name}: {job} executed {r['attempts'].get(job)} time(s), expected {want} "
                          f"({f} injected failure(s), max_retries {limit}); outcome {r['outcome']}"))
    expect_ok = f < limit
    if expect_ok and r["outcome"] != "ok":
        fails.append(("failed-below-retry-limit", f"{name}: {f} failure(s) with max_retries={limit} but the run ended with {r['outcome']}: {r.get('msg', '')[:200]}"))
    if not expect_ok and r["outcome"] == "ok":
        fails.append(("completed-although-retries-exhausted", f"{name}: {f} failures with max_retries={limit} and the workflow completed; attempts {r['attempts']}"))
    return fails


class C17(Property):
    pid = "C17"
    title = "Retries are bounded and exhausted retries fail the workflow"
    lean_targets = ["SFV.Props.C17", "SFV.Model.Proto"]
    props_files = ["SFV/Props/C17.lean"]
    drivers = ["Drivers/C17.lean"]
    translators = [retryguard.generate]
    rule = ("real runs with the rollback failure manager: retry limits 1..5 x failure counts 0..limit+2 (a sample of 14+5 combinations in the quick "
            "tier, all 25+ in thorough) injected into the schedule / transfer / execute phase of one job of a pipeline of 1..3 steps (soft failures, "
            "our injector), one scattered step with an exhausted element, and the dummy failure manager; observed: executions per job (our "
            "injector's log, cross-checked with the rows of the `execution` table), RecoveryRequest versions, executor outcome, wall-clock "
            "watchdog as hang detector. Every run is compared with the Lean retry-accounting model on the same failure sequence.")
    trusted_base = ["translator harness/sfv/translate/retryguard.py (bound test of _update_request, initial version, exception hierarchy, dummy manager)",
                    "recovery harness harness/sfv/rt/recov.py (own injectors)",
                    "what makes an execution fail and which producers are rolled back with it are inputs of the model (see C18 / C16)"]
    assumptions = ["max_retries >= 1 when set"]
    technique = "Lean 4 transition system of the retry accounting with an inductive invariant + ast translator of the guard + real recovery runs compared with the model"
    level_text = ("grade A for the accounting: executions <= max_retries, executions = version, exhausted => the workflow fails and stops, dummy manager "
                  "fails at once — proved for every failure sequence; the guard is re-read from the source on every run")
    level_note = "Lean kernel, axioms within {propext, Classical.choice, Quot.sound}; the recovery workflow itself is a runtime layer exercised by K"
    quick_budget_s = 2400        # room for one confirmation re-run of a timed-out case (5x its bound), see recov.run_confirmed
    thorough_budget_s = 6000
    min_nontrivial = 8

    def explore(self, ctx: Ctx) -> None:
        quick = ctx.tier == "quick" and ctx.mode != "search"
        cases = gen_cases(ctx.rng, quick)
        lines, meta = [], []
        for case, status, r in recov.run_cases(cases, timeout=300, workers=6, ctx=ctx):
            if status != "ok":
                ctx.fail("run:" + status, f"{case['name']}: {str(r)[:300]}", {"recovery": case})
                continue
            ctx.case({"case": case["name"], "outcome": r["outcome"], "attempts": r.get("attempts"), "versions": r.get("versions")},
                     ("c", case["name"]), "dummy" if case.get("manager") == "dummy" else f"limit{case['limit']}")
            for key, detail in judge(case, r):
                ctx.fail(key, detail, {"recovery": case})
            if r["outcome"] in ("hang", "harness-error") or case.get("scatter"):
                continue
            if case.get("acts"):
                lines.append(f"retry {case['limit']} r {case['n']} {case['acts']}")
                meta.append((case, r, [r["versions"].get(f"/s{j}/0", 1) for j in range(case["n"])]))
                continue
            # the same failure sequence on the model: job ids = pipeline stages; the failing stage fails `min(f, …)` times
            n, st, f = case["n"], case["stage"], case["fails"]
            acts = []
            for j in range(st + 1):
                acts.append(f"s{j}")
            k = 0
            limit = case["limit"]
            mgr = "d" if case.get("manager") == "dummy" else "r"
            # every injected failure of the stage is one `fail` action until the model says the workflow failed
            real_fail_events = sum(1 for _ in r["injected"])
            for _ in range(real_fail_events):
                acts.append(f"f{st}")
            ok_run = r["outcome"] == "ok"
            if ok_run:
                for j in range(st + 1, n):
                    acts.append(f"s{j}")
            lines.append(f"retry {limit if limit is not None else 'none'} {mgr} {n} " + " ".join(acts))
            vers = [r["versions"].get(f"/s{j}/0", 1) for j in range(n)]
            meta.append((case, r, vers))
        got = ctx.lean("Drivers/C17.lean", lines)
        for g, (case, r, vers) in zip(got, meta):
            g = g.strip()
            if not g.startswith("ok"):
                ctx.disagree("retry accounting vs model", f"{case['name']}: the observed failure sequence is not enabled in the model: {g}; injected {r['injected']}", {"recovery": case})
                continue
            failed = "failed=1" in g
            mv = [int(x) for x in g.split("versions=")[1].split(" ")[0].split(",")]
            if failed != (r["outcome"] != "ok"):
                ctx.disagree("retry accounting vs model", f"{case['name']}: model failed={failed}, real outcome {r['outcome']}", {"recovery": case})
            elif case.get("manager") != "dummy" and not failed and mv != vers:
                # (when an update is refused the versions bumped before it depend on the iteration order of a set of names in
                #  `_recover`; the model fixes one order, so versions are compared only for runs that complete)
                ctx.disagree("retry accounting vs model", f"{case['name']}: versions model {mv} real {vers}", {"recovery": case})

    def replay(self, ctx: Ctx, data) -> None:
        rr = data.get("replay") or (data.get("no_longer_checks") or [{}])[0].get("case") or {}
        if "recovery" not in rr:
            return super().replay(ctx, data)
        case = rr["recovery"]
        r = recov.run_case(case)
        print(json.dumps({k: r.get(k) for k in ("outcome", "msg", "attempts", "versions", "injected", "execution_rows")}, indent=1, default=str))
        for key, detail in judge(case, r):
            ctx.fail(key, detail, rr)


PROPERTY = C17()
