"""C23 — tar-stream copies are exact or fail, however the stream is chunked."""
from __future__ import annotations

import asyncio
import io
import os
import shutil
import subprocess
import tarfile

from streamflow.core.data import StreamWrapper
from streamflow.deployment import aiotarstream
from streamflow.deployment.connector.base import extract_tar_stream
from streamflow.deployment.stream import BaseStreamWrapper

from sfv.framework import Ctx, Property
from sfv.rt.shfake import in_scratch_cwd, Hang, run_alarm as run_forked
from sfv.rt.trees import diff, diff_items, make_tree, snapshot


# ---------------------------------------------------------------------------------------------------------------------
# chunking policies (the same functions exist in lean/Drivers/C23.lean)
# ---------------------------------------------------------------------------------------------------------------------
def policy_fn(spec: str):
    if spec.startswith("f"):
        k = int(spec[1:])
        return lambda req, rem: k
    a, b = spec[1:].split(",")
    a, b = int(a), int(b)
    return lambda req, rem: 1 + (rem * a + req) % b


def rand_policy(rng, size: int = 0) -> str:
    if size > 200_000:  # large archives: keep the number of raw reads (and the run time) bounded
        return rng.choice(["f511", "f512", "f513", "f4096", "f65536", "m3,5000", "m7,700"])
    k = rng.random()
    if k < 0.45:
        return "f" + str(rng.choice([1, 2, 3, 7, 100, 511, 512, 513, 1000, 4096, 65536]))
    return f"m{rng.randint(0, 9)},{rng.choice([2, 5, 97, 512, 700, 5000])}"


class ChunkStream(StreamWrapper):
    """an underlying stream that returns, for `read(n)`, between 1 and min(n, remaining) bytes as the policy says"""

    def __init__(self, data: bytes, spec: str):
        super().__init__(None)
        self.data, self.pos, self.policy, self.reads = data, 0, policy_fn(spec), 0
        self.closed = False

    async def read(self, size: int | None = None) -> bytes:
        rem = len(self.data) - self.pos
        req = rem if size is None or size < 0 else size
        lim = min(req, rem)
        n = max(min(1, lim), min(self.policy(req, rem), lim))
        self.reads += 1
        b = self.data[self.pos:self.pos + n]
        self.pos += n
        return b

    async def write(self, data):
        raise NotImplementedError

    async def close(self):
        self.closed = True


class SinkStream(StreamWrapper):
    def __init__(self):
        super().__init__(None)
        self.buf = bytearray()
        self.closed = False

    async def read(self, size=None):
        raise NotImplementedError

    async def write(self, data):
        self.buf += data

    async def close(self):
        self.closed = True


def digest(d: bytes) -> str:
    a, b = 1, 0
    for x in d:
        a = (a + x) % 65521
        b = (b + a) % 65521
    return f"{a},{b}"


# ---------------------------------------------------------------------------------------------------------------------
# real-code drivers (run inside a forked child when the stream may be truncated)
# ---------------------------------------------------------------------------------------------------------------------
def real_members(data: bytes, spec: str, bufsize: int = 1000):
    """iterate the archive with the real reader and pull every regular member's data through `extractfile`"""
    async def go():
        out = []
        try:
            async with aiotarstream.open(stream=ChunkStream(data, spec), mode="r", copybufsize=bufsize) as tar:
                async for member in tar:
                    content = b""
                    if member.isfile():
                        async with await tar.extractfile(member) as f:
                            while c := await f.read(bufsize):
                                content += c
                    out.append((member.name, len(content), digest(content)))
        except tarfile.TarError as e:
            return ("error", type(e).__name__)
        return ("ok", out)
    return asyncio.run(go())


def real_extract(data: bytes, spec: str, src: str, dst: str, bufsize: int = 1000):
    """`extract_tar_stream` as `copy_remote_to_local` calls it"""
    async def go():
        try:
            async with aiotarstream.open(stream=ChunkStream(data, spec), mode="r", copybufsize=bufsize) as tar:
                await extract_tar_stream(tar, src, dst, bufsize)
        except tarfile.TarError as e:
            return ("error", type(e).__name__ + ": " + str(e)[:100])
        except OSError as e:
            return ("oserror", type(e).__name__ + ": " + str(e)[:100])
        return ("ok", None)
    return asyncio.run(go())


def real_stream_ops(data: bytes, spec: str, ops: list[str]):
    async def go():
        s = aiotarstream.SeekableStreamReaderWrapper(BaseStreamWrapper(ChunkStream(data, spec)))
        out = []
        for op in ops:
            n = int(op[1:])
            if op[0] == "r":
                b = await s.read(n)
                out.append(f"{b.hex() or '-'}@{s.tell()}")
            else:
                try:
                    await s.seek(n)
                    out.append(f"ok@{s.tell()}")
                except tarfile.ReadError:
                    out.append("back")
        return out
    return asyncio.run(go())


def async_write(src: str, arcname: str, fmt=tarfile.GNU_FORMAT, bufsize: int = 1000) -> bytes:
    async def go():
        sink = SinkStream()
        async with aiotarstream.open(stream=sink, format=fmt, mode="w", dereference=True, copybufsize=bufsize) as tar:
            await tar.add(src, arcname=arcname)
        return bytes(sink.buf)
    return asyncio.run(go())


def gnu_tar(parent: str, base: str, fmt: str) -> bytes:
    p = subprocess.run(["tar", f"--format={fmt}", "-cf", "-", "-C", parent, "--", base], capture_output=True, timeout=60)
    if p.returncode != 0:
        raise RuntimeError(f"tar failed: {p.stderr[:200]!r}")
    return p.stdout


def py_tar(parent: str, base: str, fmt) -> bytes:
    buf = io.BytesIO()
    with tarfile.open(fileobj=buf, mode="w", format=fmt) as t:
        t.add(os.path.join(parent, base), arcname=base)
    return buf.getvalue()


def gnu_tar_members(parent: str, members: list[str], fmt: str) -> bytes:
    """GNU tar with an explicit member order (no recursion)"""
    p = subprocess.run(["tar", f"--format={fmt}", "--no-recursion", "-cf", "-", "-C", parent, "--", *members], capture_output=True, timeout=60)
    if p.returncode != 0:
        raise RuntimeError(f"tar failed: {p.stderr[:200]!r}")
    return p.stdout


def py_tar_members(parent: str, members: list[str], fmt) -> bytes:
    buf = io.BytesIO()
    with tarfile.open(fileobj=buf, mode="w", format=fmt) as t:
        for m in members:
            t.add(os.path.join(parent, m), arcname=m, recursive=False)
    return buf.getvalue()


def boundaries(data: bytes) -> list[tuple[str, int]]:
    """cut points by class, found with CPython's tarfile on the complete archive"""
    cuts = []
    with tarfile.open(fileobj=io.BytesIO(data)) as t:
        ms = t.getmembers()
    for i, m in enumerate(ms):
        if i > 0:
            cuts.append(("header-boundary", m.offset))
            cuts.append(("inside-later-header", m.offset + 100))
        if m.isfile() and m.size > 1:
            cuts.append(("inside-data", m.offset_data + m.size // 2))
            if m.size % 512:
                cuts.append(("inside-padding", m.offset_data + m.size + 1))
            cuts.append(("data-end", m.offset_data + m.size))
    if ms:
        end = ms[-1].offset_data + (((ms[-1].size + 511) // 512) * 512 if ms[-1].isfile() else 0)
        cuts.append(("before-end-marker", end))
        cuts.append(("inside-end-marker", end + 512))
    cuts.append(("inside-first-header", 300))
    cuts.append(("empty", 0))
    return [(k, c) for k, c in cuts if 0 <= c < len(data)]


class C23(Property):
    pid = "C23"
    title = "Tar-stream copies are exact or fail, however the stream is chunked"
    lean_targets = ["SFV.Model.Proto", "SFV.Props.C23"]
    props_files = ["SFV/Props/C23.lean"]
    drivers = ["Drivers/C23.lean"]
    translators = []
    quick_budget_s = 900
    thorough_budget_s = 3000
    rule = ("(1) stream ops: random read/seek sequences on the real SeekableStreamReaderWrapper over a chunking fake stream (policies: at most "
            "k bytes per raw read, k in 1..65536; pseudo-random sizes depending on request and remaining) vs the Lean reader; (2) archives of "
            "random trees written by GNU tar (gnu/ustar/posix), Python tarfile (GNU/USTAR/PAX) and the async writer, read by the real "
            "aiotarstream under random policies: member list + content digests vs the Lean archive reader (short names), and "
            "extract_tar_stream into a directory vs the source tree (all formats, long names, symlinks); (3) truncation at every boundary class "
            "and header corruption: result must be an error or the complete tree; (4) archives of the async writer read back by tarfile and "
            "GNU tar. Non-trivial = distinct (archive, policy, cut) with more than one raw read per block or a cut.")
    trusted_base = [
        "modelled, not verified: the content of a 512-byte header (CPython TarInfo.tobuf/frombuf) enters the theorems as a Codec with "
        "dec(enc(name,size)) = (name,size); GNU long-name / pax extension members and sparse files are exercised by the correspondence check only",
        "the chunking fake stream (harness) and the policy functions, duplicated in lean/Drivers/C23.lean",
        "GNU tar 1.34 and CPython tarfile as reference writers/readers",
    ]
    technique = ("Lean 4 theorems over chunked streams with an arbitrary chunking policy (looping read, seek, archive read loop, write/read round "
                 "trip, truncation witnesses) + differential correspondence of the real aiotarstream reader/writer with the model, GNU tar and tarfile")
    level_text = ("grade A for the stream layer and block framing: tellRead_exact / seek_exact / read_write_roundtrip / read_policy_independent hold "
                  "for every chunking policy and every member list; the full truncation statement is proved false (silent missing members / partial "
                  "files, non-terminating makefile copy loop: known findings) with truncation_first_header_partial as what does hold; header field "
                  "encoding, long names, pax and links are validated differentially only")
    level_note = "Lean kernel, axioms within {propext, Classical.choice, Quot.sound}; header codec assumed (Codec laws), tied by differential runs"
    assumptions = ["members are regular files and directories whose header CPython can encode (Codec.valid)",
                   "the underlying stream returns at least one byte per raw read while data remains (any other behaviour is EOF)"]

    # ---- (1) stream ops ----------------------------------------------------------------------------------------------
    def stream_cases(self, ctx: Ctx, n: int):
        rng = ctx.rng
        lines, expect, meta = [], [], []
        for i in range(n):
            size = rng.choice([0, 1, 10, 100, 600, 2000])
            data = bytes(rng.randrange(256) for _ in range(size))
            spec = rand_policy(rng) if i else "f100"
            ops, pos = [], 0
            for _ in range(rng.randint(1, 8)):
                if rng.random() < 0.5:
                    k = rng.choice([0, 1, 7, 100, 512, 513, 5000])
                    ops.append(f"r{k}")
                    pos = min(size, pos + k) if pos <= size else pos
                else:
                    off = max(0, pos + rng.choice([0, 1, 5, 99, 100, 101, 512, 700, 3000, -3]))
                    ops.append(f"s{off}")
                    pos = max(pos, off)
            real = real_stream_ops(data, spec, ops)
            sample = {"op": "stream", "size": size, "policy": spec, "ops": ops, "data_hex": data.hex() if size <= 100 else None}
            ctx.case(sample, ("stream", data, spec, tuple(ops)) if size > 10 else None, "stream")
            # monitor: every read returns exactly the next bytes, every forward seek lands on the requested offset
            p, want = 0, []
            for op in ops:
                k = int(op[1:])
                if op[0] == "r":
                    b = data[p:p + k] if p < size else b""
                    p += len(b)
                    want.append(f"{b.hex() or '-'}@{p}")
                elif k < p:
                    want.append("back")
                else:
                    p = k
                    want.append(f"ok@{p}")
            if real != want:
                ctx.fail("stream:read-or-seek-not-exact", f"policy {spec}, ops {ops}: real {real}, exact {want}",
                         {"op": "stream", "data_hex": data.hex(), "policy": spec, "ops": ops})
            lines.append(f"stream {spec} {data.hex() or '-'} " + " ".join(ops))
            expect.append(" ".join(real))
            meta.append(("SeekableStreamReaderWrapper read/seek", sample))
        return lines, expect, meta

    # ---- archives ----------------------------------------------------------------------------------------------------
    def make_archives(self, ctx: Ctx, idx: int, simple, big: int | None = None):
        """one random tree and its archives by every writer; returns (src path, base name, {writer: bytes})"""
        rng = ctx.rng
        parent = os.path.join(ctx.scratch, f"t{self.gen}_{idx}")
        base = "src" if simple is True or rng.random() < 0.5 else rng.choice(["a b", "it's", "日本", "-dash"])
        src = os.path.join(parent, base)
        if simple == "long":
            make_tree(rng, src, max_entries=rng.choice([4, 10]), nasty=0.5, symlinks=False, long_names=True, big=None)
            return src, base, {"tarfile-gnu": py_tar(parent, base, tarfile.GNU_FORMAT), "gnutar-gnu": gnu_tar(parent, base, "gnu"),
                               "async-writer": async_write(src, base), "tarfile-pax": py_tar(parent, base, tarfile.PAX_FORMAT),
                               "gnutar-posix": gnu_tar(parent, base, "posix"), "async-writer-pax": async_write(src, base, tarfile.PAX_FORMAT)}
        make_tree(rng, src, max_entries=rng.choice([0, 3, 8, 30]) if not simple else rng.choice([1, 4, 8]), nasty=0.0 if simple else 0.5,
                  symlinks=not simple, long_names=not simple, big=big)
        arch = {}
        if simple:
            arch["tarfile-gnu"] = py_tar(parent, base, tarfile.GNU_FORMAT)
            arch["tarfile-ustar"] = py_tar(parent, base, tarfile.USTAR_FORMAT)
            arch["gnutar-gnu"] = gnu_tar(parent, base, "gnu")
            arch["async-writer"] = async_write(src, base)
        else:
            arch["tarfile-pax"] = py_tar(parent, base, tarfile.PAX_FORMAT)
            arch["tarfile-gnu"] = py_tar(parent, base, tarfile.GNU_FORMAT)
            arch["gnutar-gnu"] = gnu_tar(parent, base, "gnu")
            arch["gnutar-posix"] = gnu_tar(parent, base, "posix")
            try:
                arch["gnutar-ustar"] = gnu_tar(parent, base, "ustar")
            except RuntimeError:
                pass  # names that do not fit ustar
        return src, base, arch

    def extract_and_compare(self, ctx: Ctx, data: bytes, spec: str, src: str, base: str, tag: str, cut: tuple | None, replay: dict):
        """run extract_tar_stream in a child; monitor: error, or destination tree == source tree"""
        self.nx += 1
        dst = os.path.join(ctx.scratch, f"x{self.gen}_{self.nx}")
        single = os.path.isfile(src)
        if single and replay.get("into_dir"):
            os.makedirs(dst)
        try:
            status, info = run_forked(lambda: real_extract(data, spec, base, dst), 45 if len(data) < 200_000 else 150)
        except Hang as e:
            key = "truncation:makefile-copy-loop-never-ends" if cut and single and replay.get("into_dir") else f"{'truncation' if cut else 'chunking'}:hang"
            ctx.fail(key, f"{tag}: extract_tar_stream did not return ({e}); archive {len(data)} bytes, policy {spec}, cut {cut}", replay)
            return
        if status != "ok":
            if cut is None:
                ctx.fail("complete-archive:rejected", f"{tag}: complete archive rejected: {info}; policy {spec}", replay)
            else:
                ctx.count(f"cut:{cut[0]}:error-raised")
            return
        want = snapshot(src)
        got = snapshot(os.path.join(dst, base) if single and replay.get("into_dir") else dst)
        if want.get("", ("?",))[0] == "d":
            # directory modes / link handling: compare structure, contents, exec bits, link targets
            pass
        d = diff(want, got)
        di = diff_items(want, got, 1000)
        if d:
            if cut is None:
                links = all((x or ("",))[0] == "l" and (y or ("",))[0] == "l" for _, x, y in di)
                key = "symlink-member:extracted-link-target-rewritten" if links else "chunking:extracted-tree-differs"
                ctx.fail(key, f"{tag}: policy {spec}: extracted tree differs from the source: {d[:3]}", replay)
            else:
                missing = any(y is None or y[0] == "missing" for _, x, y in di)
                key = "truncation:silent-missing-members" if missing else "truncation:silent-partial-file"
                if cut[0] == "corrupt-header":
                    key = "corruption:invalid-later-header-ends-archive-silently"
                ctx.fail(key, f"{tag}: cut {cut} of {len(data) if cut[0] != 'corrupt-header' else 'n/a'}: no error, tree differs: {d[:2]}", replay)
        elif cut is not None:
            ctx.count(f"cut:{cut[0]}:tree-complete")
        shutil.rmtree(dst, ignore_errors=True)

    def archive_cases(self, ctx: Ctx, n_simple: int, n_rich: int, n_cuts: int, n_long: int = 2):
        rng = ctx.rng
        lines, expect, meta = [], [], []
        for i in range(n_simple + n_long + n_rich):
            if ctx.out_of_time():
                ctx.extra["incomplete"] = True
                break
            simple = True if i < n_simple else ("long" if i < n_simple + n_long else False)
            big = (1 << 20) if (not simple and ctx.tier == "thorough" and i % 4 == 0) else None
            src, base, arch = self.make_archives(ctx, i, simple, big)
            want_tree = snapshot(src)
            for writer, data in arch.items():
                spec = rand_policy(rng, len(data))
                replay = {"op": "archive", "writer": writer, "policy": spec, "archive_hex": data.hex() if len(data) <= 40960 else None, "base": base,
                          "tree": {k: list(v) for k, v in list(want_tree.items())[:40]}}
                ctx.case({"op": "archive", "writer": writer, "policy": spec, "bytes": len(data), "entries": len(want_tree)},
                         ("archive", data[:4096], len(data), spec), f"archive:{writer}")
                # complete archive, random policy: exact tree
                self.extract_and_compare(ctx, data, spec, src, base, f"{writer}", None, replay)
                if simple and len(data) <= 61440:
                    status, ms = run_forked(lambda: real_members(data, spec), 30)
                    lines.append(f"arch {spec} {data.hex()}")
                    expect.append("ok " + " ".join(f"{(nm.encode('utf-8', 'surrogateescape')).hex()}:{ln}:{dg}" for nm, ln, dg in ms) if status == "ok" else "error")
                    expect[-1] = expect[-1].strip()
                    meta.append((f"aiotarstream read of a {writer} archive", {"writer": writer, "policy": spec, "bytes": len(data)}))
                # truncation / corruption
                if writer in ("gnutar-gnu", "tarfile-gnu", "async-writer"):
                    cuts = boundaries(data)
                    rng.shuffle(cuts)
                    for cut in cuts[:n_cuts]:
                        spec2 = rand_policy(rng, len(data))
                        r2 = {**replay, "policy": spec2, "cut": list(cut)}
                        ctx.case({"op": "truncate", "writer": writer, "policy": spec2, "cut": cut, "bytes": len(data)},
                                 ("cut", data[:2048], cut, spec2), f"truncate:{cut[0]}")
                        self.extract_and_compare(ctx, data[:cut[1]], spec2, src, base, f"{writer} truncated", cut, r2)
                        if simple and len(data) <= 61440:
                            try:
                                status, ms = run_forked(lambda: real_members(data[:cut[1]], spec2), 20)
                            except Hang:
                                continue
                            lines.append(f"arch {spec2} {data[:cut[1]].hex() or '-'}")
                            expect.append(("ok " + " ".join(f"{(nm.encode('utf-8', 'surrogateescape')).hex()}:{ln}:{dg}" for nm, ln, dg in ms)).strip()
                                          if status == "ok" else "error")
                            meta.append((f"aiotarstream read of a truncated {writer} archive", {"writer": writer, "policy": spec2, "cut": cut}))
                    # corrupt one byte of a later header
                    with tarfile.open(fileobj=io.BytesIO(data)) as t:
                        ms = t.getmembers()
                    if len(ms) >= 2:
                        off = ms[rng.randrange(1, len(ms))].offset + rng.choice([0, 5, 124, 150])
                        bad = bytearray(data)
                        bad[off] ^= 0x55
                        cut = ("corrupt-header", off)
                        ctx.case({"op": "corrupt", "writer": writer, "offset": off}, ("corrupt", data[:2048], off), "corrupt-header")
                        self.extract_and_compare(ctx, bytes(bad), spec, src, base, f"{writer} corrupted", cut, {**replay, "cut": list(cut)})
            # single regular file into an existing directory: the makefile path
            files = [k for k, v in want_tree.items() if v[0] == "f" and v[2] > 600]
            if files and i % 2 == 0:
                f = os.path.join(src, files[0])
                data = gnu_tar(os.path.dirname(f), os.path.basename(f), "gnu")
                spec = rand_policy(rng)
                rp = {"op": "archive", "writer": "gnutar-gnu single file", "policy": spec, "archive_hex": data.hex() if len(data) <= 40960 else None,
                      "base": os.path.basename(f), "into_dir": True}
                ctx.case({"op": "single-file-into-dir", "bytes": len(data), "policy": spec}, ("single", data[:1024], spec), "archive:single-file-into-dir")
                self.extract_and_compare(ctx, data, spec, f, os.path.basename(f), "single file into directory", None, rp)
                cut = next((c for c in boundaries(data) if c[0] == "inside-data"), ("inside-data", len(data) // 3))
                ctx.case({"op": "truncate", "single": True, "cut": cut}, ("single-cut", data[:1024], spec), "truncate:single-file-into-dir")
                self.extract_and_compare(ctx, data[:cut[1]], spec, f, os.path.basename(f), "single file into directory, truncated", cut, {**rp, "cut": list(cut)})
        return lines, expect, meta

    # ---- extension records must not leak into later members ---------------------------------------------------------
    def sticky_header_cases(ctx_self, ctx: Ctx):
        """corpus: a member whose name needs an extension record (pax extended header / GNU long name), FOLLOWED by further short-named
        members, in that archive order; every format; read by the async reader and compared with the source tree"""
        self = ctx_self
        rng = ctx.rng
        parent = os.path.join(ctx.scratch, f"p{self.gen}")
        src = os.path.join(parent, "src")
        os.makedirs(os.path.join(src, "d"))
        longname = "L" + "x" * 60 + "-" + "y" * 70
        for name, content in ((longname, b"long-named\n" * 50), ("s1", b"one"), ("s2", b"two" * 300), ("d/inner", b"in"), ("é " + "z" * 110, b"second long")):
            with open(os.path.join(src, name), "wb") as f:
                f.write(content)
        # a second name (hard link) for s2: archived as a link member after the file itself
        os.link(os.path.join(src, "s2"), os.path.join(src, "h2"))
        orders = [["src", "src/" + longname, "src/s1", "src/s2", "src/h2", "src/d", "src/d/inner", "src/é " + "z" * 110],
                  ["src", "src/s1", "src/" + longname, "src/d", "src/d/inner", "src/é " + "z" * 110, "src/s2", "src/h2"]]
        want = snapshot(src)
        for oi, members in enumerate(orders):
            arch = {"tarfile-pax": py_tar_members(parent, members, tarfile.PAX_FORMAT), "gnutar-posix": gnu_tar_members(parent, members, "posix"),
                    "tarfile-gnu": py_tar_members(parent, members, tarfile.GNU_FORMAT), "gnutar-gnu": gnu_tar_members(parent, members, "gnu")}
            for writer, data in arch.items():
                spec = rand_policy(rng)
                ctx.case({"op": "archive", "writer": writer + " long name then short names", "order": oi, "policy": spec, "bytes": len(data)},
                         ("sticky", writer, oi, spec), f"archive:{writer}:long-then-short")
                replay = {"op": "archive", "writer": writer, "policy": spec, "archive_hex": data.hex() if len(data) <= 40960 else None, "base": "src",
                          "tree": {k: list(v) for k, v in want.items()}}
                self.extract_and_compare(ctx, data, spec, src, "src", f"{writer} (long-named member followed by short-named ones)", None, replay)

    # ---- (4) the async writer read back by the standard tools ------------------------------------------------------------
    def writer_cases(self, ctx: Ctx, n: int):
        rng = ctx.rng
        for i in range(n):
            if ctx.out_of_time():
                ctx.extra["incomplete"] = True
                break
            parent = os.path.join(ctx.scratch, f"w{self.gen}_{i}")
            base = rng.choice(["src", "a b", "日本"])
            src = os.path.join(parent, base)
            make_tree(rng, src, max_entries=rng.choice([0, 5, 25]), nasty=0.5, symlinks=False, long_names=True,
                      big=(1 << 20) if ctx.tier == "thorough" and i % 5 == 0 else None)
            fmt = rng.choice([tarfile.GNU_FORMAT, tarfile.GNU_FORMAT, tarfile.USTAR_FORMAT, tarfile.PAX_FORMAT])
            try:
                data = async_write(src, base, fmt, bufsize=rng.choice([100, 512, 1000, 65536]))
            except ValueError as e:
                ctx.count("writer:format-cannot-hold-name")
                continue
            want = snapshot(src)
            ctx.case({"op": "writer", "format": fmt, "bytes": len(data), "entries": len(want)}, ("writer", data[:4096], len(data)), f"writer:fmt{fmt}")
            replay = {"op": "writer", "format": fmt, "tree": {k: list(v) for k, v in list(want.items())[:40]}}
            if len(data) % tarfile.RECORDSIZE:
                ctx.fail("writer:not-record-padded", f"archive length {len(data)} is not a multiple of {tarfile.RECORDSIZE}", replay)
            for reader in ("tarfile", "gnutar"):
                dst = os.path.join(parent, f"out-{reader}")
                os.makedirs(dst)
                try:
                    if reader == "tarfile":
                        with tarfile.open(fileobj=io.BytesIO(data)) as t:
                            t.extractall(dst, filter="fully_trusted")
                    else:
                        p = subprocess.run(["tar", "-xpf", "-", "-C", dst], input=data, capture_output=True, timeout=60)
                        if p.returncode != 0:
                            raise RuntimeError(p.stderr[:200])
                except Exception as e:  # noqa: BLE001
                    ctx.fail(f"writer:{reader}-rejects-archive", f"format {fmt}: {reader} cannot read the async writer's archive: {e!r}", replay)
                    continue
                d = diff(want, snapshot(os.path.join(dst, base)))
                if d:
                    ctx.fail(f"writer:{reader}-extracts-different-tree", f"format {fmt}: {d[:3]}", replay)

    @in_scratch_cwd
    def explore(self, ctx: Ctx) -> None:
        from sfv.rt.shfake import limit_failures
        limit_failures(ctx)
        self.gen = getattr(self, "gen", 0) + 1
        self.nx = 0
        big = ctx.tier == "thorough" or ctx.mode == "search"
        lines, expect, meta = self.stream_cases(ctx, 1500 if big else 300)
        self.sticky_header_cases(ctx)
        l2, e2, m2 = self.archive_cases(ctx, 12 if big else 2, 25 if big else 3, 10 if big else 3, 8 if big else 2)
        self.writer_cases(ctx, 25 if big else 4)
        lines, expect, meta = lines + l2, expect + e2, meta + m2
        got = ctx.lean("Drivers/C23.lean", lines, timeout=900)
        for g, e, m in zip(got, expect, meta):
            if g != e:
                ctx.disagree(f"model vs {m[0]}", f"{m[0]}: code {e[:300]!r}, Lean model {g[:300]!r}", m[1])

    @in_scratch_cwd
    def replay(self, ctx: Ctx, data) -> None:
        r = data.get("replay") or {}
        self.gen, self.nx = 1, 0
        if r.get("op") == "stream":
            d = bytes.fromhex(r["data_hex"])
            print("real :", real_stream_ops(d, r["policy"], r["ops"]))
            print("model:", ctx.lean("Drivers/C23.lean", [f"stream {r['policy']} {d.hex() or '-'} " + " ".join(r["ops"])])[0])
        elif r.get("op") == "archive" and r.get("archive_hex"):
            d = bytes.fromhex(r["archive_hex"])
            if r.get("cut") and r["cut"][0] != "corrupt-header":
                d = d[:r["cut"][1]]
            elif r.get("cut"):
                d = bytearray(d)
                d[r["cut"][1]] ^= 0x55
                d = bytes(d)
            dst = os.path.join(ctx.scratch, "replay-dst")
            if r.get("into_dir"):
                os.makedirs(dst)
            try:
                print("extract_tar_stream:", run_forked(lambda: real_extract(d, r["policy"], r["base"], dst), 20))
            except Hang as e:
                print("extract_tar_stream: HANG", e)
                ctx.fail("hang", str(e), r)
                return
            got = snapshot(dst)
            print("extracted tree:", {k: v for k, v in list(got.items())[:40]})
            print("source tree   :", r.get("tree"))
            print("members (real):", run_forked(lambda: real_members(d, r["policy"]), 20))
            if len(d) <= 61440:
                print("members (model):", ctx.lean("Drivers/C23.lean", [f"arch {r['policy']} {d.hex() or '-'}"])[0])
        else:
            super().replay(ctx, data)


PROPERTY = C23()
