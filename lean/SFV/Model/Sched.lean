import SFV.Model.HW
import SFV.Model.Tag
/-! `DefaultScheduler` (`streamflow/scheduling/scheduler.py`) as an executable state machine over the `Hardware`
model. One `tryAllocate` is one pass of the critical section of `_process_target` (it runs under
`async with self.wait_queue`, the awaited connector / data calls inside it do not touch scheduler state);
one `notify` is the critical section of `notify_status`.

Python exceptions leave the mutations done so far in place: every transition returns the new state together with
an outcome. Guards (`releases`, `statusStored`, `unlists`, `countsAsRunning`, `slotFree`, `enoughLocations`,
`allocStatus`, `slotsDefault`) are the definitions generated from the source. -/
namespace SFV.Sched
open SFV.HW SFV.Gen.Sched

/-- errors of a scheduler call: a `Hardware` error, or a situation in which the real code would leave the modelled
    domain (file-system look-up of a mount point, `None.get_mount_point`) -/
inductive SErr
  | hw (e : HW.Err)
  | needsIO            -- `get_mount_point` falls back to resolving the path on the location
  | noHardware         -- `bind_mount_point` on a location without hardware information (AttributeError)
  | unknownJob         -- `get_connector` / `get_allocation` on a job that was never allocated
  | missingReq         -- `hardware_requirements[key]` KeyError (cannot happen: the key was produced by resolve)
deriving DecidableEq, Repr

def liftHW {α} : Except HW.Err α → Except SErr α
  | .ok a => .ok a
  | .error e => .error (.hw e)

/-- what the scheduler reads of an `AvailableLocation` (one level of a stack) -/
structure Level where
  dep : Nat                      -- deployment name (`conn.deployment_name` = `loc.location.deployment`)
  name : Nat                     -- location name
  hardware : Option Hardware     -- capacity, `None` for slot-only locations
  slots : Option Nat
deriving DecidableEq, Repr

/-- an available location followed through `wraps` while `stacked`; head = the location itself -/
abbrev Stack := List Level

abbrev LocKey := Nat × Nat       -- `posixpath.join(deployment_name, location.name)`

structure JobAlloc where
  status : Status
  target : Nat
  locations : List Stack         -- `JobAllocation.locations` (top-level locations with their `wraps` chains)
  hardware : Hardware            -- `JobAllocation.hardware`
  step : Nat                     -- `get_job_step_name(job)`
  tag : Tag                      -- `get_job_tag(job)`
deriving DecidableEq, Repr

structure St where
  reserved : List (Nat × Hardware) := []        -- `hardware_locations` (keyed by location name only)
  jobs : List (Nat × JobAlloc) := []            -- `job_allocations`
  locJobs : List (LocKey × List Nat) := []      -- `location_allocations[deployment][name].jobs`
deriving DecidableEq, Repr

/-- environment: translated paths of `bind_mount_point` and scripted directory sizes (MB) per deployment -/
structure Env where
  translate : List ((Nat × Nat × Nat) × Nat) := []   -- (bind, mount point, path) ↦ normpath(join(bind, relpath(path, mount)))
  sizes : List ((Nat × Nat) × Rat) := []             -- (deployment, path) ↦ size in MB of the directory
  failing : List (Nat × Nat) := []                   -- (deployment, path) whose disk-usage probe fails (non-zero status)
deriving Repr

def assocGet {κ β} [DecidableEq κ] : List (κ × β) → κ → Option β
  | [], _ => none
  | (k, v) :: rest, x => if k = x then some v else assocGet rest x

/-- dict assignment: update in place or append -/
def assocSet {κ β} [DecidableEq κ] : List (κ × β) → κ → β → List (κ × β)
  | [], x, v => [(x, v)]
  | (k, w) :: rest, x, v => if k = x then (k, v) :: rest else (k, w) :: assocSet rest x v

def Env.tr (e : Env) (bind mount path : Nat) : Nat := (assocGet e.translate (bind, mount, path)).getD path
def Env.size (e : Env) (dep path : Nat) : Rat := (assocGet e.sizes (dep, path)).getD 0

/-! ### requirement resolution -/

/-- `utils.get_mount_point(context, location, path)` restricted to the look-up in the location's hardware -/
def getMountPoint (lvl : Level) (path : Nat) : Except SErr Nat :=
  match lvl.hardware with
  | none => .error .noHardware
  | some cap =>
    match cap.getMountPoint path with
    | .ok m => .ok m
    | .error _ => .error .needsIO

/-- `for path in disk.paths:` of `_resolve_hardware_requirement` (the last path wins) -/
def resolvePaths (lvl : Level) (cap : Hardware) (key : Nat) (size : Rat) :
    List Nat → StorageMap → Except SErr StorageMap
  | [], acc => .ok acc
  | p :: ps, acc => do
      let m ← getMountPoint lvl p
      let capDisk ← match getStorage cap.storage m with
        | .ok d => pure d
        | .error e => .error (.hw e)
      let s ← liftHW (mkStorage m size [p] capDisk.bind)
      resolvePaths lvl cap key size ps (assocSet acc key s)

/-- `for key, disk in hardware_requirement.storage.items():` -/
def resolveDisks (lvl : Level) (cap : Hardware) : StorageMap → StorageMap → Except SErr StorageMap
  | [], acc => .ok acc
  | (k, d) :: rest, acc => do
      let acc' ← resolvePaths lvl cap k d.size d.paths acc
      resolveDisks lvl cap rest acc'

/-- `{key: Storage(mount_point=os.sep, size=disk.size) …}` for locations without hardware -/
def rootDisks : StorageMap → Except SErr StorageMap
  | [] => .ok []
  | (k, d) :: rest => do
      let s ← liftHW (mkStorage root d.size [] none)
      let r ← rootDisks rest
      pure ((k, s) :: r)

/-- `current_hw` of `_resolve_hardware_requirement` at one level -/
def resolveLevel (lvl : Level) (req : Hardware) : Except SErr Hardware :=
  match lvl.hardware with
  | some cap => do
      let st ← resolveDisks lvl cap req.storage []
      pure (mkHardware req.cores req.memory st)
  | none => do
      let st ← rootDisks req.storage
      pure (mkHardware req.cores req.memory st)

/-- the loop of `utils.bind_mount_point` -/
def bindLoop (env : Env) (inner : Level) : List Storage → StorageMap → Except SErr StorageMap
  | [], acc => .ok acc
  | d :: ds, acc =>
      match d.bind with
      | none => bindLoop env inner ds acc
      | some b => do
          let m ← getMountPoint inner b
          let s ← liftHW (mkStorage m d.size (d.paths.map (env.tr b d.mount)) none)
          match assocGet acc m with
          | some old => do
              let s' ← liftHW (Storage.add old s)
              bindLoop env inner ds (assocSet acc m s')
          | none => bindLoop env inner ds (assocSet acc m s)

/-- `utils.bind_mount_point(context, location, hardware)` -/
def bindMountPoint (env : Env) (inner : Level) (hw : Hardware) : Except SErr Hardware := do
  let st ← bindLoop env inner (values hw.storage) []
  pure (mkHardware hw.cores hw.memory st)

/-- `_resolve_hardware_requirement(connector, location, hardware_requirement)` down the stack -/
def resolve (env : Env) : Stack → Hardware → Except SErr (List (LocKey × Hardware))
  | [], _ => .ok []
  | lvl :: rest, req => do
      let cur ← resolveLevel lvl req
      match rest with
      | [] => pure [((lvl.dep, lvl.name), cur)]
      | inner :: _ => do
          let req' ← bindMountPoint env inner cur
          let below ← resolve env rest req'
          pure (((lvl.dep, lvl.name), cur) :: below)

/-- `hardware_requirements[key] = hardware` / `hardware_requirements[key] |= hardware` -/
def mergeReqs : List (LocKey × Hardware) → List (LocKey × Hardware) → Except SErr (List (LocKey × Hardware))
  | acc, [] => .ok acc
  | acc, (k, h) :: rest =>
      match assocGet acc k with
      | none => mergeReqs (assocSet acc k h) rest
      | some old => do
          let m ← liftHW (old.or h)
          mergeReqs (assocSet acc k m) rest

/-- the requirements of all available locations, merged in the order `asyncio.gather` returns them -/
def resolveAll (env : Env) (req : Hardware) : List Stack → List (LocKey × Hardware) →
    Except SErr (List (LocKey × Hardware))
  | [], acc => .ok acc
  | st :: rest, acc => do
      let r ← resolve env st req
      let acc' ← mergeReqs acc r
      resolveAll env req rest acc'

/-! ### validity -/

/-- `_get_running_jobs(job_name, location)` for the requesting job `(step, tag)` -/
def runningJobs (s : St) (step : Nat) (tag : Tag) (lvl : Level) : List Nat :=
  match assocGet s.locJobs (lvl.dep, lvl.name) with
  | none => []
  | some js => js.filter (fun x =>
      match assocGet s.jobs x with
      | some a => countsAsRunning a.status a.step step (compareTags a.tag tag)
      | none => false)

def reservedOf (s : St) (name : Nat) : Hardware := (assocGet s.reserved name).getD Hardware.empty

/-- `_is_valid(connector, location, hardware_requirements, job_name)` -/
def isValid (s : St) (reqs : List (LocKey × Hardware)) (step : Nat) (tag : Tag) : Stack → Except SErr Bool
  | [] => .ok true
  | lvl :: rest =>
      match assocGet reqs (lvl.dep, lvl.name) with
      | none => .error .missingReq
      | some req =>
        match lvl.hardware with
        | some cap => do
            let free ← liftHW (cap.sub (reservedOf s lvl.name))
            let ok ← liftHW (free.satisfies req)
            if !ok then pure false else isValid s reqs step tag rest
        | none =>
            let slots := lvl.slots.getD slotsDefault
            if !(slotFree (runningJobs s step tag lvl).length slots) then pure false
            else isValid s reqs step tag rest

/-- `{k: loc for k, loc in available_locations.items() if self._is_valid(…)}` -/
def validStacks (s : St) (reqs : List (LocKey × Hardware)) (step : Nat) (tag : Tag) :
    List Stack → Except SErr (List Stack)
  | [] => .ok []
  | st :: rest => do
      let ok ← isValid s reqs step tag st
      let r ← validStacks s reqs step tag rest
      pure (if ok then st :: r else r)

/-! ### allocation -/

def appendJob (lj : List (LocKey × List Nat)) (k : LocKey) (job : Nat) : List (LocKey × List Nat) :=
  assocSet lj k ((assocGet lj k).getD [] ++ [job])

/-- the `while loc is not None` loop of `_allocate_job` for one selected location -/
def allocLevels (reqs : List (LocKey × Hardware)) (job : Nat) : Stack → St → St × Option SErr
  | [], s => (s, none)
  | lvl :: rest, s =>
      let s1 := { s with locJobs := appendJob s.locJobs (lvl.dep, lvl.name) job }
      match assocGet reqs (lvl.dep, lvl.name) with
      | none => allocLevels reqs job rest s1
      | some h =>
        match assocGet s1.reserved lvl.name with
        | some cur =>
            match cur.add h with
            | .ok r => allocLevels reqs job rest { s1 with reserved := assocSet s1.reserved lvl.name r }
            | .error e => (s1, some (.hw e))
        | none =>
            match h.normalized with
            | .ok r => allocLevels reqs job rest { s1 with reserved := assocSet s1.reserved lvl.name r }
            | .error e => (s1, some (.hw e))

def allocStacks (reqs : List (LocKey × Hardware)) (job : Nat) : List Stack → St → St × Option SErr
  | [], s => (s, none)
  | st :: rest, s =>
      match allocLevels reqs job st s with
      | (s', none) => allocStacks reqs job rest s'
      | (s', some e) => (s', some e)

/-- `_allocate_job(job, hardware, connector, selected_locations, target)` -/
def allocateJob (s : St) (reqs : List (LocKey × Hardware)) (job step : Nat) (tag : Tag) (target : Nat)
    (selected : List Stack) : St × Option SErr :=
  match selected with
  | [] => (s, none)
  | [] :: _ => (s, none)
  | (top :: _) :: _ =>
    match assocGet reqs (top.dep, top.name) with
    | none => (s, some .missingReq)
    | some h =>
      let a : JobAlloc := { status := allocStatus, target, locations := selected, hardware := h, step, tag }
      allocStacks reqs job selected { s with jobs := assocSet s.jobs job a }

inductive Outcome
  | allocated (names : List Nat)
  | waiting
  | error (e : SErr)
deriving DecidableEq, Repr

/-- one pass of the critical section of `_process_target` for one target; `avail` are the target's available
    locations in dict order, `wanted` is `target.locations`; the default policy picks the first valid locations -/
def tryAllocate (env : Env) (s : St) (job step : Nat) (tag : Tag) (req : Hardware) (target wanted : Nat)
    (avail : List Stack) : St × Outcome :=
  match resolveAll env req avail [] with
  | .error e => (s, .error e)
  | .ok reqs =>
    match validStacks s reqs step tag avail with
    | .error e => (s, .error e)
    | .ok valid =>
      if enoughLocations valid.length wanted then
        let selected := if valid.length = wanted then valid else valid.take wanted
        if selected.isEmpty then (s, .waiting)
        else
          match allocateJob s reqs job step tag target selected with
          | (s', none) => (s', .allocated (selected.map (fun st => (st.head?.map (·.name)).getD 0)))
          | (s', some e) => (s', .error e)
      else (s, .waiting)

/-! ### release -/

/-- measured usage of one storage of the job: `_size(paths) / 2**20` -/
def usageOf (env : Env) (dep : Nat) (paths : List Nat) : Rat := (paths.map (env.size dep)).foldl (· + ·) 0

/-- `Hardware(storage={k: Storage(job_hardware.storage[k].mount_point, size / 2**20) …})` -/
def usageDisks (env : Env) (dep : Nat) : StorageMap → Except SErr StorageMap
  | [] => .ok []
  | (k, d) :: rest => do
      let s ← liftHW (mkStorage d.mount (usageOf env dep d.paths) [] none)
      let r ← usageDisks env dep rest
      pure ((k, s) :: r)

/-- `get_storage_usages` raises (`_check_status` on a non-zero status of the `find … | awk` command) when the probe of
    some storage of the job fails; storages without paths are not probed (`_size` returns 0 for an empty path list) -/
def probeFails (env : Env) (dep : Nat) (st : StorageMap) : Bool :=
  st.any (fun kd => kd.2.paths.any (fun p => env.failing.contains (dep, p)))

/-- `for loc in locations: if loc.name in self.hardware_locations: …` at one level; when the probe raises
    WorkflowExecutionException the handler sets `storage_usage = Hardware()` and the subtraction still happens -/
def freeLevel (env : Env) (jobHw : Hardware) : List Level → St → St × Option SErr
  | [], s => (s, none)
  | lvl :: rest, s =>
      match assocGet s.reserved lvl.name with
      | none => freeLevel env jobHw rest s
      | some cur =>
        match (if probeFails env lvl.dep jobHw.storage then .ok [] else usageDisks env lvl.dep jobHw.storage) with
        | .error e => (s, some e)
        | .ok ust =>
          let usage := mkHardware 0 0 ust
          match cur.sub jobHw >>= fun d => d.add usage with
          | .ok r => freeLevel env jobHw rest { s with reserved := assocSet s.reserved lvl.name r }
          | .error e => (s, some (.hw e))

/-- `for execution_loc in locations: job_hardware = await utils.bind_mount_point(…)` (cumulative, as written) -/
def bindAll (env : Env) : List Level → Hardware → Except SErr Hardware
  | [], hw => .ok hw
  | inner :: rest, hw => do
      let hw' ← bindMountPoint env inner hw
      bindAll env rest hw'

/-- the `while locations:` loop of `_free_resources`; `stacks` are the remaining chains of the job's locations -/
def freeLoop (env : Env) : Nat → List Stack → Hardware → St → St × Option SErr
  | 0, _, _, s => (s, none)
  | fuel + 1, stacks, jobHw, s =>
      let tops := stacks.filterMap List.head?
      if tops.isEmpty then (s, none) else
      match (if jobHw.isNormalized then .ok jobHw else jobHw.normalized) with
      | .error e => (s, some (.hw e))
      | .ok hw =>
        match freeLevel env hw tops s with
        | (s', some e) => (s', some e)
        | (s', none) =>
          let below := (stacks.map List.tail).filter (fun st => !st.isEmpty)
          if below.isEmpty then (s', none) else
          match bindAll env (below.filterMap List.head?) hw with
          | .error e => (s', some e)
          | .ok hw' => freeLoop env fuel below hw' s'

def maxDepth (stacks : List Stack) : Nat := (stacks.map List.length).foldl max 0

/-- `_free_resources(connector, job_allocation)` -/
def freeResources (env : Env) (a : JobAlloc) (s : St) : St × Option SErr :=
  freeLoop env (maxDepth a.locations + 1) a.locations a.hardware s

/-- `…jobs.remove(job_name)` when present -/
def unlist (job : Nat) : List Stack → List (LocKey × List Nat) → List (LocKey × List Nat)
  | [], lj => lj
  | [] :: rest, lj => unlist job rest lj
  | (top :: _) :: rest, lj =>
      match assocGet lj (top.dep, top.name) with
      | some js => unlist job rest (assocSet lj (top.dep, top.name) (js.erase job))
      | none => unlist job rest lj

inductive NOutcome
  | done (notifiedAll : Bool)
  | error (e : SErr)
deriving DecidableEq, Repr

/-- `notify_status(job_name, status)` -/
def notify (env : Env) (s : St) (job : Nat) (new : Status) : St × NOutcome :=
  match assocGet s.jobs job with
  | none => (s, .error .unknownJob)
  | some a =>
    let prev := a.status
    let a1 := if statusStored prev new then { a with status := new } else a
    let s1 := { s with jobs := assocSet s.jobs job a1 }
    let (s2, err) := if releases prev new then freeResources env a1 s1 else (s1, none)
    match err with
    | some e => (s2, .error e)
    | none =>
      let s3 := if unlists new then
          { s2 with locJobs := unlist job a1.locations s2.locJobs,
                    jobs := assocSet s2.jobs job { a1 with locations := [] } }
        else s2
      (s3, .done notifiesAllLast)

end SFV.Sched
