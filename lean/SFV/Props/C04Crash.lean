import SFV.Lemmas.ExecCrash
import SFV.Gen.StepGuards
/-! # C04 — executor protocol with exceptions escaping `step.run()` and workflows without output ports

Property theorems only (the transition system is `SFV/Model/ExecCrash.lean`, helper lemmas `SFV/Lemmas/ExecCrash.lean`).
`skips = true`: `close()` leaves `asyncio.current_task()` out of the tasks it cancels and awaits (the code since fix
92ab986, extracted on every run as `Gen.closeSkipsCurrentTask`); `skips = false`: the code before that fix. -/
namespace SFV.C04Crash
open SFV.Exec SFV.ExecCrash

/-- the extracted flag: the `close()` of the current source leaves out the task it runs in (the build breaks here, and
in the theorems stated with `Gen.closeSkipsCurrentTask`, when this stops being the case) -/
theorem closeSkips_eq : Gen.closeSkipsCurrentTask = true := rfl

/-! ## A. Whenever `run()` is over, every step is terminated -/

/-- for any `close()` that leaves out the current task: once `run()` is closed / returned / raised every step is terminated -/
theorem crash_all_terminated_of_skipping_close {N : ENet} {s : CSt} (hr : ExecCrash.Reachable true N s)
    (hp : s.base.pc ≠ .running) : ∀ i, i < N.n → (s.base.st i).isSome = true :=
  (cinv_reachable hr).1 hp

/-- **current source**: once `run()` is closed / returned / raised every step is terminated, also with escaping exceptions and without output ports -/
theorem crash_all_terminated {N : ENet} {s : CSt} (hr : ExecCrash.Reachable Gen.closeSkipsCurrentTask N s)
    (hp : s.base.pc ≠ .running) : ∀ i, i < N.n → (s.base.st i).isSome = true := by
  rw [closeSkips_eq] at hr
  exact crash_all_terminated_of_skipping_close hr hp

/-- with a `close()` that leaves out the current task no step task ever awaits its own cancellation -/
theorem crash_never_stuck {N : ENet} {s : CSt} (hr : ExecCrash.Reachable true N s) : s.stuck = none :=
  (cinv_reachable hr).2

/-- **current source**: no step task ever awaits its own cancellation -/
theorem crash_never_stuck_current {N : ENet} {s : CSt} (hr : ExecCrash.Reachable Gen.closeSkipsCurrentTask N s) :
    s.stuck = none := by
  rw [closeSkips_eq] at hr
  exact crash_never_stuck hr

/-- an escaping exception closes the executor, terminates every step, and `run()` can then only raise -/
theorem crash_raises {N : ENet} {s s' : CSt} {i : Nat} (h : cstep true N s (.crash i) = some s') :
    s'.base.pc = .closed ∧ (∀ j, (s'.base.st j).isSome = true) ∧
      ∃ s'', cstep true N s' (.base .final) = some s'' ∧ s''.base.pc = .raised := by
  obtain ⟨hi, hn, _, _, hc⟩ := cstep_crash_some h
  rcases hc with ⟨_, rfl⟩ | ⟨hf, _⟩
  · refine ⟨rfl, fun j => closeAll_st_isSome _ j, ?_⟩
    have hpc : s.base.closeAll.pc = .closed := rfl
    have hbad : anyBad N s.base.closeAll = true :=
      anyBad_true.mpr ⟨i, .cancelled, hi, by rw [closeAll_st, hn], rfl⟩
    obtain ⟨b, hb⟩ := step_final_enabled (fx := true) (N := N) hpc
    obtain ⟨_, h5⟩ := step_final_some hb
    rcases h5 with ⟨_, hb'⟩ | ⟨hnb, _⟩
    · refine ⟨_, cstep_base_enabled (s := { s with base := s.base.closeAll }) hb, ?_⟩
      rw [hb']
    · rw [hbad] at hnb; cases hnb
  · cases hf

/-! ## B. No deadlock with the fix -/

/-- **progress**: every reachable state in which `run()` has not returned or raised has an enabled action (steps in topological order; output ports optional) -/
theorem no_deadlock_when_fixed {N : ENet} (hwf : WFc N) {s : CSt} (hr : ExecCrash.Reachable true N s) (hnf : s.final = false) :
    ∃ a s', cstep true N s a = some s' :=
  cprogress hwf (cinv_reachable hr) (fun hne => cpending_reachable hne hr) hnf

/-- progress for the well-formed graphs of `Props/C04.lean` (these have at least one output port) -/
theorem no_deadlock_when_fixed_of_wf {N : ENet} (hwf : N.WF) {s : CSt} (hr : ExecCrash.Reachable true N s)
    (hnf : s.final = false) : ∃ a s', cstep true N s a = some s' :=
  no_deadlock_when_fixed (WFc.of_wf hwf) hr hnf

/-- progress for workflows without output ports: only the topological order of the steps is needed -/
theorem no_deadlock_without_outputs {N : ENet} (htopo : ∀ i, i < N.n → ∀ j ∈ N.preds i, j < i) (ho : N.outs = [])
    {s : CSt} (hr : ExecCrash.Reachable true N s) (hnf : s.final = false) : ∃ a s', cstep true N s a = some s' :=
  no_deadlock_when_fixed ⟨htopo, by intro o h; rw [ho] at h; cases h⟩ hr hnf

/-- **current source**: progress, stated with the extracted flag -/
theorem no_deadlock_current {N : ENet} (hwf : WFc N) {s : CSt} (hr : ExecCrash.Reachable Gen.closeSkipsCurrentTask N s)
    (hnf : s.final = false) : ∃ a s', cstep Gen.closeSkipsCurrentTask N s a = some s' := by
  rw [closeSkips_eq] at hr ⊢
  exact no_deadlock_when_fixed hwf hr hnf

/-! ## C. Before fix 92ab986 -/

/-- a state for which `deadlocked` computes `true` has no enabled action at all -/
theorem deadlocked_sound {skips : Bool} {N : ENet} {s : CSt} (h : deadlocked skips N s = true) :
    ∀ a, cstep skips N s a = none :=
  deadlocked_all_disabled h

/-- **regression guard — false before fix 92ab986**: two steps, no output port, step 0 lets an exception escape: `run()` never ends, no action is enabled, the task of step 0 awaits itself -/
theorem deadlock_before_fix_92ab986 :
    ∃ s, ExecCrash.Reachable false twoNoOut s ∧ s.final = false ∧ deadlocked false twoNoOut s = true ∧ s.stuck = some 0 :=
  ⟨ExecCrash.runD false twoNoOut [.crash 0], ExecCrash.reachable_runD (by decide), by decide, by decide, by decide⟩

/-- the deadlocked state of `deadlock_before_fix_92ab986` really has no enabled action (not only among `allActs`) -/
theorem deadlock_before_fix_no_action : ∀ a, cstep false twoNoOut (ExecCrash.runD false twoNoOut [.crash 0]) a = none :=
  deadlocked_sound (by decide)

/-- with an output port the old code did not hang: the `close()` of the main task cancels the stuck task from outside -/
theorem recovers_with_output_before_fix :
    ∃ s, ExecCrash.Reachable false twoOneOut s ∧ s.base.pc = .raised ∧ s.stuck = none :=
  ⟨ExecCrash.runD false twoOneOut [.crash 0, .base (.read 0), .base .final], ExecCrash.reachable_runD (by decide), by decide, by decide⟩

/-! ## D. The hypotheses are satisfiable -/

/-- the two example nets satisfy the hypothesis of `no_deadlock_when_fixed` -/
theorem example_nets_wfc : WFc twoNoOut ∧ WFc twoOneOut := ⟨twoNoOut_wfc, twoOneOut_wfc⟩

/-- with the fix, the crash of step 0 in the net without outputs ends with `run()` raising and every step terminated -/
theorem crash_run_fixed_raises :
    (ExecCrash.runActs true twoNoOut CSt.init [.crash 0, .base .final]).isSome = true ∧
    (ExecCrash.runD true twoNoOut [.crash 0, .base .final]).base.pc = .raised ∧
    (List.range 2).map (ExecCrash.runD true twoNoOut [.crash 0, .base .final]).base.st = [some .cancelled, some .cancelled] ∧
    (ExecCrash.runD true twoNoOut [.crash 0, .base .final]).stuck = none := by decide

/-- a failure-free run of the net without outputs returns normally -/
theorem no_output_run_returns :
    (ExecCrash.runActs true twoNoOut CSt.init [.base (.finish 0), .base (.finish 1), .finalNoOutputs]).isSome = true ∧
    (ExecCrash.runD true twoNoOut [.base (.finish 0), .base (.finish 1), .finalNoOutputs]).base.pc = .returned ∧
    (List.range 2).map (ExecCrash.runD true twoNoOut [.base (.finish 0), .base (.finish 1), .finalNoOutputs]).base.st
      = [some .completed, some .completed] := by decide

/-- hypotheses of `no_deadlock_when_fixed` in the middle of a run: all steps terminated, no output port, `finalNoOutputs` is the enabled action -/
theorem no_output_mid_run :
    ExecCrash.Reachable true twoNoOut (ExecCrash.runD true twoNoOut [.base (.fail 0), .base (.finish 1)]) ∧
    (ExecCrash.runD true twoNoOut [.base (.fail 0), .base (.finish 1)]).final = false ∧
    (cstep true twoNoOut (ExecCrash.runD true twoNoOut [.base (.fail 0), .base (.finish 1)]) .finalNoOutputs).isSome = true :=
  ⟨ExecCrash.reachable_runD (by decide), by decide, by decide⟩

end SFV.C04Crash
