import SFV.Lemmas.Refine
/-! The whole-run refinement of `SFV/Lemmas/Refine.lean` generalised from flat locations to STACKED locations: every
available location is a chain of hardware locations (a wrapper stacked on inner locations, any depth), no two levels
of the target's available locations are the same location (no shared inner location), components cores / memory. -/
namespace SFV.RefineStack
open SFV.HW SFV.Sched SFV.Gen.Sched SFV.Refine

/-- one ledger entry per level of every selected location -/
def stackEntries (v : Rat) (sel : List Stack) : List (Nat × Rat) :=
  sel.flatMap (fun st => st.map (fun lvl => (lvl.name, v)))

theorem amountAt_append (a b : List (Nat × Rat)) (ℓ : Nat) :
    Ledger.amountAt (a ++ b) ℓ = Ledger.amountAt a ℓ + Ledger.amountAt b ℓ := by
  induction a with
  | nil => simp [Ledger.amountAt]; grind
  | cons x xs ih => obtain ⟨k, v⟩ := x; simp only [List.cons_append, Ledger.amountAt, ih]; grind

theorem stackEntries_cons (v : Rat) (st : Stack) (rest : List Stack) :
    stackEntries v (st :: rest) = st.map (fun lvl => (lvl.name, v)) ++ stackEntries v rest := by
  simp [stackEntries]

/-- effect of the `while loc is not None` loop of `_allocate_job` on one stacked location -/
theorem allocLevels_effect (c : Comp) (reqs : List (LocKey × Hardware)) (job : Nat) (v : Rat) (st : Stack) (s s' : St)
    (hreq : ∀ lvl ∈ st, ∃ h, assocGet reqs (lvl.dep, lvl.name) = some h ∧ c.get h = v)
    (hres : allocLevels reqs job st s = (s', none)) :
    s'.jobs = s.jobs ∧
    (∀ ℓ, c.get (reservedOf s' ℓ) = c.get (reservedOf s ℓ) + Ledger.amountAt (st.map (fun lvl => (lvl.name, v))) ℓ) ∧
    (∀ ℓ, (assocGet s.reserved ℓ).isSome → (assocGet s'.reserved ℓ).isSome) ∧
    (∀ lvl ∈ st, (assocGet s'.reserved lvl.name).isSome) := by
  induction st generalizing s with
  | nil =>
    simp only [allocLevels, Prod.mk.injEq] at hres
    obtain ⟨rfl, _⟩ := hres
    exact ⟨rfl, fun ℓ => by simp [Ledger.amountAt]; grind, fun _ h => h, by simp⟩
  | cons lvl rest ih =>
    obtain ⟨h, hq, hv⟩ := hreq lvl (List.mem_cons_self ..)
    simp only [allocLevels, hq] at hres
    have key : ∀ r, c.get r = c.get (reservedOf s lvl.name) + v →
        allocLevels reqs job rest { s with locJobs := appendJob s.locJobs (lvl.dep, lvl.name) job,
                                           reserved := assocSet s.reserved lvl.name r } = (s', none) →
        s'.jobs = s.jobs ∧
        (∀ ℓ, c.get (reservedOf s' ℓ) = c.get (reservedOf s ℓ) +
          Ledger.amountAt ((lvl :: rest).map (fun lvl => (lvl.name, v))) ℓ) ∧
        (∀ ℓ, (assocGet s.reserved ℓ).isSome → (assocGet s'.reserved ℓ).isSome) ∧
        (∀ l ∈ lvl :: rest, (assocGet s'.reserved l.name).isSome) := by
      intro r hr hres'
      obtain ⟨hj, hsum, hkeep, hnew⟩ := ih _ (fun l hl => hreq l (List.mem_cons_of_mem _ hl)) hres'
      refine ⟨hj, fun ℓ => ?_, fun ℓ hℓ => ?_, fun l hl => ?_⟩
      · rw [hsum ℓ]
        simp only [List.map_cons, Ledger.amountAt]
        by_cases e : lvl.name = ℓ
        · subst e; rw [reservedOf_set_eq, hr]; simp; grind
        · rw [reservedOf_set_ne _ _ _ _ _ (fun x => e x.symm)]; simp [e]; grind
      · apply hkeep
        by_cases e : ℓ = lvl.name
        · subst e; simp [get_set_eq]
        · simp only [get_set_ne _ _ _ _ e]; exact hℓ
      · rcases List.mem_cons.mp hl with e | e
        · subst e; apply hkeep; simp [get_set_eq]
        · exact hnew l e
    cases hc : assocGet s.reserved lvl.name with
    | none =>
      cases hn : h.normalized with
      | error e => simp [hc, hn] at hres
      | ok r =>
        simp only [hc, hn] at hres
        refine key r ?_ hres
        rw [c.norm h r hn, hv]
        simp only [reservedOf, hc, Option.getD_none, Hardware.empty, c.mk0]; grind
    | some cur =>
      cases ha : cur.add h with
      | error e => simp [hc, ha] at hres
      | ok r =>
        simp only [hc, ha] at hres
        refine key r ?_ hres
        rw [c.add cur h r ha, hv]
        simp [reservedOf, hc]

theorem allocStacks_effect (c : Comp) (reqs : List (LocKey × Hardware)) (job : Nat) (v : Rat) (sel : List Stack) (s s' : St)
    (hreq : ∀ st ∈ sel, ∀ lvl ∈ st, ∃ h, assocGet reqs (lvl.dep, lvl.name) = some h ∧ c.get h = v)
    (hres : allocStacks reqs job sel s = (s', none)) :
    s'.jobs = s.jobs ∧
    (∀ ℓ, c.get (reservedOf s' ℓ) = c.get (reservedOf s ℓ) + Ledger.amountAt (stackEntries v sel) ℓ) ∧
    (∀ ℓ, (assocGet s.reserved ℓ).isSome → (assocGet s'.reserved ℓ).isSome) ∧
    (∀ st ∈ sel, ∀ lvl ∈ st, (assocGet s'.reserved lvl.name).isSome) := by
  induction sel generalizing s with
  | nil =>
    simp only [allocStacks, Prod.mk.injEq] at hres
    obtain ⟨rfl, _⟩ := hres
    exact ⟨rfl, fun ℓ => by simp [stackEntries, Ledger.amountAt]; grind, fun _ h => h, by simp⟩
  | cons st rest ih =>
    simp only [allocStacks] at hres
    cases hl : allocLevels reqs job st s with
    | mk s1 err =>
      simp only [hl] at hres
      cases err with
      | some e => simp at hres
      | none =>
        simp only at hres
        obtain ⟨j1, sum1, keep1, new1⟩ := allocLevels_effect c reqs job v st s s1 (hreq st (List.mem_cons_self ..)) hl
        obtain ⟨j2, sum2, keep2, new2⟩ := ih s1 (fun x hx => hreq x (List.mem_cons_of_mem _ hx)) hres
        refine ⟨j2.trans j1, fun ℓ => ?_, fun ℓ hℓ => keep2 ℓ (keep1 ℓ hℓ), fun x hx l hl' => ?_⟩
        · rw [sum2 ℓ, sum1 ℓ, stackEntries_cons, amountAt_append]; grind
        · rcases List.mem_cons.mp hx with e | e
          · subst e; exact keep2 _ (new1 l hl')
          · exact new2 x e l hl'

/-! ### release -/

theorem bindMountPoint_comp (c : Comp) (env : Env) (inner : Level) (hw hw' : Hardware)
    (h : bindMountPoint env inner hw = .ok hw') : c.get hw' = c.get hw := by
  simp only [bindMountPoint, bind_eq_ok] at h
  obtain ⟨st, _, e⟩ := h
  simp only [pure, Except.pure, Except.ok.injEq] at e
  subst e; exact c.mkh hw st

theorem bindAll_comp (c : Comp) (env : Env) (ls : List Level) (hw hw' : Hardware) (h : bindAll env ls hw = .ok hw') :
    c.get hw' = c.get hw := by
  induction ls generalizing hw with
  | nil => simp only [bindAll] at h; cases h; rfl
  | cons l rest ih =>
    simp only [bindAll, bind_eq_ok] at h
    obtain ⟨hw1, h1, h2⟩ := h
    rw [ih hw1 h2, bindMountPoint_comp c env l hw hw1 h1]

/-- the levels of a list of stacks, processed level by level (heads first) or stack by stack, give every location the
    same amount -/
theorem stackEntries_split (v : Rat) (stacks : List Stack) (ℓ : Nat) :
    Ledger.amountAt (stackEntries v stacks) ℓ =
      Ledger.amountAt (levelEntries v (stacks.filterMap List.head?)) ℓ +
      Ledger.amountAt (stackEntries v ((stacks.map List.tail).filter (fun st => !st.isEmpty))) ℓ := by
  induction stacks with
  | nil => simp [stackEntries, levelEntries, Ledger.amountAt]; grind
  | cons st rest ih =>
    rw [stackEntries_cons, amountAt_append, ih]
    cases st with
    | nil => simp [levelEntries, Ledger.amountAt]; grind
    | cons l tl =>
      simp only [List.filterMap_cons, List.head?_cons, levelEntries, List.map_cons, Ledger.amountAt, List.tail_cons,
        List.filter_cons]
      cases tl with
      | nil => simp [Ledger.amountAt]; grind
      | cons l2 tl2 =>
        simp only [List.isEmpty_cons, Bool.not_false, if_true, stackEntries_cons, amountAt_append, List.map_cons,
          Ledger.amountAt]
        grind

theorem freeLoop_effect (c : Comp) (env : Env) (fuel : Nat) (stacks : List Stack) (hw : Hardware) (s s' : St)
    (hfuel : ∀ st ∈ stacks, st.length ≤ fuel)
    (hbooks : ∀ st ∈ stacks, ∀ lvl ∈ st, (assocGet s.reserved lvl.name).isSome)
    (hres : freeLoop env fuel stacks hw s = (s', none)) :
    s'.jobs = s.jobs ∧ s'.locJobs = s.locJobs ∧
    (∀ ℓ, c.get (reservedOf s' ℓ) = c.get (reservedOf s ℓ) - Ledger.amountAt (stackEntries (c.get hw) stacks) ℓ) ∧
    (∀ ℓ, (assocGet s.reserved ℓ).isSome → (assocGet s'.reserved ℓ).isSome) := by
  induction fuel generalizing stacks hw s with
  | zero =>
    simp only [freeLoop, Prod.mk.injEq] at hres
    obtain ⟨rfl, _⟩ := hres
    have hall : ∀ st ∈ stacks, st = [] := fun st hst => List.eq_nil_of_length_eq_zero (Nat.le_zero.mp (hfuel st hst))
    have : stackEntries (c.get hw) stacks = [] := by
      simp only [stackEntries, List.flatMap_eq_nil_iff]
      intro st hst; rw [hall st hst]; rfl
    exact ⟨rfl, rfl, fun ℓ => by rw [this]; simp [Ledger.amountAt]; grind, fun _ h => h⟩
  | succ fuel ih =>
    simp only [freeLoop] at hres
    have htops : ∀ lvl ∈ stacks.filterMap List.head?, (assocGet s.reserved lvl.name).isSome := by
      intro lvl hl
      simp only [List.mem_filterMap] at hl
      obtain ⟨st, hst, hh⟩ := hl
      exact hbooks st hst lvl (List.mem_of_mem_head? hh)
    by_cases hemp : (stacks.filterMap List.head?).isEmpty = true
    · simp only [hemp, if_true, Prod.mk.injEq] at hres
      obtain ⟨rfl, _⟩ := hres
      have hnil : stacks.filterMap List.head? = [] := by simpa using hemp
      have hall : ∀ st ∈ stacks, st = [] := by
        intro st hst
        cases st with
        | nil => rfl
        | cons l tl =>
          have : l ∈ stacks.filterMap List.head? := List.mem_filterMap.mpr ⟨l :: tl, hst, rfl⟩
          rw [hnil] at this; cases this
      have : stackEntries (c.get hw) stacks = [] := by
        simp only [stackEntries, List.flatMap_eq_nil_iff]
        intro st hst; rw [hall st hst]; rfl
      exact ⟨rfl, rfl, fun ℓ => by rw [this]; simp [Ledger.amountAt]; grind, fun _ h => h⟩
    · simp only [hemp] at hres
      cases hn : (if hw.isNormalized then Except.ok hw else hw.normalized) with
      | error e => simp [hn] at hres
      | ok hw1 =>
        have hv : c.get hw1 = c.get hw := by
          by_cases hi : hw.isNormalized = true
          · simp only [hi, if_true, Except.ok.injEq] at hn; rw [← hn]
          · simp only [hi] at hn; exact c.norm _ _ hn
        simp only [hn] at hres
        cases hf : freeLevel env hw1 (stacks.filterMap List.head?) s with
        | mk s1 err =>
          simp only [hf] at hres
          cases err with
          | some e => simp at hres
          | none =>
            simp only at hres
            obtain ⟨j1, l1, sum1, keep1⟩ := freeLevel_effect c env hw1 _ s s1 htops hf
            by_cases hb : ((stacks.map List.tail).filter (fun st => !st.isEmpty)).isEmpty = true
            · simp only [hb, if_true, Prod.mk.injEq] at hres
              obtain ⟨rfl, _⟩ := hres
              have hbn : (stacks.map List.tail).filter (fun st => !st.isEmpty) = [] := by simpa using hb
              refine ⟨j1, l1, fun ℓ => ?_, keep1⟩
              rw [sum1 ℓ, stackEntries_split, hbn, hv]
              simp [stackEntries, Ledger.amountAt]; grind
            · simp only [hb] at hres
              cases hba : bindAll env (((stacks.map List.tail).filter (fun st => !st.isEmpty)).filterMap List.head?) hw1 with
              | error e => simp [hba] at hres
              | ok hw2 =>
                simp only [hba] at hres
                have hv2 : c.get hw2 = c.get hw := by rw [bindAll_comp c env _ hw1 hw2 hba, hv]
                have hfuel' : ∀ st ∈ (stacks.map List.tail).filter (fun st => !st.isEmpty), st.length ≤ fuel := by
                  intro st hst
                  simp only [List.mem_filter, List.mem_map] at hst
                  obtain ⟨⟨st0, hst0, rfl⟩, _⟩ := hst
                  have := hfuel st0 hst0
                  simp only [List.length_tail]; omega
                have hbooks' : ∀ st ∈ (stacks.map List.tail).filter (fun st => !st.isEmpty), ∀ lvl ∈ st,
                    (assocGet s1.reserved lvl.name).isSome := by
                  intro st hst lvl hl
                  simp only [List.mem_filter, List.mem_map] at hst
                  obtain ⟨⟨st0, hst0, rfl⟩, _⟩ := hst
                  exact keep1 _ (hbooks st0 hst0 lvl (List.mem_of_mem_tail hl))
                obtain ⟨j2, l2, sum2, keep2⟩ := ih _ hw2 s1 hfuel' hbooks' hres
                refine ⟨j2.trans j1, l2.trans l1, fun ℓ => ?_, fun ℓ hℓ => keep2 ℓ (keep1 ℓ hℓ)⟩
                rw [sum2 ℓ, sum1 ℓ, stackEntries_split (c.get hw) stacks, hv, hv2]; grind

theorem length_le_foldl_max (l : List Nat) (init : Nat) : init ≤ l.foldl max init ∧ ∀ x ∈ l, x ≤ l.foldl max init := by
  induction l generalizing init with
  | nil => simp
  | cons a l ih =>
    simp only [List.foldl_cons]
    obtain ⟨h1, h2⟩ := ih (max init a)
    refine ⟨by omega, fun x hx => ?_⟩
    rcases List.mem_cons.mp hx with e | e
    · subst e; omega
    · exact h2 x e

theorem freeResources_effect (c : Comp) (env : Env) (a : JobAlloc) (s s' : St)
    (hbooks : ∀ st ∈ a.locations, ∀ lvl ∈ st, (assocGet s.reserved lvl.name).isSome)
    (hres : freeResources env a s = (s', none)) :
    s'.jobs = s.jobs ∧ s'.locJobs = s.locJobs ∧
    (∀ ℓ, c.get (reservedOf s' ℓ) = c.get (reservedOf s ℓ) - Ledger.amountAt (stackEntries (c.get a.hardware) a.locations) ℓ) ∧
    (∀ ℓ, (assocGet s.reserved ℓ).isSome → (assocGet s'.reserved ℓ).isSome) := by
  unfold freeResources at hres
  refine freeLoop_effect c env _ a.locations a.hardware s s' (fun st hst => ?_) hbooks hres
  have := (length_le_foldl_max (a.locations.map List.length) 0).2 st.length (List.mem_map_of_mem hst)
  simp only [maxDepth]; omega

/-! ### requirement resolution down a stack -/

def lkey (lvl : Level) : LocKey := (lvl.dep, lvl.name)

theorem resolveLevel_comp (c : Comp) (lvl : Level) (req cur : Hardware) (h : resolveLevel lvl req = .ok cur) :
    c.get cur = c.get req := by
  unfold resolveLevel at h
  cases hh : lvl.hardware with
  | none =>
    simp only [hh, bind_eq_ok] at h
    obtain ⟨st, _, e⟩ := h
    simp only [pure, Except.pure, Except.ok.injEq] at e
    subst e; exact c.mkh req st
  | some cp =>
    simp only [hh, bind_eq_ok] at h
    obtain ⟨st, _, e⟩ := h
    simp only [pure, Except.pure, Except.ok.injEq] at e
    subst e; exact c.mkh req st

theorem resolve_spec (c : Comp) (env : Env) (st : Stack) (req : Hardware) (r : List (LocKey × Hardware))
    (h : resolve env st req = .ok r) : r.map (·.1) = st.map lkey ∧ ∀ kh ∈ r, c.get kh.2 = c.get req := by
  induction st generalizing req r with
  | nil => simp only [resolve] at h; cases h; simp
  | cons lvl rest ih =>
    simp only [resolve, bind_eq_ok] at h
    obtain ⟨cur, hcur, h⟩ := h
    have hc := resolveLevel_comp c lvl req cur hcur
    cases rest with
    | nil =>
      simp only [pure, Except.pure, Except.ok.injEq] at h
      subst h
      exact ⟨by simp [lkey], by simp [hc]⟩
    | cons inner tl =>
      simp only [bind_eq_ok] at h
      obtain ⟨req', hb, below, hbelow, e⟩ := h
      simp only [pure, Except.pure, Except.ok.injEq] at e
      subst e
      obtain ⟨h1, h2⟩ := ih req' below hbelow
      have hc' := bindMountPoint_comp c env inner cur req' hb
      refine ⟨by simp [lkey, h1], fun kh hkh => ?_⟩
      rcases List.mem_cons.mp hkh with e | e
      · subst e; exact hc
      · rw [h2 kh e, hc', hc]

/-- merging requirements whose keys are new and pairwise different just records them -/
theorem mergeReqs_fresh (acc r acc' : List (LocKey × Hardware)) (hnd : (r.map (·.1)).Nodup)
    (hfresh : ∀ kh ∈ r, assocGet acc kh.1 = none) (h : mergeReqs acc r = .ok acc') :
    (∀ kh ∈ r, assocGet acc' kh.1 = some kh.2) ∧
    (∀ k v, assocGet acc k = some v → assocGet acc' k = some v) ∧
    (∀ k, assocGet acc k = none → k ∉ r.map (·.1) → assocGet acc' k = none) := by
  induction r generalizing acc with
  | nil => simp only [mergeReqs] at h; cases h; exact ⟨by simp, fun k v hk => hk, fun k hk _ => hk⟩
  | cons kh rest ih =>
    obtain ⟨k, hv⟩ := kh
    have hn : assocGet acc k = none := hfresh (k, hv) (List.mem_cons_self ..)
    simp only [mergeReqs, hn] at h
    simp only [List.map_cons, List.nodup_cons] at hnd
    have hfresh' : ∀ kh ∈ rest, assocGet (assocSet acc k hv) kh.1 = none := by
      intro kh hkh
      have hne : kh.1 ≠ k := fun e => hnd.1 (e ▸ List.mem_map_of_mem hkh)
      rw [get_set_ne _ _ _ _ hne]; exact hfresh kh (List.mem_cons_of_mem _ hkh)
    obtain ⟨h1, h2, h3⟩ := ih (assocSet acc k hv) hnd.2 hfresh' h
    refine ⟨fun kh hkh => ?_, fun k' v hk' => ?_, fun k' hk' hnot => ?_⟩
    · rcases List.mem_cons.mp hkh with e | e
      · subst e; exact h2 _ _ (get_set_eq _ _ _)
      · exact h1 kh e
    · apply h2
      by_cases e : k' = k
      · subst e; rw [hn] at hk'; cases hk'
      · rw [get_set_ne _ _ _ _ e]; exact hk'
    · simp only [List.map_cons, List.mem_cons, not_or] at hnot
      apply h3 _ _ hnot.2
      rw [get_set_ne _ _ _ _ hnot.1]; exact hk'

def allKeys (av : List Stack) : List LocKey := av.flatMap (fun st => st.map lkey)

theorem resolveAll_spec (c : Comp) (env : Env) (req : Hardware) (avail : List Stack) (acc reqs : List (LocKey × Hardware))
    (hnd : (allKeys avail).Nodup) (hfresh : ∀ k ∈ allKeys avail, assocGet acc k = none)
    (h : resolveAll env req avail acc = .ok reqs) :
    (∀ st ∈ avail, ∀ lvl ∈ st, ∃ hq, assocGet reqs (lkey lvl) = some hq ∧ c.get hq = c.get req) ∧
    (∀ k v, assocGet acc k = some v → assocGet reqs k = some v) := by
  induction avail generalizing acc with
  | nil => simp only [resolveAll] at h; cases h; exact ⟨by simp, fun k v hk => hk⟩
  | cons st rest ih =>
    simp only [resolveAll, bind_eq_ok] at h
    obtain ⟨r, hr, acc', hm, hrest⟩ := h
    obtain ⟨hkeys, hvals⟩ := resolve_spec c env st req r hr
    have hsplit : allKeys (st :: rest) = st.map lkey ++ allKeys rest := by simp [allKeys]
    rw [hsplit] at hnd hfresh
    obtain ⟨nd1, nd2, ndx⟩ := List.nodup_append.mp hnd
    obtain ⟨m1, m2, m3⟩ := mergeReqs_fresh acc r acc' (by rw [hkeys]; exact nd1)
      (fun kh hkh => hfresh _ (List.mem_append_left _ (by rw [← hkeys]; exact List.mem_map_of_mem hkh))) hm
    have hfresh' : ∀ k ∈ allKeys rest, assocGet acc' k = none := by
      intro k hk
      apply m3 k (hfresh k (List.mem_append_right _ hk))
      rw [hkeys]; intro hin; exact ndx k hin k hk rfl
    obtain ⟨h1, h2⟩ := ih acc' nd2 hfresh' hrest
    refine ⟨fun x hx lvl hl => ?_, fun k v hk => h2 k v (m2 k v hk)⟩
    rcases List.mem_cons.mp hx with e | e
    · subst e
      have : lkey lvl ∈ r.map (·.1) := by rw [hkeys]; exact List.mem_map_of_mem hl
      obtain ⟨kh, hkh, ek⟩ := List.mem_map.mp this
      exact ⟨kh.2, by rw [← ek]; exact h2 _ _ (m1 kh hkh), hvals kh hkh⟩
    · exact h1 x e lvl hl

/-- `_is_valid` on a stack bounds the component at every hardware level -/
theorem isValid_bound (c : Comp) (s : St) (reqs : List (LocKey × Hardware)) (step : Nat) (tag : Tag) (st : Stack)
    (h : isValid s reqs step tag st = .ok true) :
    ∀ lvl ∈ st, ∀ cp hq, lvl.hardware = some cp → assocGet reqs (lkey lvl) = some hq →
      c.get (reservedOf s lvl.name) + c.get hq ≤ c.get cp := by
  induction st with
  | nil => simp
  | cons lvl rest ih =>
    intro l hl cp hq hcp hreq
    simp only [isValid] at h
    cases hr : assocGet reqs (lvl.dep, lvl.name) with
    | none => simp [hr] at h
    | some q =>
      simp only [hr] at h
      cases hh : lvl.hardware with
      | none =>
        simp only [hh] at h
        split at h
        · simp [pure, Except.pure] at h
        · rcases List.mem_cons.mp hl with e | e
          · subst e; rw [hh] at hcp; cases hcp
          · exact ih h l e cp hq hcp hreq
      | some cp0 =>
        simp only [hh] at h
        cases h1 : cp0.sub (reservedOf s lvl.name) with
        | error e => simp [liftHW, h1, bind, Except.bind] at h
        | ok free =>
          cases h2 : free.satisfies q with
          | error e => simp [liftHW, h1, h2, bind, Except.bind] at h
          | ok b =>
            cases b with
            | false => simp [liftHW, h1, h2, bind, Except.bind, pure, Except.pure] at h
            | true =>
              simp only [liftHW, h1, h2, bind, Except.bind, Bool.not_true, Bool.false_eq_true, if_false] at h
              rcases List.mem_cons.mp hl with e | e
              · subst e
                rw [hh] at hcp; cases hcp
                have hq' : q = hq := by
                  have : assocGet reqs (lkey l) = some q := hr
                  rw [hreq] at this; cases this; rfl
                subst hq'
                have := c.sat free q h2
                rw [c.sub cp _ free h1] at this
                grind
              · exact ih h l e cp hq hcp hreq

/-! ### the simulation relation for stacked allocations -/

def entriesOfS (c : Comp) (a : JobAlloc) : List (Nat × Rat) := stackEntries (c.get a.hardware) a.locations

structure RelS (c : Comp) (s : St) (L : Ledger.St) : Prop where
  reserved : ∀ ℓ, L.reserved ℓ = c.get (reservedOf s ℓ)
  ids : ∀ j, j ∈ L.ids ↔ (assocGet s.jobs j).isSome
  jobs : ∀ j a, assocGet s.jobs j = some a → L.status j = a.status ∧ L.alloc j = entriesOfS c a
  books : ∀ j a, assocGet s.jobs j = some a → ∀ st ∈ a.locations, ∀ lvl ∈ st, (assocGet s.reserved lvl.name).isSome

theorem relS_init (c : Comp) : RelS c {} Ledger.init :=
  ⟨fun ℓ => by simp [Ledger.init, reservedOf, assocGet, Hardware.empty, c.mk0], fun j => by simp [Ledger.init, assocGet],
   fun j a h => by simp [assocGet] at h, fun j a h => by simp [assocGet] at h⟩

/-- **a non-raising `notify_status` of the Hardware-level model is the ledger's notification** (component `c`, flat
    allocations) -/
theorem notify_refines (c : Comp) (cap : Ledger.Loc → Rat) (env : Env) (s s' : St) (L : Ledger.St) (j : Nat) (new : Status)
    (b : Bool) (hR : RelS c s L) (h : notify env s j new = (s', .done b)) :
    RelS c s' (Ledger.step cap L (.notify j new [])) := by
  unfold notify at h
  cases ha : assocGet s.jobs j with
  | none => simp [ha] at h
  | some a =>
    simp only [ha] at h
    obtain ⟨hst, hal⟩ := hR.jobs j a ha
    have hjL : j ∈ L.ids := (hR.ids j).mpr (by simp [ha])
    -- name the intermediate objects
    generalize ha1 : (if statusStored a.status new = true then { a with status := new } else a) = a1 at h
    have ha1loc : a1.locations = a.locations ∧ a1.hardware = a.hardware ∧
        a1.status = (if statusStored a.status new = true then new else a.status) := by
      rw [← ha1]; by_cases hs : statusStored a.status new = true <;> simp [hs]
    generalize hs1 : ({ s with jobs := assocSet s.jobs j a1 } : St) = s1 at h
    have hs1r : s1.reserved = s.reserved := by rw [← hs1]
    have hs1j : s1.jobs = assocSet s.jobs j a1 := by rw [← hs1]
    have hres1 : ∀ ℓ, reservedOf s1 ℓ = reservedOf s ℓ := by intro ℓ; simp [reservedOf, hs1r]
    -- the release
    have hrel : ∃ s2, (if releases a.status new = true then freeResources env a1 s1 else (s1, none)) = (s2, none) ∧
        s2.jobs = s1.jobs ∧
        (∀ ℓ, c.get (reservedOf s2 ℓ) = if releases a.status new = true
            then c.get (reservedOf s ℓ) - Ledger.amountAt (entriesOfS c a) ℓ else c.get (reservedOf s ℓ)) ∧
        (∀ ℓ, (assocGet s.reserved ℓ).isSome → (assocGet s2.reserved ℓ).isSome) ∧
        s' = (if unlists new = true then
          { s2 with locJobs := unlist j a1.locations s2.locJobs, jobs := assocSet s2.jobs j { a1 with locations := [] } } else s2) := by
      by_cases hr : releases a.status new = true
      · simp only [hr, if_true] at h ⊢
        cases hf : freeResources env a1 s1 with
        | mk s2 err =>
          simp only [hf] at h
          cases err with
          | some e => simp at h
          | none =>
            simp only at h
            have hflat : ∀ st ∈ a1.locations, ∀ lvl ∈ st, (assocGet s1.reserved lvl.name).isSome := by
              rw [ha1loc.1, hs1r]; exact hR.books j a ha
            obtain ⟨e1, _, e3, e4⟩ := freeResources_effect c env a1 s1 s2 hflat hf
            refine ⟨s2, rfl, e1, fun ℓ => ?_, fun ℓ hℓ => e4 ℓ (by rw [hs1r]; exact hℓ), ?_⟩
            · rw [e3 ℓ, hres1 ℓ]; simp only [entriesOfS, ha1loc.1, ha1loc.2.1]
            · by_cases hu : unlists new = true <;> simp only [hu, if_true, Prod.mk.injEq] at h ⊢ <;> exact h.1.symm
      · have hr' : releases a.status new = false := by simpa using hr
        simp only [hr', Bool.false_eq_true, if_false] at h ⊢
        refine ⟨s1, rfl, rfl, fun ℓ => by rw [hres1 ℓ], fun ℓ hℓ => by rw [hs1r]; exact hℓ, ?_⟩
        by_cases hu : unlists new = true <;> simp only [hu, if_true, Prod.mk.injEq] at h ⊢ <;> exact h.1.symm
    obtain ⟨s2, _, hj2, hr2, hk2, hs'⟩ := hrel
    have hjobs2 : s2.jobs = assocSet s.jobs j a1 := by rw [hj2, hs1j]
    have hFr : s'.reserved = s2.reserved := by
      rw [hs']; by_cases hu : unlists new = true <;> simp [hu]
    have hFj : s'.jobs = if unlists new = true then assocSet (assocSet s.jobs j a1) j { a1 with locations := [] }
        else assocSet s.jobs j a1 := by
      rw [hs']; by_cases hu : unlists new = true <;> simp [hu, hjobs2]
    have hresF : ∀ ℓ, reservedOf s' ℓ = reservedOf s2 ℓ := by intro ℓ; simp [reservedOf, hFr]
    have hkF : ∀ ℓ, (assocGet s.reserved ℓ).isSome → (assocGet s'.reserved ℓ).isSome := by
      intro ℓ hℓ; rw [hFr]; exact hk2 ℓ hℓ
    have hsome : (assocGet s.jobs j).isSome := by simp [ha]
    -- what the final job table holds
    have hgetj : assocGet s'.jobs j = some (if unlists new = true then { a1 with locations := [] } else a1) := by
      rw [hFj]; by_cases hu : unlists new = true <;> simp [hu, get_set_eq]
    have hgetk : ∀ k, k ≠ j → assocGet s'.jobs k = assocGet s.jobs k := by
      intro k e; rw [hFj]; by_cases hu : unlists new = true <;> simp [hu, get_set_ne _ _ _ _ e]
    clear hs'
    refine ⟨fun ℓ => ?_, fun k => ?_, fun k ak hk => ?_, fun k ak hk st hst lvl hl => ?_⟩
    · rw [ledger_notify_reserved cap L j new hjL ℓ, hst, hal, hR.reserved ℓ, hresF ℓ, hr2 ℓ]
    · rw [ledger_notify_ids, hR.ids k]
      by_cases e : k = j
      · subst e; simp [hgetj, hsome]
      · rw [hgetk k e]
    · rw [ledger_notify_status cap L j new [] hjL, ledger_notify_alloc cap L j new [] hjL, hst]
      by_cases e : k = j
      · subst e
        rw [hgetj] at hk
        simp only [Option.some.injEq] at hk
        subst hk
        by_cases hu : unlists new = true
        · refine ⟨?_, by simp [hu, Ledger.update, entriesOfS, stackEntries]⟩
          have hs1st := ha1loc.2.2
          by_cases hs : statusStored a.status new = true <;> simp [hu, hs, Ledger.update, hst, hs1st]
        · refine ⟨?_, by simp [hu, hal, entriesOfS, ha1loc.1, ha1loc.2.1]⟩
          have hs1st := ha1loc.2.2
          by_cases hs : statusStored a.status new = true <;> simp [hu, hs, Ledger.update, hst, hs1st]
      · rw [hgetk k e] at hk
        obtain ⟨h1, h2⟩ := hR.jobs k ak hk
        refine ⟨?_, ?_⟩
        · by_cases hs : statusStored a.status new = true <;> simp [hs, Ledger.update, e, h1]
        · by_cases hu : unlists new = true <;> simp [hu, Ledger.update, e, h2]
    · by_cases e : k = j
      · subst e
        rw [hgetj] at hk
        simp only [Option.some.injEq] at hk
        subst hk
        by_cases hu : unlists new = true
        · simp [hu] at hst
        · simp [hu] at hst
          rw [ha1loc.1] at hst
          exact hkF _ (hR.books k a ha st hst lvl hl)
      · rw [hgetk k e] at hk
        exact hkF _ (hR.books k ak hk st hst lvl hl)


/-! ### allocation on stacked locations -/

theorem sublist_flatMap {α β} (f : α → List β) {l₁ l₂ : List α} (h : l₁.Sublist l₂) :
    (l₁.flatMap f).Sublist (l₂.flatMap f) := by
  induction h with
  | slnil => simp
  | cons a _ ih => simp only [List.flatMap_cons]; exact List.sublist_append_of_sublist_right ih
  | cons_cons a _ ih => simp only [List.flatMap_cons]; exact List.Sublist.append (List.Sublist.refl _) ih

/-- every level of every available location is a hardware location with capacity `cap` (component `c`) -/
def HwStacks (c : Comp) (cap : Ledger.Loc → Rat) (av : List Stack) : Prop :=
  ∀ st ∈ av, st ≠ [] ∧ ∀ lvl ∈ st, ∃ cp, lvl.hardware = some cp ∧ c.get cp = cap lvl.name

theorem tryAllocate_refines (c : Comp) (cap : Ledger.Loc → Rat) (env : Env) (s s' : St) (L : Ledger.St)
    (job step : Nat) (tag : Tag) (req : Hardware) (target wanted : Nat) (avail : List Stack) (names : List Nat)
    (hR : RelS c s L) (havail : HwStacks c cap avail) (hnd : (allKeys avail).Nodup)
    (h : tryAllocate env s job step tag req target wanted avail = (s', .allocated names)) :
    ∃ entries, (entries.all fun e => decide (L.reserved e.1 + e.2 ≤ cap e.1)) = true ∧ (∀ e ∈ entries, e.2 = c.get req) ∧
      ((avail.flatMap (fun st => st.map (·.name))).Nodup → (entries.map (·.1)).Nodup) ∧
      RelS c s' (Ledger.step cap L (.allocate job entries)) := by
  unfold tryAllocate at h
  cases hra : resolveAll env req avail [] with
  | error e => simp [hra] at h
  | ok reqs =>
    simp only [hra] at h
    cases hvs : validStacks s reqs step tag avail with
    | error e => simp [hvs] at h
    | ok valid =>
      simp only [hvs] at h
      by_cases hen : enoughLocations valid.length wanted = true
      case neg => simp [hen] at h
      simp only [hen, if_true] at h
      generalize hsel : (if valid.length = wanted then valid else valid.take wanted) = selected at h
      by_cases hemp : selected.isEmpty = true
      · simp [hemp] at h
      simp only [hemp] at h
      cases haj : allocateJob s reqs job step tag target selected with
      | mk s1 err =>
        simp only [haj] at h
        cases err with
        | some e => simp at h
        | none =>
          simp only [Prod.mk.injEq] at h
          obtain ⟨rfl, _⟩ := h
          obtain ⟨hreqs, _⟩ := resolveAll_spec c env req avail [] reqs hnd (fun _ _ => rfl) hra
          have hvalid := validStacks_spec s reqs step tag avail valid hvs
          have hsub : selected.Sublist avail := by
            have h1 : selected.Sublist valid := by
              rw [← hsel]; by_cases hl : valid.length = wanted
              · simp [hl]
              · simp only [hl, if_false]; exact List.take_sublist _ _
            exact h1.trans (validStacks_sublist s reqs step tag avail valid hvs)
          have hselmem : ∀ st ∈ selected, st ∈ valid := by
            intro st hst
            rw [← hsel] at hst
            by_cases hl : valid.length = wanted
            · simpa [hl] using hst
            · simp only [hl, if_false] at hst; exact List.mem_of_mem_take hst
          have hfacts : ∀ st ∈ selected, ∀ lvl ∈ st, ∃ cp hq, lvl.hardware = some cp ∧ c.get cp = cap lvl.name ∧
              assocGet reqs (lvl.dep, lvl.name) = some hq ∧ c.get hq = c.get req ∧
              c.get (reservedOf s lvl.name) + c.get hq ≤ c.get cp := by
            intro st hst lvl hl
            obtain ⟨hav, hiv⟩ := hvalid st (hselmem st hst)
            obtain ⟨cp, h1, h2⟩ := (havail st hav).2 lvl hl
            obtain ⟨hq, h3, h4⟩ := hreqs st hav lvl hl
            exact ⟨cp, hq, h1, h2, h3, h4, isValid_bound c s reqs step tag st hiv lvl hl cp hq h1 h3⟩
          have hmemE : ∀ e ∈ stackEntries (c.get req) selected, ∃ st ∈ selected, ∃ lvl ∈ st, e = (lvl.name, c.get req) := by
            intro e he
            simp only [stackEntries, List.mem_flatMap, List.mem_map] at he
            obtain ⟨st, hst, lvl, hl, rfl⟩ := he
            exact ⟨st, hst, lvl, hl, rfl⟩
          have hguard : ((stackEntries (c.get req) selected).all fun e => decide (L.reserved e.1 + e.2 ≤ cap e.1)) = true := by
            simp only [List.all_eq_true, decide_eq_true_eq]
            intro e he
            obtain ⟨st, hst, lvl, hl, rfl⟩ := hmemE e he
            obtain ⟨cp, hq, _, h2, _, h4, h5⟩ := hfacts st hst lvl hl
            simp only [hR.reserved, ← h2]; rw [← h4]; exact h5
          have hvals : ∀ e ∈ stackEntries (c.get req) selected, e.2 = c.get req := by
            intro e he
            obtain ⟨_, _, _, _, rfl⟩ := hmemE e he; rfl
          have hnod : (avail.flatMap (fun st => st.map (·.name))).Nodup →
              ((stackEntries (c.get req) selected).map (·.1)).Nodup := by
            intro hn
            have : (stackEntries (c.get req) selected).map (·.1) = selected.flatMap (fun st => st.map (·.name)) := by
              simp only [stackEntries, List.map_flatMap, List.map_map]
              rfl
            rw [this]
            exact hn.sublist (sublist_flatMap _ hsub)
          refine ⟨stackEntries (c.get req) selected, hguard, hvals, hnod, ?_⟩
          cases selected with
          | nil => simp at hemp
          | cons st0 rest0 =>
            have hne0 : st0 ≠ [] := (havail st0 ((hvalid st0 (hselmem st0 (List.mem_cons_self ..))).1)).1
            cases st0 with
            | nil => exact absurd rfl hne0
            | cons top tl0 =>
              obtain ⟨_, h0, _, _, hq0, hv0, _⟩ := hfacts (top :: tl0) (List.mem_cons_self ..) top (List.mem_cons_self ..)
              simp only [allocateJob, hq0] at haj
              obtain ⟨hj, hsum, hkeep, hnew⟩ := allocStacks_effect c reqs job (c.get req) ((top :: tl0) :: rest0) _ _
                (fun st hst lvl hl => by obtain ⟨_, hq, _, _, e2, e3, _⟩ := hfacts st hst lvl hl; exact ⟨hq, e2, e3⟩) haj
              simp only at hj hsum hkeep
              simp only [Ledger.step, hguard, if_true]
              refine ⟨fun ℓ => ?_, fun k => ?_, fun k ak hk => ?_, fun k ak hk st hst lvl hl => ?_⟩
              · simp only []; rw [hsum ℓ, hR.reserved ℓ]; rfl
              · simp only []
                rw [hj, isSome_get_set]
                by_cases hjL : job ∈ L.ids
                · simp only [hjL, if_true, hR.ids k]
                  constructor
                  · exact fun h => Or.inr h
                  · rintro (e | e)
                    · subst e; exact (hR.ids k).mp hjL
                    · exact e
                · simp only [hjL, if_false, List.mem_cons, hR.ids k]
              · rw [hj] at hk
                by_cases e : k = job
                · subst e
                  rw [get_set_eq] at hk
                  simp only [Option.some.injEq] at hk
                  subst hk
                  simp [Ledger.update, entriesOfS, hv0]
                · rw [get_set_ne _ _ _ _ e] at hk
                  obtain ⟨h1, h2⟩ := hR.jobs k ak hk
                  simp only [Ledger.update, e, if_false]
                  exact ⟨h1, h2⟩
              · rw [hj] at hk
                by_cases e : k = job
                · subst e
                  rw [get_set_eq] at hk
                  simp only [Option.some.injEq] at hk
                  subst hk
                  exact hnew st hst lvl hl
                · rw [get_set_ne _ _ _ _ e] at hk
                  exact hkeep _ (hR.books k ak hk st hst lvl hl)

/-! ### whole runs on stacked configurations -/

def hwStackB (c : Comp) (cap : Ledger.Loc → Rat) (st : Stack) : Bool :=
  !st.isEmpty && st.all (fun lvl => match lvl.hardware with
    | some cp => decide (c.get cp = cap lvl.name)
    | none => false)

theorem hwStackB_spec (c : Comp) (cap : Ledger.Loc → Rat) (av : List Stack) (h : av.all (hwStackB c cap) = true) :
    HwStacks c cap av := by
  intro st hst
  have := List.all_eq_true.mp h st hst
  simp only [hwStackB, Bool.and_eq_true, Bool.not_eq_true', List.all_eq_true] at this
  refine ⟨by intro e; subst e; simp at this, fun lvl hl => ?_⟩
  have h2 := this.2 lvl hl
  cases hh : lvl.hardware with
  | none => simp [hh] at h2
  | some cp => simp only [hh, decide_eq_true_eq] at h2; exact ⟨cp, rfl, h2⟩

/-- decidable hypothesis on the available locations of a pass: chains of hardware locations, no level shared between
    two available locations (nor repeated), location names distinct -/
def StackedAvail (c : Comp) (cap : Ledger.Loc → Rat) (av : List Stack) : Prop :=
  av.all (hwStackB c cap) = true ∧ (allKeys av).Nodup ∧ (av.flatMap (fun st => st.map (·.name))).Nodup

instance (c : Comp) (cap : Ledger.Loc → Rat) (av : List Stack) : Decidable (StackedAvail c cap av) := by
  unfold StackedAvail; exact inferInstance

def OkS (c : Comp) (cap : Ledger.Loc → Rat) (s : St) : SOp → Prop
  | .pass j _ _ rq _ _ av =>
      StackedAvail c cap av ∧ 0 ≤ c.get rq ∧ jobCond s j (fun a => Ledger.occupying a.status = false)
  | .notify j new => jobCond s j (fun a => Ledger.protoOk a.status new)

instance (c : Comp) (cap : Ledger.Loc → Rat) (s : St) (op : SOp) : Decidable (OkS c cap s op) := by
  cases op <;> unfold OkS <;> exact inferInstance

def RunOk (c : Comp) (cap : Ledger.Loc → Rat) (env : Env) : St → List SOp → Prop
  | _, [] => True
  | s, op :: ops =>
      OkS c cap s op ∧
      (match stepS env s op with
       | some s' => RunOk c cap env s' ops
       | none => True)

instance decRunOk (c : Comp) (cap : Ledger.Loc → Rat) (env : Env) : (s : St) → (ops : List SOp) → Decidable (RunOk c cap env s ops)
  | _, [] => isTrue trivial
  | s, op :: ops => by
      unfold RunOk
      cases h : stepS env s op with
      | none => simp only []; exact inferInstance
      | some s' => simp only []; exact @instDecidableAnd _ _ _ (decRunOk c cap env s' ops)

theorem step_refines (c : Comp) (cap : Ledger.Loc → Rat) (env : Env) (s s' : St) (L : Ledger.St) (op : SOp)
    (hR : RelS c s L) (hI : Ledger.Inv cap L) (hok : OkS c cap s op) (hs : stepS env s op = some s') :
    ∃ L', RelS c s' L' ∧ Ledger.Inv cap L' := by
  cases op with
  | pass j st tg rq t w av =>
    obtain ⟨⟨hflatB, hnd, hnn⟩, hpos, hnocc'⟩ := hok
    have hnocc : ∀ a, assocGet s.jobs j = some a → Ledger.occupying a.status = false := by
      intro a ha; exact jobCond_some hnocc' ha
    simp only [stepS] at hs
    cases hta : tryAllocate env s j st tg rq t w av with
    | mk s1 out =>
      simp only [hta] at hs
      cases out with
      | error e => simp at hs
      | waiting =>
        simp only [Option.some.injEq] at hs; subst hs
        rw [tryAllocate_waiting env s s1 j st tg rq t w av hta]
        exact ⟨L, hR, hI⟩
      | allocated names =>
        simp only [Option.some.injEq] at hs; subst hs
        obtain ⟨entries, _, hvals, hnod, hrel⟩ :=
          tryAllocate_refines c cap env s s1 L j st tg rq t w av names hR (hwStackB_spec c cap av hflatB) hnd hta
        refine ⟨_, hrel, Ledger.inv_step hI _ ⟨?_, hnod hnn, fun e he => by rw [hvals e he]; exact hpos⟩⟩
        rintro ⟨hj, hocc⟩
        have := (hR.ids j).mp hj
        cases ha : assocGet s.jobs j with
        | none => simp [ha] at this
        | some a =>
          rw [(hR.jobs j a ha).1, hnocc a ha] at hocc; cases hocc
  | notify j new =>
    simp only [stepS] at hs
    cases hn : notify env s j new with
    | mk s1 out =>
      simp only [hn] at hs
      cases out with
      | error e => simp at hs
      | done b =>
        simp only [Option.some.injEq] at hs; subst hs
        refine ⟨_, notify_refines c cap env s s1 L j new b hR hn, Ledger.inv_step hI _ ⟨?_, by simp⟩⟩
        cases ha : assocGet s.jobs j with
        | none => simp [notify, ha] at hn
        | some a =>
          have : Ledger.protoOk a.status new := jobCond_some hok ha
          rw [(hR.jobs j a ha).1]; exact this

/-- **whole-run refinement on stacked configurations** -/
theorem run_refines (c : Comp) (cap : Ledger.Loc → Rat) (env : Env) (ops : List SOp) (s s' : St) (L : Ledger.St)
    (hR : RelS c s L) (hI : Ledger.Inv cap L) (hok : RunOk c cap env s ops) (hrun : runS env s ops = some s') :
    ∃ L', RelS c s' L' ∧ Ledger.Inv cap L' := by
  induction ops generalizing s L with
  | nil => simp only [runS, Option.some.injEq] at hrun; subst hrun; exact ⟨L, hR, hI⟩
  | cons op ops ih =>
    simp only [runS] at hrun
    cases hs : stepS env s op with
    | none => simp [hs] at hrun
    | some s1 =>
      simp only [hs] at hrun
      obtain ⟨L1, hR1, hI1⟩ := step_refines c cap env s s1 L op hR hI hok.1 hs
      have hok2 := hok.2
      simp only [hs] at hok2
      exact ih s1 L1 hR1 hI1 hok2 hrun

end SFV.RefineStack
