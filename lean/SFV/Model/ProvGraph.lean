/-! # Model of `ProvenanceGraph.build_graph` (streamflow/recovery/utils.py)

Backward breadth-first search from the failed job's input tokens. A token at which the search stops (`stop t`) is one
whose data is available, or the `JobToken` of a job that another recovery is already re-running
(`failure_manager.is_recovering`); otherwise its dependees (rows of the `provenance` table) are added with an edge
`dependee → token` and enqueued unless already visited (`info_tokens`) or already in the frontier. A token that is not
available and has no dependees makes `build_graph` raise. Fuel = number of loop iterations allowed. -/
namespace SFV.Prov

structure In where
  deps : Nat → List Nat
  stop : Nat → Bool

structure BSt where
  queue : List Nat
  nodes : List Nat
  edges : List (Nat × Nat)
  info : List Nat
deriving Repr

inductive Res
  | ok (s : BSt)
  | noPrev (t : Nat)       -- FailureHandlingException: not available and no previous tokens
  | outOfFuel
deriving Repr

def addNode (l : List Nat) (n : Nat) : List Nat := if n ∈ l then l else l ++ [n]

/-- the tokens of `ps` appended to the frontier: not yet visited, not in the frontier, no duplicates -/
def enqueue (info q : List Nat) : List Nat → List Nat
  | [] => q
  | p :: ps => if p ∈ info ∨ p ∈ q then enqueue info q ps else enqueue info (q ++ [p]) ps

/-- one iteration of the `while token_frontier:` loop for the token `t` just popped -/
def visit (inp : In) (s : BSt) (t : Nat) (q : List Nat) : Option BSt :=
  if inp.stop t then some { s with queue := q, nodes := addNode s.nodes t, info := addNode s.info t }
  else match inp.deps t with
    | [] => none
    | ps => some { queue := enqueue s.info q ps,
                   nodes := ps.foldl addNode (addNode s.nodes t),
                   edges := s.edges ++ ps.map (fun p => (p, t)),
                   info := addNode s.info t }

def bfs (inp : In) : Nat → BSt → Res
  | 0, s => if s.queue = [] then .ok s else .outOfFuel
  | fuel + 1, s =>
      match s.queue with
      | [] => .ok s
      | t :: q =>
          match visit inp s t q with
          | none => .noPrev t
          | some s' => bfs inp fuel s'

def start (inputs : List Nat) : BSt :=
  { queue := inputs, nodes := inputs.foldl addNode [], edges := [], info := [] }

def buildGraph (inp : In) (fuel : Nat) (inputs : List Nat) : Res := bfs inp fuel (start inputs)

/-- the specification: tokens reachable backwards from the inputs through non-stop tokens only -/
inductive Reach (inp : In) (inputs : List Nat) : Nat → Prop
  | input {t} : t ∈ inputs → Reach inp inputs t
  | dep {t p} : Reach inp inputs t → inp.stop t = false → p ∈ inp.deps t → Reach inp inputs p

end SFV.Prov
