import SFV.Model.RunCrate
namespace SFV.RunCrate

theorem dictSet_keys (l : List (String × β)) (k : String) (v : β) :
    (dictSet l k v).map (·.1) = if k ∈ l.map (·.1) then l.map (·.1) else l.map (·.1) ++ [k] := by
  induction l with
  | nil => simp [dictSet]
  | cons p r ih =>
    obtain ⟨k', v'⟩ := p
    simp only [dictSet]
    by_cases h : k' = k
    · subst h; simp
    · simp only [h, if_false, List.map_cons, ih, List.mem_cons]
      have hne : ¬ k = k' := fun e => h e.symm
      by_cases hm : k ∈ r.map (·.1)
      · simp [hm]
      · simp [hm, hne]

theorem dictSet_nodup (l : List (String × β)) (k : String) (v : β) (h : (l.map (·.1)).Nodup) :
    ((dictSet l k v).map (·.1)).Nodup := by
  rw [dictSet_keys]
  split
  · exact h
  · rename_i hm
    exact List.nodup_append.mpr ⟨h, by simp, by intro a ha b hb; simp at hb; subst hb; intro e; subst e; exact hm ha⟩

theorem dictSet_mem (l : List (String × Entity)) (e : Entity) (hk : ∀ p, p ∈ l → p.2.id = p.1) :
    ∀ p, p ∈ dictSet l e.id e → p.2.id = p.1 := by
  induction l with
  | nil => intro p hp; simp [dictSet] at hp; subst hp; rfl
  | cons q r ih =>
    obtain ⟨k', v'⟩ := q
    intro p hp
    simp only [dictSet] at hp
    split at hp
    · rename_i hk'
      rcases List.mem_cons.mp hp with rfl | hp
      · simp [hk']
      · exact hk p (by simp [hp])
    · rcases List.mem_cons.mp hp with rfl | hp
      · exact hk _ (by simp)
      · exact ih (fun p hp => hk p (by simp [hp])) p hp

/-- the invariant of the graph dict -/
def KeysOk (c : Crate) : Prop := (c.graph.map (·.1)).Nodup ∧ ∀ p, p ∈ c.graph → p.2.id = p.1

theorem step_keysOk (c : Crate) (op : Op) (h : KeysOk c) : KeysOk (step c op) := by
  cases op with
  | put e => exact ⟨dictSet_nodup _ _ _ h.1, dictSet_mem _ _ h.2⟩
  | mapFile src dst => exact h
  | addRef owner target =>
    constructor
    · simp only [step, List.map_map]
      have : ((fun p : String × Entity => p.1) ∘ fun p => if p.1 = owner then (p.1, { p.2 with refs := p.2.refs ++ [target] }) else p)
          = fun p => p.1 := by
        funext p; simp only [Function.comp]; split <;> rfl
      rw [this]; exact h.1
    · intro p hp
      simp only [step, List.mem_map] at hp
      obtain ⟨q, hq, rfl⟩ := hp
      split
      · exact h.2 q hq
      · exact h.2 q hq

theorem run_keysOk_aux (ops : List Op) : ∀ c, KeysOk c → KeysOk (ops.foldl step c) := by
  induction ops with
  | nil => intro c h; exact h
  | cons op r ih => intro c h; exact ih _ (step_keysOk c op h)

theorem run_keysOk (ops : List Op) : KeysOk (run ops) :=
  run_keysOk_aux ops {} ⟨List.nodup_nil, by intro p hp; simp at hp⟩

theorem archiveNames_acc (ex : String → Bool) : ∀ (fs : List (String × String)) (acc : List String) (x : String),
    x ∈ acc → x ∈ archiveNames ex fs acc := by
  intro fs
  induction fs with
  | nil => intro acc x h; exact h
  | cons p r ih =>
    intro acc x h
    obtain ⟨src, dst⟩ := p
    simp only [archiveNames]
    split
    · exact ih _ x (by simp [h])
    · exact ih _ x h

theorem archiveNames_has (ex : String → Bool) : ∀ (fs : List (String × String)) (acc : List String) (src dst : String),
    (src, dst) ∈ fs → ex src = true → dst ∈ archiveNames ex fs acc := by
  intro fs
  induction fs with
  | nil => intro acc src dst h; simp at h
  | cons p r ih =>
    intro acc src dst h hex
    obtain ⟨s', d'⟩ := p
    simp only [archiveNames]
    rcases List.mem_cons.mp h with e | h'
    · simp only [Prod.mk.injEq] at e
      obtain ⟨rfl, rfl⟩ := e
      by_cases hc : acc.contains dst = true
      · simp only [hex, hc, Bool.not_true, Bool.and_false, Bool.false_eq_true, if_false]
        exact archiveNames_acc ex r acc dst (by simpa using hc)
      · have hc' : acc.contains dst = false := by simpa using hc
        simp only [hex, hc', Bool.not_false, Bool.and_self, if_true]
        exact archiveNames_acc ex r _ dst (by simp)
    · split
      · exact ih _ src dst h' hex
      · exact ih _ src dst h' hex

def keys (c : Crate) : List String := c.graph.map (·.1)

theorem step_keys_mono (c : Crate) (op : Op) (k : String) (h : k ∈ keys c) : k ∈ keys (step c op) := by
  cases op with
  | put e =>
    simp only [keys, step, dictSet_keys]
    split
    · exact h
    · exact List.mem_append_left _ h
  | mapFile src dst => exact h
  | addRef owner target =>
    simp only [keys, step, List.map_map]
    have : ((fun p : String × Entity => p.1) ∘ fun p => if p.1 = owner then (p.1, { p.2 with refs := p.2.refs ++ [target] }) else p)
        = fun p => p.1 := by
      funext p; simp only [Function.comp]; split <;> rfl
    rw [this]; exact h

theorem foldl_keys_mono (l : List Op) : ∀ (c : Crate) (k : String), k ∈ keys c → k ∈ keys (l.foldl step c) := by
  induction l with
  | nil => intro c k h; exact h
  | cons op r ih => intro c k h; exact ih _ k (step_keys_mono c op k h)

theorem put_in_keys (l : List Op) : ∀ (c : Crate) (e : Entity), Op.put e ∈ l → e.id ∈ keys (l.foldl step c) := by
  induction l with
  | nil => intro c e h; simp at h
  | cons op r ih =>
    intro c e h
    simp only [List.foldl_cons]
    rcases List.mem_cons.mp h with rfl | h'
    · apply foldl_keys_mono
      simp only [keys, step, dictSet_keys]
      split
      · assumption
      · simp
    · exact ih _ e h'

/-- a reference that some operation of the history wrote -/
def Declared (ops : List Op) (r : String) : Prop :=
  (∃ e, Op.put e ∈ ops ∧ r ∈ e.refs) ∨ (∃ o, Op.addRef o r ∈ ops)

theorem dictSet_vals (l : List (String × Entity)) (e : Entity) (P : Entity → Prop) (hl : ∀ p, p ∈ l → P p.2) (he : P e) :
    ∀ p, p ∈ dictSet l e.id e → P p.2 := by
  induction l with
  | nil => intro p hp; simp [dictSet] at hp; subst hp; exact he
  | cons q r ih =>
    obtain ⟨k', v'⟩ := q
    intro p hp
    simp only [dictSet] at hp
    split at hp
    · rcases List.mem_cons.mp hp with rfl | hp
      · exact he
      · exact hl p (by simp [hp])
    · rcases List.mem_cons.mp hp with rfl | hp
      · exact hl _ (by simp)
      · exact ih (fun p hp => hl p (by simp [hp])) p hp

theorem foldl_declared (ops : List Op) (l : List Op) : ∀ (c : Crate), (∀ op, op ∈ l → op ∈ ops) →
    (∀ p, p ∈ c.graph → ∀ r, r ∈ p.2.refs → Declared ops r) →
    ∀ p, p ∈ (l.foldl step c).graph → ∀ r, r ∈ p.2.refs → Declared ops r := by
  induction l with
  | nil => intro c _ h; exact h
  | cons op rest ih =>
    intro c hsub h
    apply ih _ (fun o ho => hsub o (by simp [ho]))
    have hop : op ∈ ops := hsub op (by simp)
    cases op with
    | put e =>
      exact dictSet_vals c.graph e (fun x => ∀ r, r ∈ x.refs → Declared ops r) h
        (fun r hr => Or.inl ⟨e, hop, hr⟩)
    | mapFile src dst => exact h
    | addRef owner target =>
      intro p hp r hr
      simp only [step, List.mem_map] at hp
      obtain ⟨q, hq, rfl⟩ := hp
      split at hr
      · simp only [List.mem_append, List.mem_singleton] at hr
        rcases hr with hr | rfl
        · exact h q hq r hr
        · exact Or.inr ⟨owner, hop⟩
      · exact h q hq r hr

end SFV.RunCrate
