"""C04 — every well-formed workflow terminates; failures terminate every step."""
from __future__ import annotations

import json

from sfv.framework import Ctx, Property
from sfv.rt import wfcheck, wfgen
from sfv.translate import stepguards

# keys of the two defects repaired in /repo (88472de executor, 4e89c00 loop combinator): recorded as `fixed` in
# known_findings.d/C04.jsonl, so an occurrence is a VIOLATION again (regression)
KNOWN_LOOP_HANG = "hang:LoopCombinatorStep-keeps-reading-after-FAILED-termination-on-another-input-port"
KNOWN_CANCEL = "executor-_cancel-marks-closed:FAILED-termination-on-an-output-port:steps-still-running-when-run-raises"


KNOWN_PIPELINE_SWALLOWS = "failure-not-propagated-through-job-pipeline:ExecuteStep-ends-SKIPPED-or-COMPLETED-although-its-ScheduleStep-FAILED"


def oracle(spec: dict, res: dict, failing: bool):
    """yield (key, detail): ways in which one real run contradicts the property statement"""
    kind = res["outcome"]["kind"]
    if kind == "hang":
        # narrow classification of one known deadlock: a LoopCombinatorStep one of whose input ports was terminated FAILED /
        # CANCELLED (its checklist is cleared) while another input port already delivered a token whose iteration can
        # never terminate (no combination is ever produced), so the step reads that port forever
        for name, lc in res.get("loop_combinators", {}).items():
            bad_in = [p for p, v in lc["inputs"].items() if any(t in ("FAILED", "CANCELLED") for t in v["terminations"])]
            waiting = [p for p, v in lc["checklist"].items() if v and p not in bad_in]
            if failing and not lc["terminated"] and bad_in and waiting:
                yield KNOWN_LOOP_HANG, (f"{res['outcome']['detail']}: {name} got a FAILED termination on {bad_in} and still waits for the "
                                        f"iteration termination of {[(p, lc['checklist'][p]) for p in waiting]}")
                return
        if res.get("self_awaiting_tasks"):
            # dead-lock by inspection, not by the clock: close() ran inside a step task (`_handle_exception` after run() raised)
            # and cancelled + awaited that very task
            yield "hang:close-awaits-the-task-it-runs-in", (f"{res['outcome']['detail']}; unterminated steps {res.get('unterminated_at_exit')}; "
                                                             f"pending {res.get('pending', [])[:4]}")
            return
        yield "hang:executor-run-does-not-finish", (f"{res['outcome']['detail']}; unterminated steps {res.get('unterminated_at_exit')}; "
                                                    f"pending tasks {res.get('pending', [])[:6]}")
        return
    if kind == "harness-error":
        return
    unterm_exit = res.get("unterminated_at_exit", [])
    unterm_late = sorted(n for n, v in res.get("steps", {}).items() if not v["terminated"])
    if not failing:
        if kind != "return":
            yield "failure-free-run-raises", f"executor raised {res['outcome']['detail']} although no step failed"
        if unterm_exit:
            yield "returns-before-every-step-terminated", f"executor returned while {unterm_exit} were not terminated"
        bad = {n: v["status"] for n, v in res.get("steps", {}).items() if v["status"] not in ("COMPLETED", "SKIPPED")}
        if bad and kind == "return":
            yield "returns-with-non-terminal-step-status", f"executor returned, step statuses {bad}"
        for p, terms in res.get("terminations", {}).items():
            order_ok = True
            if len(terms) != 1:
                yield "port-termination-token-count", f"port {p} holds {len(terms)} termination tokens after a completed run"
            if not order_ok:
                pass
        if res.get("data_after_termination"):
            yield "data-token-after-termination-token", f"ports {res['data_after_termination']} hold a data token after the termination token"
        if res.get("pending"):
            yield "pending-task-after-return", f"tasks still pending after the executor returned: {res['pending'][:6]}"
    else:
        if kind != "raise":
            yield "failure-not-raised", "a step failed but the executor returned normally"
        cancel_path = res.get("executor", {}).get("cancel_called") and res.get("executor", {}).get("close_noop_with_unterminated")
        if unterm_exit:
            if cancel_path and kind == "raise":
                yield KNOWN_CANCEL, (f"run() raised while steps {unterm_exit[:8]} were not terminated: _wait_outputs -> _cancel set _closed, "
                                     f"so close() in run()'s except did nothing")
            else:
                yield "failure:steps-not-terminated-when-run-raises", f"steps {unterm_exit[:8]} not terminated when run() raised (not the _cancel path)"
        if unterm_late and not (cancel_path and unterm_exit):
            yield "failure:steps-never-terminated", f"steps {unterm_late[:8]} still not terminated after the executor raised and the loop settled"
        for nid, name, st, via_pipeline in downstream_statuses(spec, res):
            if via_pipeline:
                sched = {k: v["status"] for k, v in res.get("steps", {}).items() if "/__schedule__" in k or "/__transfer__" in k or k.endswith("-exec")}
                yield KNOWN_PIPELINE_SWALLOWS, (f"step {name} lies downstream of the failed step but ended {st}: a job pipeline with >= 2 inputs "
                                                f"whose ScheduleStep FAILED did not end FAILED itself; pipeline step statuses {sched}")
            else:
                yield "failure:step-downstream-of-the-failed-step-ends-" + str(st), (
                    f"step {name} consumes (transitively) the outputs of the failed step but ended {st}")
        if res.get("pending"):
            if cancel_path and unterm_exit:
                yield KNOWN_CANCEL, f"tasks still pending after run() raised: {res['pending'][:6]}"
            else:
                yield "failure:pending-task-after-raise", f"tasks still pending after the executor raised: {res['pending'][:6]}"


# failing workflows that always run first: the witnesses of the two repaired defects
FAIL_CORPUS = [
    # a loop whose `limit` input comes from a transformer that raises (before 4e89c00: LoopCombinatorStep read forever)
    {"nports": 6, "sources": [{"port": 0, "value": 5}, {"port": 1, "value": 3}], "closed": [], "nodes": [
        {"id": 0, "kind": "tf", "ins": [1], "outs": [2], "fn": "add", "k": 5, "fail": {"tag": "0"}},
        {"id": 1, "kind": "loop", "ins": [1, 2], "outs": [3], "k": 3},
        {"id": 2, "kind": "tf", "ins": [0], "outs": [4, 5], "fn": "split", "k": -2}]},
    # two independent branches, one fails at once, the other is a scatter -> jobs -> gather pipeline still running
    # (before 88472de: run() raised while the second branch was not terminated)
    {"nports": 8, "sources": [{"port": 0, "value": 1}, {"port": 1, "value": [1, 2, 3, 4]}], "closed": [], "nodes": [
        {"id": 0, "kind": "tf", "ins": [0], "outs": [2], "fn": "add", "k": 1, "fail": {"tag": "0"}},
        {"id": 1, "kind": "scatter", "ins": [1], "outs": [3, 4]},
        {"id": 2, "kind": "exec", "ins": [3], "outs": [5], "k": 1},
        {"id": 3, "kind": "tf", "ins": [5], "outs": [6], "fn": "add", "k": 1},
        {"id": 4, "kind": "gather", "ins": [6, 4], "outs": [7], "depth": 1}]},
    # the body of a loop (inside a scatter) fails in iteration 2 / 4, after successful iterations whose outputs were already
    # collected by the LoopOutputStep: the loop must still be left and the executor must raise
    *[{"nports": 7, "sources": [{"port": 0, "value": [2, 7]}], "closed": [], "nodes": [
        {"id": 0, "kind": "scatter", "ins": [0], "outs": [1, 2]},
        {"id": 1, "kind": "tf", "ins": [1], "outs": [3], "fn": "add", "k": 9},
        {"id": 2, "kind": "loop", "ins": [1, 3], "outs": [4], "k": 2, "fail": {"iter": it}},
        {"id": 3, "kind": "gather", "ins": [4, 2], "outs": [5], "depth": 1},
        {"id": 4, "kind": "tf", "ins": [5], "outs": [6], "fn": "sum", "k": 0}]} for it in (2, 4)],
    # two job pipelines on one deployment, every job asks for ALL cores: A runs first and fails while B's job is queued for
    # resources; their outputs are joined, so the executor only sees the failure after B ran: the failed job must release
    # its allocation (executor raises, A FAILED, B COMPLETED, everything terminated)
    {"nports": 7, "sources": [{"port": 0, "value": 1}, {"port": 1, "value": 2}], "closed": [], "nodes": [
        {"id": 0, "kind": "exec", "ins": [0], "outs": [2], "k": 1, "allcores": True, "delay": 0.15, "fail": {"job_tag": "0"}},
        {"id": 1, "kind": "tf", "ins": [1], "outs": [3], "fn": "add", "k": 1},
        {"id": 2, "kind": "tf", "ins": [3], "outs": [4], "fn": "add", "k": 1},
        {"id": 3, "kind": "exec", "ins": [4], "outs": [5], "k": 1, "allcores": True},
        {"id": 4, "kind": "tf", "ins": [2, 5], "outs": [6], "fn": "lin", "k": 0}]},
    # two branches of one scatter joined by a 2-input transformer, the branch on the SECOND (resp. first) port fails on
    # element 0.1 and so delivers fewer tokens than the other: the join reads one token per port each round and must
    # recognise the termination token on whichever port it arrives (else its next reading round blocks on a terminated port)
    *[{"nports": 7, "sources": [{"port": 0, "value": [1, 2, 3, 4]}], "closed": [], "nodes": [
        {"id": 0, "kind": "scatter", "ins": [0], "outs": [1, 2]},
        {"id": 1, "kind": "tf", "ins": [1], "outs": [3], "fn": "add", "k": 1},
        {"id": 2, "kind": "tf", "ins": [1], "outs": [4], "fn": "add", "k": 2, "fail": {"tag": "0.1"}},
        {"id": 3, "kind": "tf", "ins": ins, "outs": [5], "fn": "lin", "k": 0},
        {"id": 4, "kind": "gather", "ins": [5, 2], "outs": [6], "depth": 1}]} for ins in ([3, 4], [4, 3])],
    # an exception ESCAPES a step's run() (ScatterStep on a non-list token) while another branch (scatter -> delayed jobs ->
    # gather) is still running: `_handle_exception` calls close() INSIDE the raising step's task. In a workflow without
    # output ports nobody else closes the executor (run() only awaits the step tasks): before 92ab986 close() cancelled and
    # awaited the task it was running in (RecursionError inside asyncio, run() never returned). Second variant: with output
    # ports (there the main task's `_wait_outputs` -> `_cancel` -> close() rescued the old code).
    *[{"nports": 9, **no_out, "sources": [{"port": 0, "value": [3, 5]}, {"port": 1, "value": [1, 2, 3]}], "closed": [], "nodes": [
        {"id": 0, "kind": "tf", "ins": [0], "outs": [2], "fn": "sum", "k": 0, "fail": {"mode": "escape"}},
        {"id": 1, "kind": "scatter", "ins": [2], "outs": [3, 4]},
        {"id": 2, "kind": "scatter", "ins": [1], "outs": [5, 6]},
        {"id": 3, "kind": "exec", "ins": [5], "outs": [7], "k": 1, "delay": 0.1},
        {"id": 4, "kind": "gather", "ins": [7, 6], "outs": [8], "depth": 1}]} for no_out in ({"no_outputs": True}, {})],
]


def downstream_statuses(spec: dict, res: dict):
    """C04.downstream_of_failed_never_good on the real run: (node id, step name, status) of every node that lies downstream
    of the failing step along a path WITHOUT combinator / loop nodes and ended COMPLETED (or with a non-terminal status). (A CombinatorStep
    resets its status to COMPLETED when a data token arrives after a FAILED termination, so the status of a combinator
    downstream of a failure depends on the arrival order: those nodes and everything behind them are left out.)"""
    f = _fail_node(spec)
    if f is None or f >= len(spec["nodes"]):
        return []
    tainted = set(spec["nodes"][f]["outs"])
    swallowed: set = set()     # ports behind a job pipeline that dropped the failure (known finding, see KNOWN_PIPELINE_SWALLOWS)
    bad = []
    steps = res.get("steps", {})
    for n in spec["nodes"][f + 1:]:
        if not any(p in tainted for p in n["ins"]):
            continue
        if n["kind"] in ("dot", "cart", "loop"):
            continue
        tainted.update(n["outs"])
        name = f"/n{n['id']}-{n['kind']}"
        st = steps.get(name, {}).get("status")
        if any(p in swallowed for p in n["ins"]):
            swallowed.update(n["outs"])
        if (n["kind"] == "exec" and len(n["ins"]) >= 2 and steps.get(name + "/__schedule__", {}).get("status") in ("FAILED", "CANCELLED")
                and st not in ("FAILED", "CANCELLED")):
            # the pipeline's ScheduleStep failed (FAILED termination on one input) but its ExecuteStep did not
            swallowed.update(n["outs"])
            if st == "SKIPPED":
                bad.append((n["id"], name, st, True))
        # FAILED / CANCELLED as in the model; SKIPPED happens in the real engine when close() (not atomic: one terminate()
        # task per step) has put a CANCELLED termination token that a still running consumer with empty outputs reads
        # before it is cancelled itself: `_get_status(CANCELLED)` is SKIPPED on empty outputs. Never COMPLETED.
        if st not in ("FAILED", "CANCELLED", "SKIPPED"):
            bad.append((n["id"], name, st, any(p in swallowed for p in n["ins"] + n["outs"])))
    return bad


def _fail_node(spec: dict):
    """index of the step that fails: the transformer that raises, or the scatter fed with a non-list (escape mode)"""
    for nd in spec["nodes"]:
        f = nd.get("fail")
        if f:
            return nd["id"] + 1 if f.get("mode") == "escape" else nd["id"]
    return None


class C04(Property):
    pid = "C04"
    title = "Every well-formed workflow terminates, and failures terminate every step"
    lean_targets = ["SFV.Props.C04", "SFV.Props.C04Loop", "SFV.Props.C04Guards", "SFV.Props.C04Status", "SFV.Props.C04LoopNet", "SFV.Props.C04Crash"]
    props_files = ["SFV/Props/C04.lean", "SFV/Props/C04Loop.lean", "SFV/Props/C04Guards.lean", "SFV/Props/C04Status.lean",
                   "SFV/Props/C04LoopNet.lean", "SFV/Props/C04Crash.lean"]
    drivers = ["Drivers/Net.lean"]
    translators = [stepguards.generate]
    rule = ("random well-formed DAG workflows (sfv.rt.wfgen: 2..12 nodes from the real step classes — transformers, scatter/gather "
            "incl. unknown-size and depth-2 gathers, dot / cartesian combinators, conditional steps, schedule/transfer/execute job "
            "pipelines) run on the real StreamFlowExecutor under the default asyncio order and 2 (quick) / 6 (thorough) PRNG task "
            "interleavings each; half of the workflows additionally with one injected failure (a transformer raising on one tag, or a "
            "scatter fed a non-list so that the exception escapes run() into the executor, a failing job, a loop body failing in a later "
            "iteration; witness workflows run first: two resource-contended job pipelines, joins of unequal branches in both port orders, an "
            "escaping exception with and WITHOUT workflow output ports; 15 % of the failing workflows have no output ports). A hang is "
            "run() unfinished and no change of the workflow state for a load-scaled window (or a task awaiting itself), never elapsed time alone. Oracle per run: executor "
            "return/raise, hang watchdog, every step terminated at the moment run() exits, one termination token per port, no pending "
            "task. Compared with the Lean model: executor outcome and (failure-free) the final status of every step. Non-trivial = "
            "workflow with >= 3 nodes.")
    trusted_base = [
        "hand-written model lean/SFV/Model/LoopComb.lean of the reading protocol of LoopCombinatorStep.run, compared with the real "
        "step on the real streams of its input ports (terminated flag, unread tokens) in every run that contains a loop",
        "hand-written transition-system model lean/SFV/Model/Exec.lean of StreamFlowExecutor.run/_wait_outputs/_cancel/close and "
        "BaseStep.terminate/_get_status/_reduce_statuses; compared on every run (outcome, statuses)",
        "modelled, not verified: asyncio task/cancellation semantics, database awaits, the internals of the job pipeline, and the "
        "token-level reason why a step terminates once its inputs terminated (C03 + the run loops); a step is an atomic unit that "
        "finishes after its producers or raises",
        "generator harness/sfv/rt/wfgen.py (well-formedness filter py_den; GenTransformer / GenConditionalStep subclasses)",
        "translator harness/sfv/translate/stepguards.py (ast patterns for _reduce_statuses, _get_status, the executor's cancel / raise "
        "tests and whether _cancel calls close() -> SFV/Gen/StepGuards.lean)",
    ]
    technique = "Lean 4 transition system of the executor protocol (progress, variant, invariants, negative witness) + randomized real-engine runs under controlled interleavings with a watchdog"
    level_text = ("grade B (partial): on the abstract step-graph model every scheduler terminates within n step actions with all steps "
                  "terminated, failure-free runs return with all steps COMPLETED/SKIPPED, a failed step makes the executor raise and every "
                  "step is terminated when it does (full strength for the current source: _cancel calls close(), extracted on every run); "
                  "a failed loop input never dead-locks the loop combinator; asyncio, DB and job-pipeline layers abstracted")
    level_note = ("Lean kernel, axioms within {propext, Classical.choice, Quot.sound}; model tied by T (stepguards) and by K on every "
                  "generated workflow; the two former findings are fixed in /repo (88472de, 4e89c00) and guarded by witness workflows")
    assumptions = [
        "well-formed workflow: finite DAG, every input port has a producer or is pre-loaded and terminated, every consumer-less port is a "
        "workflow output, multi-input grouping steps see the same tag set on all inputs",
        "a failure is a step raising inside its run loop (status FAILED); recovery (failure manager) is not enabled in these runs",
    ]
    quick_budget_s = 600
    thorough_budget_s = 2400
    min_nontrivial = 12

    def _plan(self, ctx: Ctx):
        if ctx.tier == "thorough":
            n, k = 200, 6
        else:
            n, k = 30, 2
        if ctx.mode == "search":
            n, k = n * 2, k * 3
        return n, k


    CHUNK = 8

    def _runs_for(self, ctx, pre, items, i, job_of, **kw):
        """runs of item i; the items of a chunk run in parallel worker processes (wfcheck.run_many)"""
        if i not in pre:
            chunk = items[i:i + self.CHUNK]
            outs = wfcheck.run_many([job_of(it) for it in chunk], ctx.scratch, **kw)
            pre.update({i + j: o for j, o in enumerate(outs)})
        return pre.pop(i)

    def explore(self, ctx: Ctx) -> None:
        rng = ctx.rng
        n, k = self._plan(ctx)
        lines, metas = [], []
        hangs = 0
        items, pre = [], {}
        for i in range(n):
            feats = {"exec": 4} if rng.random() < 0.3 else ({"loop": 3} if rng.random() < 0.3 else None)
            spec = wfgen.gen_spec(rng, size=rng.randint(2, 12), features=feats)
            if i < len(wfgen.CORPUS):
                spec = json.loads(json.dumps(wfgen.CORPUS[i]))
            failing = rng.random() < 0.5
            fspec = wfgen.choose_failure(rng, spec) if failing else None
            if fspec is None:
                failing = False
            nc = len(wfgen.CORPUS)
            if nc <= i < nc + len(FAIL_CORPUS):
                fspec, failing = json.loads(json.dumps(FAIL_CORPUS[i - nc])), True
                spec = fspec
            seeds = [rng.randrange(1 << 30) for _ in range(k)]
            if i < len(wfgen.CORPUS):
                seeds = [2 + j for j in range(k)]      # corpus: fixed schedules, the first one with reverse job completion order
            items.append((spec, failing, fspec or spec, seeds))
        for i, (spec, failing, run_spec, seeds) in enumerate(items):
            if ctx.out_of_time():
                ctx.extra["incomplete"] = True
                break
            if ctx.mode == "check" and ((i >= 20 and ctx.tier == "quick" and ctx.time_left() < 0.5 * self.quick_budget_s) or
                                        (i >= 60 and ctx.tier == "thorough" and ctx.time_left() < 0.4 * self.thorough_budget_s)):
                # heavily loaded machine: the plan is "up to n workflows", at least 20 (quick) / 60 (thorough), corpus included
                ctx.notes.append(f"soft time limit: stopped after {i} of {n} planned workflows")
                break
            if hangs >= 4:
                ctx.notes.append("stopped generating after 4 hanging runs (each costs the whole watchdog time)")
                break
            if i < len(wfgen.CORPUS) + len(FAIL_CORPUS):
                ctx.corpus_replayed += 1
            # default asyncio order first, then the PRNG schedules; a hanging workflow is not run again
            runs = self._runs_for(ctx, pre, items, i, lambda it: {"spec": it[2], "seeds": it[3]}, timeout=20.0, stop_on_hang=True)
            hangs += sum(1 for r in runs if r["outcome"]["kind"] == "hang" and not any(
                k == KNOWN_LOOP_HANG for k, _ in oracle(run_spec, r, failing)))
            fail_node = _fail_node(run_spec)
            key = ("wf", json.dumps(run_spec, sort_keys=True)) if len(spec["nodes"]) >= 3 else None
            ctx.case({"spec": run_spec, "failing": failing, "outcomes": [r["outcome"]["kind"] for r in runs],
                      "unterminated_at_exit": [len(r.get("unterminated_at_exit", [])) for r in runs]},
                     key, ("fail+" if failing else "ok+") + wfcheck.spec_bucket(spec))
            for r in runs:
                ctx.count("runs")
                if r["outcome"]["kind"] == "harness-error":
                    ctx.notes.append(f"harness error: {r['outcome']['detail'][:1500]}")
                    ctx.count("harness-error")
                    continue
                for fkey, detail in oracle(run_spec, r, failing):
                    ctx.fail(fkey, detail, {"spec": run_spec, "failing": failing, "seed": r["seed"], "shuffle": r["shuffle"]})
            # K for the reading protocol of LoopCombinatorStep: the real streams of its input ports go through the model
            for r in runs:
                if r["outcome"]["kind"] == "harness-error":
                    continue
                for lname, lc in r.get("loop_combinators", {}).items():
                    streams = [",".join(v["stream"]) or "-" for v in lc["inputs"].values()]
                    lines.append("loopcomb g " + " ".join(streams))
                    metas.append(("loopcomb", run_spec, failing, [dict(r, _lc=(lname, lc))]))
                    ctx.count("loop-combinator-runs")
            # K for the loop sub-network model (LoopNet): per loop instance, body executions and loop output
            if not failing:
                for nd in run_spec["nodes"]:
                    if nd["kind"] != "loop":
                        continue
                    for r in runs:
                        if r["outcome"]["kind"] != "return":
                            continue
                        lc = r.get("loop_combinators", {}).get(f"/n{nd['id']}-loop-loop-combinator")
                        if not lc:
                            continue
                        stream = lc["inputs"]["counter"]["stream"]
                        for tag, c in r["ports"][str(nd["ins"][0])].items():
                            l = r["ports"][str(nd["ins"][1])].get(tag)
                            bodies = sum(1 for t in stream if t.startswith("d" + tag + ".") and t.count(".") == tag.count(".") + 1)
                            out = r["ports"][str(nd["outs"][0])].get(tag)
                            lines.append(f"loopnet {nd['k']} {c} {l}")
                            metas.append(("loopnet", run_spec, failing, [dict(r, _ln=(nd["id"], tag, bodies, out))]))
                            ctx.count("loop-instances")
            words = wfcheck.spec_words(run_spec)
            lines.append(f"exec {words}" + (f" fail={fail_node}" if failing else ""))
            metas.append(("outcome", run_spec, failing, runs))
            if not failing:
                lines.append(f"status {words}")
                metas.append(("status", run_spec, failing, runs))
        got = ctx.lean("Drivers/Net.lean", lines)
        for g, (what, spec, failing, runs) in zip(got, metas):
            for r in runs:
                if r["outcome"]["kind"] == "harness-error" or (r["outcome"]["kind"] == "hang" and what not in ("loopcomb", "loopnet")):
                    continue
                if what == "loopnet":
                    nid, tag, bodies, out = r["_ln"]
                    real = f"bodies={bodies};out={out}"
                    if real != g:
                        ctx.disagree("loop sub-network (LoopNet) vs real loop", f"loop node {nid} instance {tag}: real {real}, model {g}",
                                     {"spec": spec, "failing": failing, "seed": r["seed"], "shuffle": r["shuffle"]})
                    continue
                if what == "loopcomb":
                    lname, lc = r["_lc"]
                    real = f"done={1 if lc['terminated'] else 0};unread={sum(v['unread'] for v in lc['inputs'].values())}"
                    model = ";".join(x for x in g.split(";") if not x.startswith("deadlocked"))
                    # a step cancelled by close() is terminated without having left its loop by itself
                    cancelled = r.get("steps", {}).get(lname, {}).get("status") == "CANCELLED"
                    if real != model and not cancelled and r["outcome"]["kind"] != "raise":
                        ctx.disagree("LoopCombinatorStep reading protocol: model vs real",
                                     f"{lname}: real {real}, model {g}, streams {[v['stream'] for v in lc['inputs'].values()]}",
                                     {"spec": spec, "failing": failing, "seed": r["seed"], "shuffle": r["shuffle"]})
                    continue
                if what == "outcome":
                    if g != r["outcome"]["kind"]:
                        ctx.disagree("executor outcome: model vs real", f"model {g}, real {r['outcome']['kind']} (failing={failing})",
                                     {"spec": spec, "failing": failing, "seed": r["seed"], "shuffle": r["shuffle"]})
                        break
                else:
                    model = dict(x.split("=") for x in g.split(",")) if g else {}
                    diff = {}
                    for nid, names in r.get("node_steps", {}).items():
                        kind = spec["nodes"][int(nid)]["kind"]
                        if kind == "loop":
                            continue      # a whole sub-network: its steps are covered by the terminated / status oracle
                        name = names[0] if kind != "exec" else f"/n{nid}-exec"
                        real = r["steps"].get(name, {}).get("status")
                        if real != model.get(nid):
                            diff[name] = (real, model.get(nid))
                    if diff:
                        ctx.disagree("final step statuses: model vs real", f"(real, model) {diff}",
                                     {"spec": spec, "failing": failing, "seed": r["seed"], "shuffle": r["shuffle"]})
                        break

    def replay(self, ctx: Ctx, data) -> None:
        r = data.get("replay") or data.get("case") or (data.get("no_longer_checks") or [{}])[0].get("case")
        if not r or "spec" not in r:
            return super().replay(ctx, data)
        spec, failing = r["spec"], r.get("failing", False)
        import shutil, tempfile
        wd = tempfile.mkdtemp(dir=ctx.scratch)
        res = wfgen.run_spec(spec, seed=r.get("seed", 0), workdir=wd, timeout=30.0, shuffle=r.get("shuffle", True))
        shutil.rmtree(wd, ignore_errors=True)
        print("spec    :", json.dumps(spec))
        print("outcome :", res["outcome"], " executor:", res.get("executor"))
        print("unterminated when run() exited:", res.get("unterminated_at_exit"))
        print("steps   :", {n: (v["status"], v["terminated"]) for n, v in res.get("steps", {}).items()})
        print("pending :", res.get("pending"))
        fail_node = _fail_node(spec)
        base = json.loads(json.dumps(spec))
        for nd in base["nodes"]:
            nd.pop("fail", None)
        print("model   :", ctx.lean("Drivers/Net.lean", [f"exec {wfcheck.spec_words(base)}" + (f" fail={fail_node}" if failing else "")])[0])
        for k, d in oracle(spec, res, failing):
            ctx.fail(k, d, r)


PROPERTY = C04()
