import SFV.Lemmas.GatherMain
/-! A termination token may overtake the data of the OTHER port: it commutes with them. -/
namespace SFV.Gather
open SFV

/-- the port an event comes from -/
def portOf {V} : Ev V → PortId
  | .elem _ => .elem
  | .size _ _ => .size
  | .term p _ => p

/-- processing the termination token of port `p` before or after a data token of the other port gives the same state -/
theorem term_comm {V} (d : Nat) (s : St V) (ho : BothOpen s) (p : PortId) (st : Status) (e : Ev V)
    (hd : IsData e) (hp : portOf e ≠ p) :
    step d (step d s (.term p st)) e = step d (step d s e) (.term p st) := by
  obtain ⟨ho1, ho2⟩ := ho
  cases e with
  | term q st' => exact (hd : False).elim
  | elem t =>
    cases p with
    | elem => exact absurd rfl hp
    | size =>
      simp only [step, ho1, ho2]
      simp
      split <;> simp [emit, ho1, ho2]
  | size k n =>
    cases p with
    | size => exact absurd rfl hp
    | elem =>
      simp only [step, ho1, ho2]
      simp
      split <;> simp [emit, ho1, ho2]

theorem term_comm_foldl {V} (d : Nat) (p : PortId) (st : Status) (b : List (Ev V))
    (hd : ∀ e ∈ b, IsData e) (hp : ∀ e ∈ b, portOf e ≠ p) :
    ∀ (s : St V), BothOpen s → b.foldl (step d) (step d s (.term p st)) = step d (b.foldl (step d) s) (.term p st) := by
  induction b with
  | nil => intro s _; rfl
  | cons e b ih =>
    intro s ho
    simp only [List.foldl_cons]
    rw [term_comm d s ho p st e (hd e (by simp)) (hp e (by simp))]
    exact ih (fun x hx => hd x (List.mem_cons_of_mem _ hx)) (fun x hx => hp x (List.mem_cons_of_mem _ hx))
      (step d s e) (view_step d s e ho (hd e (by simp)) []).2.1

/-- a run in which the first termination token arrives in the middle equals the run with it moved to the end -/
theorem run_term_middle {V} (d : Nat) (a b : List (Ev V)) (p q : PortId) (sa sb : Status)
    (hda : ∀ e ∈ a, IsData e) (hdb : ∀ e ∈ b, IsData e) (hpb : ∀ e ∈ b, portOf e ≠ p) :
    run d (a ++ [.term p sa] ++ b ++ [.term q sb]) = run d ((a ++ b) ++ [.term p sa, .term q sb]) := by
  have hoa : BothOpen (a.foldl (step d) ({} : St V)) := (view_foldl d a hda {} ⟨rfl, rfl⟩ []).2.1
  simp only [run, List.foldl_append, List.foldl_cons, List.foldl_nil]
  rw [term_comm_foldl d p sa b hdb hpb _ hoa]

end SFV.Gather
