import SFV.Lemmas.GatherRun
/-! The run-level theorem: any arrival order of several complete per-key streams. -/
namespace SFV.Gather
open SFV

/-- the tokens of one key: its elements and the size token announcing their number -/
def groupEvents {V} (g : Tag × List (Tok V)) : List (Ev V) := g.2.map Ev.elem ++ [Ev.size g.1 g.2.length]

def groupKEvents {V} (g : Tag × List (Tok V)) : List (KEv V) := g.2.map KEv.elem ++ [KEv.size g.2.length]

theorem groupEvents_data {V} (g : Tag × List (Tok V)) : ∀ e ∈ groupEvents g, IsData e := by
  intro e he
  simp only [groupEvents, List.mem_append, List.mem_map, List.mem_singleton] at he
  rcases he with ⟨t, _, rfl⟩ | rfl <;> trivial

theorem groupEvents_key {V} (d : Nat) (g : Tag × List (Tok V)) (hkey : ∀ t ∈ g.2, keyOf d t.tag = g.1) :
    ∀ e ∈ groupEvents g, evKey d e = some g.1 := by
  intro e he
  simp only [groupEvents, List.mem_append, List.mem_map, List.mem_singleton] at he
  rcases he with ⟨t, ht, rfl⟩ | rfl
  · simp [evKey, hkey t ht]
  · rfl

theorem proj_of_key {V} (d : Nat) (k : Tag) (es : List (Ev V)) (h : ∀ e ∈ es, evKey d e = some k) :
    proj d k es = es.filterMap toK := by
  induction es with
  | nil => rfl
  | cons e es ih =>
    simp only [proj, List.filterMap_cons, h e (by simp), if_true]
    have := ih (fun x hx => h x (List.mem_cons_of_mem _ hx))
    simp only [proj] at this
    rw [this]

theorem proj_of_other {V} (d : Nat) (k k' : Tag) (hk : k ≠ k') (es : List (Ev V)) (h : ∀ e ∈ es, evKey d e = some k') :
    proj d k es = [] := by
  induction es with
  | nil => rfl
  | cons e es ih =>
    have he := h e (by simp)
    have : ¬ (evKey d e = some k) := by rw [he]; simpa using fun e => hk e.symm
    simp only [proj, List.filterMap_cons, this, if_false]
    exact ih (fun x hx => h x (List.mem_cons_of_mem _ hx))

theorem filterMap_toK_group {V} (g : Tag × List (Tok V)) : (groupEvents g).filterMap toK = groupKEvents g := by
  simp only [groupEvents, groupKEvents, List.filterMap_append]
  congr 1
  induction g.2 with
  | nil => rfl
  | cons t ts ih => simp [toK, ih]

theorem proj_append {V} (d : Nat) (k : Tag) (a b : List (Ev V)) : proj d k (a ++ b) = proj d k a ++ proj d k b := by
  simp [proj, List.filterMap_append]

theorem proj_groups_other {V} (d : Nat) (groups : List (Tag × List (Tok V)))
    (hkey : ∀ g ∈ groups, ∀ t ∈ g.2, keyOf d t.tag = g.1) (k : Tag) (hk : k ∉ groups.map (·.1)) :
    proj d k (groups.flatMap groupEvents) = [] := by
  induction groups with
  | nil => rfl
  | cons g gs ih =>
    simp only [List.map_cons, List.mem_cons, not_or] at hk
    simp only [List.flatMap_cons, proj_append]
    rw [proj_of_other d k g.1 hk.1 _ (groupEvents_key d g (hkey g (by simp))),
      ih (fun x hx => hkey x (List.mem_cons_of_mem _ hx)) hk.2]
    rfl

theorem proj_groups_same {V} (d : Nat) (groups : List (Tag × List (Tok V)))
    (hnd : (groups.map (·.1)).Nodup) (hkey : ∀ g ∈ groups, ∀ t ∈ g.2, keyOf d t.tag = g.1)
    (g : Tag × List (Tok V)) (hg : g ∈ groups) :
    proj d g.1 (groups.flatMap groupEvents) = groupKEvents g := by
  induction groups with
  | nil => cases hg
  | cons x gs ih =>
    simp only [List.map_cons, List.nodup_cons] at hnd
    simp only [List.flatMap_cons, proj_append]
    have hkey' : ∀ y ∈ gs, ∀ t ∈ y.2, keyOf d t.tag = y.1 := fun y hy => hkey y (List.mem_cons_of_mem _ hy)
    rcases List.mem_cons.mp hg with rfl | hg'
    · rw [proj_of_key d g.1 _ (groupEvents_key d g (hkey g (by simp))), filterMap_toK_group,
        proj_groups_other d gs hkey' g.1 hnd.1]
      simp
    · have hne : g.1 ≠ x.1 := by
        intro e
        exact hnd.1 (e ▸ List.mem_map_of_mem (f := (·.1)) hg')
      rw [proj_of_other d g.1 x.1 hne _ (groupEvents_key d x (hkey x (by simp))), ih hnd.2 hkey' hg']
      rfl

theorem proj_perm {V} (d : Nat) (k : Tag) {a b : List (Ev V)} (h : a.Perm b) : (proj d k a).Perm (proj d k b) :=
  List.Perm.filterMap _ h

theorem run_append_terms {V} (d : Nat) (es : List (Ev V)) (t1 t2 : Ev V) :
    run d (es ++ [t1, t2]) = step d (step d (es.foldl (step d) {}) t1) t2 := by
  simp [run, List.foldl_append]

/-- **Any arrival order, several concurrent keys, any depth.** If the events are a permutation of complete
    per-key streams (distinct keys, every element tag has its group's key under `depth`, each group strictly
    sorted by tag) then the output port receives exactly the groups — one list token per key, tagged with the
    key, elements in tag order — in some order, followed by the termination token. -/
theorem gather_groups {V} (d : Nat) (groups : List (Tag × List (Tok V)))
    (hnd : (groups.map (·.1)).Nodup)
    (hkey : ∀ g ∈ groups, ∀ t ∈ g.2, keyOf d t.tag = g.1)
    (hsorted : ∀ g ∈ groups, StrictSorted g.2)
    (es : List (Ev V)) (hperm : es.Perm (groups.flatMap groupEvents))
    (pa pb : PortId) (hab : pa ≠ pb) (sa sb : Status) :
    (run d (es ++ [.term pa sa, .term pb sb])).out.Perm groups ∧
    (run d (es ++ [.term pa sa, .term pb sb])).terminated =
      some (getStatus (reduce2 (reduce2 .skipped sa) sb) groups.isEmpty) := by
  have hd : ∀ e ∈ es, IsData e := by
    intro e he
    obtain ⟨g, _, heg⟩ := List.mem_flatMap.mp (hperm.subset he)
    exact groupEvents_data g e heg
  have hopen : BothOpen ({} : St V) := ⟨rfl, rfl⟩
  let s0 := es.foldl (step d) ({} : St V)
  have hview : ∀ k, view s0 k = (proj d k es).foldl kstep {} := fun k => (view_foldl d es hd {} hopen k).1
  have ho0 : BothOpen s0 := (view_foldl d es hd {} hopen []).2.1
  have hst0 : s0.status = .skipped := (view_foldl d es hd {} hopen []).2.2
  -- per key: exactly the group, or nothing
  have hin : ∀ g ∈ groups, s0.out.filter (fun o => o.1 = g.1) = [(g.1, g.2)] := by
    intro g hg
    apply filter_fst_eq_of_map
    have := congrArg KSt.outs (hview g.1)
    simp only [view] at this
    rw [this]
    apply kgather_perm g.2 (hsorted g hg)
    have := proj_perm d g.1 hperm
    rwa [proj_groups_same d groups hnd hkey g hg] at this
  have hout : ∀ k, k ∉ groups.map (·.1) → s0.out.filter (fun o => o.1 = k) = [] := by
    intro k hk
    have h1 := congrArg KSt.outs (hview k)
    have h2 := (proj_perm d k hperm).length_eq
    rw [proj_groups_other d groups hkey k hk] at h2
    have h3 : proj d k es = [] := List.eq_nil_of_length_eq_zero h2
    rw [h3] at h1
    simp only [view, List.foldl_nil] at h1
    simpa using h1
  have hmem : ∀ o, o ∈ s0.out ↔ o ∈ groups := by
    intro o
    constructor
    · intro ho
      have hof : o ∈ s0.out.filter (fun x => x.1 = o.1) := List.mem_filter.mpr ⟨ho, by simp⟩
      by_cases hk : o.1 ∈ groups.map (·.1)
      · obtain ⟨g, hg, hgo⟩ := List.mem_map.mp hk
        rw [← hgo, hin g hg] at hof
        simp at hof
        have : o = g := by rw [hof]
        exact this ▸ hg
      · rw [hout o.1 hk] at hof; cases hof
    · intro hg
      have : o ∈ s0.out.filter (fun x => x.1 = o.1) := by rw [hin o hg]; simp
      exact (List.mem_filter.mp this).1
  have hnd0 : s0.out.Nodup := by
    apply nodup_of_filter_fst
    intro k
    by_cases hk : k ∈ groups.map (·.1)
    · obtain ⟨g, hg, hgo⟩ := List.mem_map.mp hk
      rw [← hgo, hin g hg]; simp
    · rw [hout k hk]; simp
  have hpermout : s0.out.Perm groups :=
    (List.perm_ext_iff_of_nodup hnd0 (nodup_of_nodup_fst groups hnd)).mpr hmem
  -- every key of token_map completed
  have hall : ∀ k ∈ s0.keys, k ∈ s0.completed := by
    intro k hk
    rcases keys_sub d es hd {} hopen k hk with h | ⟨e, he, hek⟩
    · cases h
    · obtain ⟨g, hg, heg⟩ := List.mem_flatMap.mp (hperm.subset he)
      have := groupEvents_key d g (hkey g hg) e heg
      rw [this] at hek
      have hk' : g.1 = k := by simpa using hek
      have hmem' : (g.1, g.2) ∈ s0.out := (hmem _).mpr hg
      have := out_completed d es hd {} hopen (by intro o ho; cases ho) _ hmem'
      exact hk' ▸ this
  have hterm := terms_after d s0 ho0 hall pa pb hab sa sb
  rw [run_append_terms]
  refine ⟨hterm.1 ▸ hpermout, ?_⟩
  rw [hterm.2, hst0]
  congr 2
  have := hpermout.length_eq
  cases hA : s0.out <;> cases hB : groups <;> simp_all

end SFV.Gather
