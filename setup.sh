#!/bin/bash
# offline setup after a fresh restore: regenerate the translated Lean files from /repo and build every proof
here="$(cd "$(dirname "${BASH_SOURCE[0]}")" && pwd)"
cd "$here"
export PYTHONPATH="$here/harness:${SFV_REPO:-/repo}"
export PYTHONDONTWRITEBYTECODE=1
/venv/bin/python -m sfv.setup || exit 1
