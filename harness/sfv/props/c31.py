"""C31 — expression dependency analysis covers every input an expression reads."""
from __future__ import annotations

import random

from sfv.framework import Ctx, Inconclusive, Property
from sfv.rt import jsdeps as J
from sfv.rt.hexs import hx
from sfv.rt.par import pmap


def _real_batch(batch):
    """worker: run the real resolve_dependencies on [(text, full_js, context_key)]"""
    from streamflow.cwl.utils import resolve_dependencies

    out = []
    for text, full_js, ck in batch:
        try:
            out.append(sorted(resolve_dependencies(text, full_js=full_js, context_key=ck)))
        except BaseException as e:  # noqa: BLE001
            out.append("EXC:" + type(e).__name__)
    return out


def real_deps(ctx: Ctx, items):
    """items: [(text, full_js, context_key)] -> list of sorted deps or 'EXC:Name'.
    A time-out is never a result: batches that the pool did not finish (watchdog under load, lost worker) are run again
    after the pool has drained, item by item, alone and sequentially, with a much larger bound; an item that does not
    return even then ends the check inconclusive (exit 2), it is not compared as a value."""
    from sfv.rt.cwldiff import enable_bytecode_cache

    if not items:
        return []
    enable_bytecode_cache()
    import streamflow.cwl.utils  # noqa: F401  (imported once here, inherited by the forked workers)
    size = 20
    batches = [items[i:i + size] for i in range(0, len(items), size)]
    res = [None] * len(batches)
    index = {id(b): i for i, b in enumerate(batches)}
    for b, status, r in pmap(_real_batch, batches, timeout=600):
        i = index[id(b)]
        if status == "ok":
            res[i] = r
        elif status != "timeout":
            raise Inconclusive(f"worker failed: {r[:300]}")
    redo = [i for i in range(len(batches)) if res[i] is None]      # timed out in the pool, or never reported
    if redo:
        ctx.count("batches-rerun-alone", len(redo))
    for i in redo:
        out = []
        for item in batches[i]:
            bound = min(1200.0, ctx.time_left())
            if bound < 30:
                raise Inconclusive(f"resolve_dependencies timed out in the pool on a batch containing {item[0]!r} and the budget "
                                   "has no room to re-run it alone")
            got = None
            for _, status, r in pmap(_real_batch, [[item]], timeout=bound, workers=1):
                if status == "ok":
                    got = r[0]
                elif status == "timeout":
                    raise Inconclusive(f"resolve_dependencies did not return within {int(bound)} s on {item[0]!r} even when run alone "
                                       "(a time-out is not a verdict)")
                else:
                    raise Inconclusive(f"worker failed: {str(r)[:300]}")
            if got is None:                                         # not reported by the pool: run it here
                got = _real_batch([item])[0]
            out.append(got)
        res[i] = out
    return [x for r in res for x in r]


def node_reads(ctx: Ctx, codes):
    """node oracle; a time-out under load is retried once alone with a larger bound, then the check is inconclusive"""
    import subprocess

    try:
        return J.node_reads(codes, timeout=300)
    except subprocess.TimeoutExpired:
        ctx.count("node-rerun")
        try:
            return J.node_reads(codes, timeout=max(60.0, min(1500.0, ctx.time_left())))
        except subprocess.TimeoutExpired as e:
            raise Inconclusive("the node oracle did not finish (a time-out is not a verdict)") from e


def _dec(field: str):
    if field == "_":
        return []
    return sorted(bytes.fromhex(h).decode() if h != "-" else "" for h in field.split(","))


def parse_model(line: str):
    """'ok:.. reads:.. h1' -> (deps | 'EXC:Name', reads | None, handled)"""
    parts = line.split(" ")
    if len(parts) != 3:
        return ("BAD:" + line, None, False)
    lst = _dec(parts[0][3:]) if parts[0].startswith("ok:") else "EXC:" + parts[0][4:]
    rd = _dec(parts[1][6:]) if parts[1].startswith("reads:") else None
    return lst, rd, parts[2] == "h1"


CRASH_EXC = J.CRASHED_BEFORE_FIX


def classify(prog, real, node_reads):
    """failures of the property on the real code for one program: [(key, detail)]"""
    out = []
    if isinstance(real, str):
        exc = real[4:]
        cands = [n for n in prog["order"] if CRASH_EXC.get(n) == exc]
        out.append((f"crash:{exc}:{cands[0]}" if cands else f"crash:{exc}:unexplained",
                    f"resolve_dependencies raises {exc} on an expression that evaluates successfully"))
        return out
    missed = [k for k in node_reads if k not in real and not k.isdigit()]
    for k in missed:
        names = [n for n, kk in prog["patterns"] if kk == k and J.DEFECTS.get(n) == "miss"]
        out.append((f"miss:{names[0]}" if names else "miss:unexplained",
                    f"field {k!r} of inputs is read but not in the dependency set {real}"))
    return out


class C31(Property):
    pid = "C31"
    title = "Expression dependency analysis covers every input an expression reads"
    lean_targets = ["SFV.Props.C31"]
    props_files = ["SFV/Props/C31.lean"]
    drivers = ["Drivers/C31.lean"]
    translators = []
    quick_budget_s = 400
    thorough_budget_s = 1800
    min_nontrivial = 50
    rule = ("JavaScript fragments are compositions of 22 handled and 13 defect access patterns (incl. counted `for` loops) (dot / quoted-bracket / computed "
            "access, aliasing by assignment / var initialiser / parenthesis / conditional / argument / return, nested function "
            "declarations and expressions, parameter shadowing, kills, conditionals, string literals mentioning inputs, reserved "
            "words), pretty-printed with random whitespace and quote style; every pattern alone first (corpus), then random "
            "compositions of 1..4 patterns. Each fragment runs through the REAL resolve_dependencies(full_js=True), the Lean "
            "listener model, node v20 with `inputs` behind a recording Proxy, and the Lean evaluator. Parameter references: random "
            "$(sym.seg...) with dot / quoted / numeric segments, both full_js settings, context keys inputs and self. Interpolated strings: 2-3 "
            "placeholders per string mixing parameter references and JavaScript in both orders (one shared resolver; deps = union). "
            "Non-trivial = distinct expression text.")
    trusted_base = [
        "modelled, not verified: the ANTLR ECMAScript grammar (the Lean listener works on the syntax tree of the generated "
        "fragment; the pretty-printer/parser round trip is exercised by comparing the real listener with the model on every case)",
        "node v20 as the reference semantics of JavaScript property reads (Proxy get/has/ownKeys traps); the Lean evaluator is "
        "compared with it on every generated fragment",
        "cwl_utils.expression.interpolate / param_re (routing of `$(...)` to regex_eval or eval) — exercised, not modelled",
    ]
    assumptions = [
        "the theorems are about the generated fragment (literals, identifiers, var, assignment, member/index access, +, ?:, calls, "
        "function declarations/expressions, return, if, counted for-loops); other JavaScript (while / for-in loops, object literals, try, this, "
        "arguments, "
        "Object.keys, JSON.stringify of inputs) is outside the model",
        "reads of an all-digit key on inputs (inputs[0]) are not counted as reads of a field",
    ]
    technique = ("Lean 4 soundness proof of the listener (abstract interpretation against a big-step evaluator with closures and a frame "
                 "heap) on a decidable fragment + negative witnesses + two-sided differential correspondence (real listener, node)")
    level_text = ("grade C (kernel): deps_sound_partial / deps_defined_partial prove, for every program of the decidable fragment "
                  "Frag.handled (direct dot/string-index access, aliasing by plain assignment, kills, conditionals, top-level function "
                  "declarations/expressions with parameter shadowing) and every terminating evaluation, reads ⊆ deps and no listener "
                  "exception; deps_defined proves at full strength that the listener never raises (after fix 254d061); paramref_sound for "
                  "parameter references; the soundness half is proved false on eight witnesses (known findings). The ANTLR grammar and JavaScript outside the fragment are validated differentially, not proved")
    level_note = ("Lean kernel, axioms within {propext, Classical.choice, Quot.sound}; the listener and evaluator models are hand-written and "
                  "compared on every run with the real resolve_dependencies and with node on generated fragments; the share of generated "
                  "cases inside the proved fragment is reported in the evidence")

    # ------------------------------------------------------------------------------------------
    def _programs(self, ctx: Ctx, n: int, first: bool):
        rng = ctx.rng
        progs = []
        if not first:
            return [("random", J.gen_program(rng, allow_defects=(i % 5 < 2))) for i in range(n)]
        # corpus: every pattern alone, twice (different keys / layouts), plus hand-written boundary shapes
        for nm in J.HANDLED + list(J.DEFECTS):
            for _ in range(2):
                progs.append(("corpus", J.gen_program(rng, True, [nm])))
        I = J.I
        hand = [
            ("body", [("ret", ("dot", ("dot", ("dot", I, "a"), "b"), "c"))], [("dot", "a")], ["dot"]),
            ("body", [("varDecl", "x"), ("assign", "x", I), ("assign", "x", ("num", 5)), ("ret", ("dot", ("ident", "x"), "a"))],
             [("dot", "a")], ["kill"]),
            ("body", [("assign", "inputs", ("num", 5)), ("ret", ("num", 1))], [], ["dot"]),
            ("paren", ("idx", I, ("str", "if")), [("index", "if")], ["index"]),
            ("body", [("varDecl", "x"), ("varDecl", "y"), ("assign", "x", ("paren", ("assign", "y", I))), ("ret", ("dot", ("ident", "y"), "b"))],
             [("alias", "b")], ["alias"]),
            ("body", [("ret", ("idx", I, ("str", "a"))), ("ret", ("dot", I, "b"))], [("index", "a"), ("dot", "b")], ["index"]),
        ]
        for kind, body, pats, order in hand:
            progs.append(("corpus", {"kind": kind, "body": body, "patterns": pats, "order": order}))
        for i in range(n):
            progs.append(("random", J.gen_program(rng, allow_defects=(i % 5 < 2))))
        return progs

    def explore(self, ctx: Ctx) -> None:
        from cwl_utils.sandboxjs import param_re

        # the plan is a sequence of rounds (programs, parameter references, interpolated strings); the first one carries the
        # corpus; thorough adds rounds only while less than 70 % of the budget is used (adaptive plan, recorded in the evidence)
        m = 2 if ctx.mode == "search" else 1
        plan = [(150 * m, 120, 50 * m)] if ctx.tier == "quick" else [(300 * m, 200, 60 * m)] * 10
        budget = self.quick_budget_s if ctx.tier == "quick" else self.thorough_budget_s
        acc = {"progs": 0, "handled": 0, "handled_ok": 0, "node_ok": 0}
        done = 0
        for k, (n, npref, nint) in enumerate(plan):
            if k > 0 and ctx.time_left() < 0.3 * budget:
                ctx.notes.append(f"adaptive plan: {len(plan) - k} of {len(plan)} rounds not run (70% of the budget used)")
                break
            self._round(ctx, param_re, acc, n, npref, nint, first=(k == 0))
            done += 1
        ctx.extra["rounds_planned"] = len(plan)
        ctx.extra["rounds_run"] = done
        ctx.extra["js_fragments"] = acc["progs"]
        ctx.extra["in_proved_fragment"] = acc["handled"]
        ctx.extra["in_proved_fragment_and_evaluated"] = acc["handled_ok"]
        ctx.extra["node_evaluated_ok"] = acc["node_ok"]
        if len(ctx.nontrivial) and acc["handled"] < 0.2 * acc["progs"]:
            ctx.notes.append("fewer than 20% of the generated fragments are inside the proved fragment")

    def _round(self, ctx: Ctx, param_re, acc: dict, n: int, npref: int, nint: int, first: bool) -> None:
        rng = ctx.rng
        progs = self._programs(ctx, n, first)
        texts, lines, routed = [], [], []
        for origin, p in progs:
            t = J.expression_text(p["kind"], p["body"], rng)
            texts.append(t)
            lines.append(J.program_line(J.as_program(p["kind"], p["body"])))
            routed.append(p["kind"] == "paren" and param_re.match(t[1:]) is not None)
        # parameter references
        prefs = []
        fixed = ["$(inputs.a.b)", "$(inputs['a'])", '$(inputs["a b"])', "$(inputs.a.length)", "$(inputs.length)", "$(inputs)",
                 "$(self.a)", "$(inputs[3])", "$(inputs.if)", "$(runtime.cores)"]
        fixed_meta = [("inputs", [("d", "a"), ("d", "b")]), ("inputs", [("k", "a")]), ("inputs", [("k", "a b")]),
                      ("inputs", [("d", "a"), ("d", "length")]), ("inputs", [("d", "length")]), ("inputs", []),
                      ("self", [("d", "a")]), ("inputs", [("x", 3)]), ("inputs", [("d", "if")]), ("runtime", [("d", "cores")])]
        if first:
            for t, (sym, segs) in zip(fixed, fixed_meta):
                prefs.append((t, sym, segs))
        for _ in range(npref):
            prefs.append(J.gen_paramref(rng))
        pref_items, pref_lines = [], []
        for t, sym, segs in prefs:
            for full_js in (False, True):
                for ck in ("inputs", "self"):
                    pref_items.append((t, full_js, ck))
                    pref_lines.append(J.paramref_line(ck, sym, segs))
        # ---- run everything ----
        real = real_deps(ctx, [(t, True, None) for t in texts] + pref_items)
        real_js, real_pref = real[:len(texts)], real[len(texts):]
        node = node_reads(ctx, [t[1:] for t in texts] + [t[1:] for t, _, _ in prefs])
        node_js, node_pref = node[:len(texts)], node[len(texts):]
        model = ctx.lean("Drivers/C31.lean", lines + pref_lines, timeout=900)
        model_js, model_pref = model[:len(lines)], model[len(lines):]
        # ---- JavaScript fragments ----
        n_handled = n_node_ok = n_handled_ok = 0
        for (origin, p), t, rt, r, nd, ml in zip(progs, texts, routed, real_js, node_js, model_js):
            mlist, mreads, handled = parse_model(ml)
            if origin == "corpus":
                ctx.corpus_replayed += 1
            bucket = "+".join(sorted(set(p["order"])))[:60] if origin == "corpus" else ("js-defect-mix" if any(n in J.DEFECTS for n in p["order"]) else "js-handled-mix")
            ctx.case({"expr": t, "real": r, "node": nd.get("reads"), "node_ok": nd["ok"], "model": mlist, "handled": handled},
                     ("js", t), bucket)
            n_handled += handled
            case = {"op": "js", "text": t, "kind": p["kind"], "body": p["body"], "patterns": p["patterns"], "order": p["order"]}
            # (i) model listener vs real listener (skipped when cwl_utils routes the text to regex_eval)
            if not rt:
                if r != mlist:
                    ctx.disagree("listener model vs resolve_dependencies", f"{t!r}: code {r}, Lean listener {mlist}", case)
            else:
                ctx.count("routed-to-regex_eval")
            # (ii) model evaluator vs node
            if nd["ok"]:
                n_node_ok += 1
                if mreads is None or sorted(nd["reads"]) != mreads:
                    ctx.disagree("evaluator model vs node", f"{t!r}: node reads {sorted(nd['reads'])}, Lean evaluator {mreads}", case)
                # (iii) the property on the real code
                fails = classify(p, r, nd["reads"])
                if handled:
                    n_handled_ok += 1
                    for key, detail in fails:
                        ctx.fail("handled-fragment:" + key, f"{t!r} is in the proved fragment, yet {detail}", case)
                else:
                    for key, detail in fails:
                        ctx.fail(key, f"{t!r}: {detail}", case)
                # (iv) the model's own verdict agrees with the theorem (sanity of the driver)
                if handled and (isinstance(mlist, str) or (mreads is not None and not set(mreads) <= set(mlist))):
                    ctx.disagree("model contradicts deps_sound_partial", f"{t!r}: handled, deps {mlist}, reads {mreads}", case)
            else:
                ctx.count("node-evaluation-failed")
        acc["progs"] += len(progs)
        acc["handled"] += n_handled
        acc["handled_ok"] += n_handled_ok
        acc["node_ok"] += n_node_ok
        # ---- witnesses outside the modelled syntax tree (real code and node only) ----
        extra = [("${var x; var y; x = y = inputs; return y.b;}", "miss:chained-assignment")] if first else []
        ex_real = real_deps(ctx, [(t, True, None) for t, _ in extra])
        ex_node = node_reads(ctx, [t[1:] for t, _ in extra])
        for (t, key), r, nd in zip(extra, ex_real, ex_node):
            ctx.case({"expr": t, "real": r, "node": nd.get("reads")}, ("extra", t), "extra-model")
            if nd["ok"] and (isinstance(r, str) or [k for k in nd["reads"] if k not in r]):
                ctx.fail(key, f"{t!r}: node reads {nd['reads']}, resolve_dependencies gives {r}",
                         {"op": "extra", "text": t, "key": key})
        # ---- interpolated strings: several placeholders share one resolver ----
        self._interpolated(ctx, param_re, nint, first)
        # ---- parameter references ----
        j = 0
        for i, (t, sym, segs) in enumerate(prefs):
            nd = node_pref[i]
            for full_js in (False, True):
                for ck in ("inputs", "self"):
                    r, ml = real_pref[j], model_pref[j]
                    j += 1
                    m = _dec(ml[3:]) if ml.startswith("ok:") else "BAD:" + ml
                    ctx.case({"paramref": t, "full_js": full_js, "context_key": ck, "real": r, "model": m},
                             ("pref", t, full_js, ck) if segs else None, "paramref")
                    case = {"op": "pref", "text": t, "sym": sym, "segs": segs, "full_js": full_js, "context_key": ck}
                    if r != m:
                        ctx.disagree("paramDeps model vs resolve_dependencies", f"{t!r} ck={ck} full_js={full_js}: code {r}, model {m}", case)
                    if ck == "inputs" and nd["ok"]:
                        if isinstance(r, str):
                            ctx.fail(f"paramref-crash:{r[4:]}", f"{t!r}: resolve_dependencies raises {r[4:]}", case)
                        else:
                            missed = [k for k in nd["reads"] if k not in r and not k.isdigit()]
                            if missed:
                                ctx.fail("paramref-miss", f"{t!r}: fields {missed} read, deps {r}", case)

    def _interpolated(self, ctx: Ctx, param_re, n: int, first: bool) -> None:
        rng = ctx.rng
        items = [J.gen_interpolated(rng, False, shape) for shape in (["ref", "js"], ["js", "ref"], ["js", "js"], ["ref", "js", "ref"],
                                                                     ["js", "ref", "js"], ["ref", "ref", "js"])] if first else []
        items += [J.gen_interpolated(rng, i % 4 == 0) for i in range(n)]
        real = real_deps(ctx, [(it["text"], True, None) for it in items])
        codes, spans = [], []
        for it in items:
            cs = J.interp_codes(it["parts"])
            spans.append((len(codes), len(codes) + len(cs)))
            codes += cs
        node = node_reads(ctx, codes)
        model = ctx.lean("Drivers/C31.lean", [J.interp_line("inputs", it["parts"]) for it in items], timeout=900)
        for it, r, (a, b), ml in zip(items, real, spans, model):
            mlist, mreads, handled = parse_model(ml)
            nds = node[a:b]
            ok = all(nd["ok"] for nd in nds)
            reads = sorted({k for nd in nds for k in nd["reads"]})
            routed = any(p[0] == "js" and p[1]["kind"] == "paren" and param_re.match(J.expression_text("paren", p[1]["body"])[1:])
                         for p in it["parts"])
            ctx.case({"string": it["text"], "real": r, "node": reads, "node_ok": ok, "model": mlist, "handled": handled},
                     ("interp", it["text"]), "interpolated:" + "+".join(p[0] for p in it["parts"]))
            case = {"op": "interp", "text": it["text"], "codes": J.interp_codes(it["parts"]), "patterns": it["patterns"], "order": it["order"]}
            if not routed and r != mlist:
                ctx.disagree("interpolated-string model vs resolve_dependencies", f"{it['text']!r}: code {r}, Lean model {mlist}", case)
            if ok:
                # (an all-digit key on `inputs` is not a field read: the model's parameter-reference walk does not record it)
                if not routed and (mreads is None or [k for k in reads if not k.isdigit()] != [k for k in mreads if not k.isdigit()]):
                    ctx.disagree("interpolated-string reads model vs node", f"{it['text']!r}: node {reads}, Lean {mreads}", case)
                for key, detail in classify(it, r, reads):
                    ctx.fail(("handled-fragment:" if handled else "") + key, f"{it['text']!r}: {detail}", case)

    def replay(self, ctx: Ctx, data) -> None:
        from streamflow.cwl.utils import resolve_dependencies

        r = data.get("replay") or {}
        t = r.get("text")
        if not t:
            return super().replay(ctx, data)
        print("expression:", t)
        if r.get("op") == "interp":
            try:
                real = sorted(resolve_dependencies(t, full_js=True))
            except BaseException as e:  # noqa: BLE001
                real = "EXC:" + type(e).__name__
            nds = J.node_reads(r["codes"])
            reads = sorted({k for nd in nds for k in nd["reads"]})
            print("real resolve_dependencies:", real, " node reads per placeholder:", [nd["reads"] for nd in nds])
            if all(nd["ok"] for nd in nds):
                for key, detail in classify({"patterns": [tuple(p) for p in r["patterns"]], "order": r["order"]}, real, reads):
                    ctx.fail(key, detail, r)
            return
        if r.get("op") == "extra":
            try:
                real = sorted(resolve_dependencies(t, full_js=True))
            except BaseException as e:  # noqa: BLE001
                real = "EXC:" + type(e).__name__
            nd = J.node_reads([t[1:]])[0]
            print("real resolve_dependencies:", real, " node:", nd)
            if nd["ok"] and (isinstance(real, str) or [k for k in nd["reads"] if k not in real]):
                ctx.fail(r["key"], "still fails", r)
            return
        if r.get("op") == "pref":
            try:
                real = sorted(resolve_dependencies(t, full_js=r["full_js"], context_key=r["context_key"]))
            except BaseException as e:  # noqa: BLE001
                real = "EXC:" + type(e).__name__
            print("real resolve_dependencies:", real)
            print("model:", ctx.lean("Drivers/C31.lean", [J.paramref_line(r["context_key"], r["sym"], [tuple(s) for s in r["segs"]])])[0])
            nd = J.node_reads([t[1:]])[0]
            print("node:", nd)
            if nd["ok"] and (isinstance(real, str) or [k for k in nd["reads"] if k not in real and not k.isdigit()]):
                ctx.fail("paramref", "still fails", r)
            return
        try:
            real = sorted(resolve_dependencies(t, full_js=True))
        except BaseException as e:  # noqa: BLE001
            real = "EXC:" + type(e).__name__
        nd = J.node_reads([t[1:]])[0]

        body = r["body"]
        ml = ctx.lean("Drivers/C31.lean", [J.program_line(J.as_program(r["kind"], body))])[0]
        print("real resolve_dependencies:", real)
        print("node (fields of inputs read):", nd)
        print("Lean model (listener, evaluator, in proved fragment):", parse_model(ml))
        if nd["ok"]:
            for key, detail in classify({"patterns": [tuple(p) for p in r["patterns"]], "order": r["order"]}, real, nd["reads"]):
                ctx.fail(key, detail, r)


PROPERTY = C31()
