"""C31 helpers: the generated JavaScript fragment (AST as tuples), pretty-printer, protocol encoder, generators
built from *access patterns*, and the node reference evaluation.

AST (mirrors lean/SFV/Model/JsDeps.lean `Js`):
  ("num", n) ("str", s) ("ident", x) ("dot", e, k) ("idx", e, i) ("paren", e) ("assign", x, e) ("bin", a, b)
  ("cond", c, a, b) ("call", f, [args]) ("fexpr", [ps], [stmts]) ("varDecl", x) ("varInit", x, e) ("ret", e)
  ("ite", c, [t], [e]) ("fdecl", f, [ps], [stmts]) ("loop", i, n, [stmts]) ; a statement list is a Python list.
"""
from __future__ import annotations

import json
import os
import random
import subprocess

from sfv.rt.hexs import hx

HERE = os.path.dirname(os.path.abspath(__file__))

# field names of the `inputs` object given to node
IDENT_KEYS = ["a", "b", "c", "foo", "par", "x_y", "out_dir", "n1", "length", "inputs"]
STRING_KEYS = ["a b", "a.b", "é", "x-y", "0k", "if", "class"]
RESERVED_KEYS = ["if", "class", "default", "in", "new", "this", "null", "true"]
ALL_KEYS = IDENT_KEYS + [k for k in STRING_KEYS if k not in IDENT_KEYS] + [k for k in RESERVED_KEYS if k not in STRING_KEYS]


# ------------------------------------------------------------------------------------------------
# printing
# ------------------------------------------------------------------------------------------------
PRIMARY = {"num", "str", "ident", "paren"}
MEMBER = PRIMARY | {"dot", "idx", "call"}
ADDITIVE = MEMBER | {"bin"}


class ShapeError(Exception):
    """the tree cannot be printed without adding parentheses (generator bug)"""


def _need(e, allowed, where):
    if e[0] not in allowed:
        raise ShapeError(f"{e[0]} not allowed as {where}")


def js_string(s: str, rng: random.Random | None = None) -> str:
    q = "'" if (rng is None or rng.random() < 0.5) else '"'
    if q in s:
        q = '"' if q == "'" else "'"
    assert q not in s and "\\" not in s and "\n" not in s
    return q + s + q


def pp_expr(e, rng=None) -> str:
    t = e[0]
    sp = (lambda: rng.choice(["", "", "", " ", "\n"])) if rng else (lambda: "")
    if t == "num":
        return str(e[1])
    if t == "str":
        return js_string(e[1], rng)
    if t == "ident":
        return e[1]
    if t == "dot":
        _need(e[1], MEMBER, "object of .")
        if e[1][0] == "num":
            raise ShapeError("number literal before '.'")
        return f"{pp_expr(e[1], rng)}{sp()}.{sp()}{e[2]}"
    if t == "idx":
        _need(e[1], MEMBER, "object of []")
        return f"{pp_expr(e[1], rng)}[{pp_expr(e[2], rng)}]"
    if t == "paren":
        return f"({pp_expr(e[1], rng)})"
    if t == "assign":
        if e[2][0] == "assign":
            # the ANTLR grammar parses `x = y = e` as `(x = y) = e`: outside the modelled tree
            raise ShapeError("chained assignment")
        return f"{e[1]} = {pp_expr(e[2], rng)}"
    if t == "bin":
        _need(e[1], ADDITIVE, "left operand")
        _need(e[2], MEMBER, "right operand")
        return f"{pp_expr(e[1], rng)} + {pp_expr(e[2], rng)}"
    if t == "cond":
        for i in (1, 2, 3):
            _need(e[i], ADDITIVE, "operand of ?:")
        return f"{pp_expr(e[1], rng)} ? {pp_expr(e[2], rng)} : {pp_expr(e[3], rng)}"
    if t == "call":
        _need(e[1], MEMBER, "callee")
        return f"{pp_expr(e[1], rng)}({', '.join(pp_expr(a, rng) for a in e[2])})"
    if t == "fexpr":
        return f"function({', '.join(e[1])}) {{{pp_stmts(e[2], rng)}}}"
    raise ShapeError(f"not an expression: {t}")


def _starts_with_function(e) -> bool:
    t = e[0]
    if t == "fexpr":
        return True
    if t in ("dot", "idx", "bin", "cond", "call"):
        return _starts_with_function(e[1])
    return False


def pp_stmts(stmts, rng=None) -> str:
    out = []
    for s in stmts:
        t = s[0]
        if t == "varDecl":
            out.append(f"var {s[1]};")
        elif t == "varInit":
            out.append(f"var {s[1]} = {pp_expr(s[2], rng)};")
        elif t == "ret":
            out.append(f"return {pp_expr(s[1], rng)};")
        elif t == "ite":
            out.append(f"if ({pp_expr(s[1], rng)}) {{{pp_stmts(s[2], rng)}}} else {{{pp_stmts(s[3], rng)}}}")
        elif t == "fdecl":
            out.append(f"function {s[1]}({', '.join(s[2])}) {{{pp_stmts(s[3], rng)}}}")
        elif t == "loop":
            out.append(f"for (var {s[1]} = 0; {s[1]} < {s[2]}; {s[1]}++) {{{pp_stmts(s[3], rng)}}}")
        else:
            if _starts_with_function(s):
                raise ShapeError("expression statement starting with `function`")
            out.append(pp_expr(s, rng) + ";")
    sep = " " if rng is None else rng.choice([" ", "\n", "  "])
    return sep.join(out)


# ------------------------------------------------------------------------------------------------
# protocol encoding (prefix form, see lean/Drivers/C31.lean)
# ------------------------------------------------------------------------------------------------
def enc_list(items) -> list[str]:
    out: list[str] = []
    for it in items:
        out.append("seq")
        out += enc(it)
    return out + ["skip"]


def enc(e) -> list[str]:
    t = e[0]
    if t == "num":
        return ["n", str(e[1])]
    if t == "str":
        return ["s", hx(e[1])]
    if t == "ident":
        return ["i", hx(e[1])]
    if t == "dot":
        return ["dot"] + enc(e[1]) + [hx(e[2])]
    if t == "idx":
        return ["idx"] + enc(e[1]) + enc(e[2])
    if t == "paren":
        return ["par"] + enc(e[1])
    if t == "assign":
        return ["asg", hx(e[1])] + enc(e[2])
    if t == "bin":
        return ["bin"] + enc(e[1]) + enc(e[2])
    if t == "cond":
        return ["cond"] + enc(e[1]) + enc(e[2]) + enc(e[3])
    if t == "call":
        return ["call"] + enc(e[1]) + enc_list(e[2])
    if t == "fexpr":
        return ["fx", str(len(e[1]))] + [hx(p) for p in e[1]] + enc_list(e[2])
    if t == "varDecl":
        return ["vd", hx(e[1])]
    if t == "varInit":
        return ["vi", hx(e[1])] + enc(e[2])
    if t == "ret":
        return ["ret"] + enc(e[1])
    if t == "ite":
        return ["ite"] + enc(e[1]) + enc_list(e[2]) + enc_list(e[3])
    if t == "fdecl":
        return ["fd", hx(e[1]), str(len(e[2]))] + [hx(p) for p in e[2]] + enc_list(e[3])
    if t == "loop":
        return ["loop", hx(e[1]), str(e[2])] + enc_list(e[3])
    raise ValueError(t)


def program_line(stmts) -> str:
    return "js " + " ".join(enc_list(stmts))


def expression_text(kind: str, body, rng=None) -> str:
    """kind 'paren': `$(expr)`; kind 'body': `${stmts}`"""
    if kind == "paren":
        return "$(" + pp_expr(body, rng) + ")"
    return "${" + pp_stmts(body, rng) + "}"


def as_program(kind: str, body):
    """the statement list cwl_utils builds: `$(e)` becomes `{return (e);}`"""
    if kind == "paren":
        return [("ret", ("paren", ("paren", body)))]
    return body


# ------------------------------------------------------------------------------------------------
# generator: programs are compositions of access patterns
# ------------------------------------------------------------------------------------------------
I = ("ident", "inputs")

# patterns the listener is expected to handle (sound) and patterns that are known defects
HANDLED = ["dot", "index", "alias", "alias-chain", "iife", "fdecl-direct", "shadow-inputs", "shadow-alias", "nested",
           "computed-on-value", "string-mention", "kill", "cond-expr", "if-stmt", "paren-value", "fexpr-param",
           "reserved-as-string-index", "numeric-index", "inner-kill", "nested-shadow", "loop-read", "loop-alias-before"]
DEFECTS = {
    "var-init-alias": "miss",          # var x = inputs; x.k
    "paren-object": "miss",            # (inputs).k
    "paren-alias": "miss",             # x = (inputs); x.k
    "cond-alias": "miss",              # x = c ? inputs : inputs; x.k
    "arg-alias": "miss",               # function f(p){return p.k;} f(inputs)
    "fdecl-local-alias": "miss",       # function f(){var l; l = inputs; return l.k;} f()
    "late-alias": "miss",              # var x; function f(){return x.k;} x = inputs; f()
    "untaken-kill": "miss",            # x = inputs; if (0) {x = y;} x.k
    "reserved-dot": "miss",            # inputs.if
    "returned-alias": "miss",          # function f(){return inputs;} f().k
    "loop-carried-alias": "miss",      # for(..){ if (y) {y.k} y = inputs; }
    "computed-index": "miss",          # inputs[kv]        (AttributeError before fix 254d061)
    "concat-index": "miss",            # inputs['a' + 'b'] (AttributeError before fix 254d061)
}
# patterns that made the listener crash before fix 254d061 (numeric-index, inner-kill are harmless now)
CRASHED_BEFORE_FIX = {"computed-index": "AttributeError", "numeric-index": "AttributeError", "concat-index": "AttributeError",
                      "inner-kill": "KeyError"}


class Gen:
    def __init__(self, rng: random.Random, allow_defects: bool):
        self.rng = rng
        self.allow_defects = allow_defects
        self.n = 0
        self.pre: list = []          # declarations / set-up statements (top of the program)
        self.uses: list = []         # (pattern, key-or-None, order)
        self.defect_keys: set[str] = set()
        self.handled_keys: set[str] = set()

    def fresh(self, p="v") -> str:
        self.n += 1
        return f"{p}{self.n}"

    def key(self, pool, defect: bool) -> str:
        # defect patterns get keys no other pattern uses, so that a missed key identifies its pattern
        for _ in range(50):
            k = self.rng.choice(pool)
            if defect and (k in self.handled_keys or k in self.defect_keys):
                continue
            if not defect and k in self.defect_keys:
                continue
            (self.defect_keys if defect else self.handled_keys).add(k)
            return k
        return None

    def chain(self, e, depth: int):
        """further accesses on a field value (at most 2 more levels)"""
        for _ in range(depth):
            k = self.rng.choice(IDENT_KEYS + STRING_KEYS)
            e = ("dot", e, k) if k in IDENT_KEYS and self.rng.random() < 0.6 else ("idx", e, ("str", k))
        return e

    def access(self, obj, k):
        """obj.k or obj['k'] on an alias name"""
        if k in IDENT_KEYS and k not in RESERVED_KEYS and self.rng.random() < 0.55:
            return ("dot", obj, k)
        return ("idx", obj, ("str", k))

    # each pattern returns (expr evaluating to a field value object or a primitive, kind) and appends to self.pre
    def pattern(self, name: str):
        rng = self.rng
        defect = name in DEFECTS or name in ("numeric-index", "inner-kill")
        pool = IDENT_KEYS + STRING_KEYS
        if name in ("reserved-dot",):
            pool = RESERVED_KEYS
        elif name in ("var-init-alias", "paren-object", "arg-alias", "fdecl-local-alias", "late-alias", "returned-alias",
                      "paren-alias", "cond-alias", "untaken-kill", "loop-carried-alias"):
            pool = IDENT_KEYS + STRING_KEYS
        k = self.key(pool, defect)
        if k is None:
            return None
        self.uses.append((name, k))
        if name == "dot":
            k2 = k if k in IDENT_KEYS else self.key(IDENT_KEYS, False) or "a"
            self.uses[-1] = (name, k2)
            return self.chain(("dot", I, k2), rng.randint(0, 2))
        if name in ("index", "reserved-as-string-index"):
            if name == "reserved-as-string-index":
                k = rng.choice(["if", "class"])
                self.handled_keys.add(k)
                self.uses[-1] = (name, k)
            return self.chain(("idx", I, ("str", k)), rng.randint(0, 2))
        if name == "alias":
            x = self.fresh("x")
            self.pre += [("varDecl", x), ("assign", x, I)]
            return self.access(("ident", x), k)
        if name == "alias-chain":
            x, y = self.fresh("x"), self.fresh("y")
            self.pre += [("varDecl", x), ("varDecl", y), ("assign", x, I), ("assign", y, ("ident", x))]
            return self.access(("ident", y), k)
        if name == "iife":
            return ("call", ("paren", ("fexpr", [], [("ret", self.access(I, k))])), [])
        if name == "fexpr-param":
            # a function *expression* whose parameter is called `inputs`, applied to a field value: the listener
            # over-approximates (no scope for function expressions)
            k0 = self.key(IDENT_KEYS, False) or "a"
            self.uses.append(("dot", k0))
            return ("call", ("paren", ("fexpr", ["inputs"], [("ret", self.access(I, k))])), [("dot", I, k0)])
        if name == "fdecl-direct":
            f, p = self.fresh("f"), self.fresh("p")
            self.pre.append(("fdecl", f, [p], [("ret", self.access(I, k))]))
            return ("call", ("ident", f), [("num", rng.randint(0, 9))])
        if name == "shadow-inputs":
            # parameter named `inputs` shadows: the call passes a field value, nothing of it is a read of `inputs`
            f = self.fresh("f")
            k0 = self.key(IDENT_KEYS, False) or "a"
            self.uses[-1] = ("dot", k0)
            self.pre.append(("fdecl", f, ["inputs"], [("ret", self.access(I, k))]))
            self.handled_keys.discard(k)
            return ("call", ("ident", f), [("dot", I, k0)])
        if name == "shadow-alias":
            f, x = self.fresh("f"), self.fresh("x")
            k0 = self.key(IDENT_KEYS, False) or "a"
            self.uses[-1] = ("dot", k0)
            self.pre += [("varDecl", x), ("assign", x, I), ("fdecl", f, [x], [("ret", self.access(("ident", x), k))])]
            self.handled_keys.discard(k)
            return ("call", ("ident", f), [("dot", I, k0)])
        if name == "loop-read":
            # direct reads inside a counted loop, the loop index used as a computed index on a field value
            i, t = self.fresh("i"), self.fresh("t")
            k0 = self.key(IDENT_KEYS, False) or "a"
            self.uses.append(("dot", k0))
            self.pre += [("varDecl", t), ("loop", i, rng.randint(0, 3), [("assign", t, self.access(I, k)),
                                                                         ("idx", ("dot", I, k0), ("ident", i))])]
            return ("dot", I, k0)
        if name == "loop-alias-before":
            # alias established before the loop, used inside it
            i, x = self.fresh("i"), self.fresh("x")
            self.pre += [("varDecl", x), ("assign", x, I), ("loop", i, rng.randint(1, 3), [self.access(("ident", x), k)])]
            return ("num", 0)
        if name == "loop-carried-alias":
            i, y, t = self.fresh("i"), self.fresh("y"), self.fresh("t")
            self.pre += [("varDecl", y), ("varDecl", t),
                         ("loop", i, 2, [("ite", ("ident", y), [("assign", t, self.access(("ident", y), k))], []), ("assign", y, I)])]
            return ("num", 0)
        if name == "nested-shadow":
            # a function declared INSIDE another function shadows `inputs` (or an alias) with a parameter; the outer function
            # reads inputs afterwards: the shadowing must end with the inner declaration
            outer, pick, n, t = self.fresh("outer"), self.fresh("pick"), self.fresh("n"), self.fresh("t")
            k0 = self.key(IDENT_KEYS, False) or "a"
            kz = self.key(IDENT_KEYS, False) or "b"
            self.uses.append(("dot", k0))
            self.handled_keys.discard(kz)
            if rng.random() < 0.5:
                shadowed, obj, pre = "inputs", I, []
            else:
                shadowed = self.fresh("x")
                obj, pre = ("ident", shadowed), [("varDecl", shadowed), ("assign", shadowed, I)]
            self.pre += pre + [("fdecl", outer, [n], [
                ("fdecl", pick, [shadowed], [("ret", self.access(("ident", shadowed), kz))]),
                ("varInit", t, ("call", ("ident", pick), [("dot", I, k0)])),
                ("ret", self.access(obj, k))])]
            return ("call", ("ident", outer), [("num", rng.randint(0, 9))])
        if name == "nested":
            k0 = self.key(IDENT_KEYS, False) or "a"
            self.uses.append(("dot", k0))
            return ("idx", ("dot", I, k0), ("str", k))
        if name == "computed-on-value":
            k0 = self.key(IDENT_KEYS, False) or "a"
            self.uses.append(("dot", k0))
            kv = self.fresh("k")
            self.pre.append(("varInit", kv, ("str", rng.choice(IDENT_KEYS))))
            return ("idx", ("dot", I, k0), rng.choice([("ident", kv), self.access(I, k), ("num", rng.randint(0, 3))]))
        if name == "string-mention":
            self.handled_keys.discard(k)
            self.uses.pop()
            return ("bin", ("str", rng.choice(["inputs.zzz", "inputs['qq']", "$(inputs.w)", "x = inputs"])), ("num", 1))
        if name == "kill":
            x, y = self.fresh("x"), self.fresh("y")
            k0 = self.key(IDENT_KEYS, False) or "a"
            self.uses[-1] = ("dot", k0)
            self.handled_keys.discard(k)
            self.pre += [("varDecl", x), ("varInit", y, ("dot", I, k0)), ("assign", x, I), ("assign", x, ("ident", y))]
            return self.access(("ident", x), k)
        if name == "cond-expr":
            k1, k2 = self.key(IDENT_KEYS, False) or "a", self.key(IDENT_KEYS, False) or "b"
            self.uses += [("dot", k1), ("dot", k2)]
            return ("paren", ("cond", self.access(I, k), ("dot", I, k1), ("dot", I, k2)))
        if name == "if-stmt":
            t = self.fresh("t")
            k1 = self.key(IDENT_KEYS, False) or "a"
            self.uses.append(("dot", k1))
            self.pre += [("varDecl", t), ("ite", self.access(I, k), [("assign", t, ("dot", I, k1))], [("assign", t, ("num", 0))])]
            return ("ident", t)
        if name == "paren-value":
            return ("paren", self.access(I, k))
        # ---- defects -------------------------------------------------------------------------
        if name == "var-init-alias":
            x = self.fresh("x")
            self.pre.append(("varInit", x, I))
            return self.access(("ident", x), k)
        if name == "paren-object":
            return self.access(("paren", I), k)
        if name == "paren-alias":
            x = self.fresh("x")
            self.pre += [("varDecl", x), ("assign", x, ("paren", I))]
            return self.access(("ident", x), k)
        if name == "cond-alias":
            x = self.fresh("x")
            self.pre += [("varDecl", x), ("assign", x, ("cond", ("num", 1), I, I))]
            return self.access(("ident", x), k)
        if name == "arg-alias":
            f, p = self.fresh("f"), self.fresh("p")
            self.pre.append(("fdecl", f, [p], [("ret", self.access(("ident", p), k))]))
            return ("call", ("ident", f), [I])
        if name == "fdecl-local-alias":
            f, l = self.fresh("f"), self.fresh("l")
            self.pre.append(("fdecl", f, [], [("varDecl", l), ("assign", l, I), ("ret", self.access(("ident", l), k))]))
            return ("call", ("ident", f), [])
        if name == "late-alias":
            f, x = self.fresh("f"), self.fresh("x")
            self.pre += [("varDecl", x), ("fdecl", f, [], [("ret", self.access(("ident", x), k))]), ("assign", x, I)]
            return ("call", ("ident", f), [])
        if name == "untaken-kill":
            x, y = self.fresh("x"), self.fresh("y")
            self.pre += [("varDecl", x), ("varInit", y, ("num", 1)), ("assign", x, I),
                         ("ite", ("num", 0), [("assign", x, ("ident", y))], [])]
            return self.access(("ident", x), k)
        if name == "reserved-dot":
            return ("dot", I, k)
        if name == "returned-alias":
            f = self.fresh("f")
            self.pre.append(("fdecl", f, [], [("ret", I)]))
            return self.access(("call", ("ident", f), []), k)
        if name == "computed-index":
            kv = self.fresh("k")
            self.pre.append(("varInit", kv, ("str", k)))
            return ("idx", I, ("ident", kv))
        if name == "numeric-index":
            self.uses[-1] = (name, None)
            self.defect_keys.discard(k)
            return ("idx", I, ("num", rng.randint(0, 3)))
        if name == "concat-index":
            if len(k) < 2:
                k = k + "z"
                self.uses[-1] = (name, k)
            return ("idx", I, ("bin", ("str", k[:1]), ("str", k[1:])))
        if name == "inner-kill":
            f, x, y = self.fresh("f"), self.fresh("x"), self.fresh("y")
            self.uses[-1] = (name, None)
            self.defect_keys.discard(k)
            self.pre += [("varDecl", x), ("varDecl", y), ("assign", x, I),
                         ("fdecl", f, [], [("assign", x, ("ident", y))])]
            return ("num", 0)
        raise ValueError(name)


def gen_program(rng: random.Random, allow_defects: bool, force: list[str] | None = None):
    """returns dict(kind, body, patterns=[(name,key)], defects=[names in source order])"""
    g = Gen(rng, allow_defects)
    names = list(force or [])
    if not names:
        for _ in range(rng.randint(1, 4)):
            if allow_defects and rng.random() < 0.3:
                names.append(rng.choice(list(DEFECTS)))
            else:
                names.append(rng.choice(HANDLED))
    exprs = []
    for nm in names:
        e = g.pattern(nm)
        if e is not None:
            exprs.append((nm, e))
    if not exprs:
        exprs.append(("dot", g.pattern("dot")))
    # single direct expression -> `$(...)` form now and then
    if len(exprs) == 1 and not g.pre and rng.random() < 0.6:
        return {"kind": "paren", "body": exprs[0][1], "patterns": g.uses, "order": [n for n, _ in exprs]}
    stmts = list(g.pre)
    junk = g.fresh("r")
    stmts.insert(0, ("varDecl", junk))
    for nm, e in exprs[:-1]:
        how = rng.random()
        if how < 0.4:
            stmts.append(("assign", junk, e))
        elif how < 0.7:
            stmts.append(("varInit", g.fresh("w"), e))
        elif e[0] in PRIMARY | {"dot", "idx", "call", "bin"}:
            stmts.append(e)
        else:
            stmts.append(("assign", junk, e))
    stmts.append(("ret", exprs[-1][1]))
    return {"kind": "body", "body": stmts, "patterns": g.uses, "order": [n for n, _ in exprs]}


# ------------------------------------------------------------------------------------------------
# parameter references
# ------------------------------------------------------------------------------------------------
def gen_paramref(rng: random.Random):
    """(text, context symbol, segments [(kind, value)]) for `$(sym.seg…)`"""
    sym = rng.choice(["inputs"] * 6 + ["self", "runtime"])
    segs = []
    for i in range(rng.randint(0, 4)):
        r = rng.random()
        if r < 0.5:
            segs.append(("d", rng.choice(IDENT_KEYS + ["length", "cores", "if"])))
        elif r < 0.85:
            segs.append(("k", rng.choice(IDENT_KEYS + STRING_KEYS + ["it's", 'q"t'])))
        else:
            segs.append(("x", rng.randint(0, 12)))
    text = sym
    for kind, v in segs:
        if kind == "d":
            text += "." + v
        elif kind == "k":
            if "'" in v:
                text += '["' + v + '"]' if rng.random() < 0.5 else "['" + v.replace("'", "\\'") + "']"
            elif '"' in v:
                text += "['" + v + "']" if rng.random() < 0.5 else '["' + v.replace('"', '\\"') + '"]'
            else:
                text += rng.choice(["['" + v + "']", '["' + v + '"]'])
        else:
            text += f"[{v}]"
    return "$(" + text + ")", sym, segs


def paramref_line(context_key: str, sym: str, segs) -> str:
    toks = ["pref", hx(context_key), hx(sym)]
    for kind, v in segs:
        toks += [kind, hx(v) if kind != "x" else str(v)]
    return " ".join(toks)


# ------------------------------------------------------------------------------------------------
# node
# ------------------------------------------------------------------------------------------------
def node_reads(codes: list[str], timeout: float = 120) -> list[dict]:
    """evaluate `codes` (text after the `$`) with node; [{ok, reads, error}]"""
    if not codes:
        return []
    payload = json.dumps([{"id": i, "code": c} for i, c in enumerate(codes)])
    p = subprocess.run(["node", os.path.join(HERE, "jsreads.js"), json.dumps(ALL_KEYS)], input=payload,
                       capture_output=True, text=True, timeout=timeout)
    if p.returncode != 0:
        raise RuntimeError(f"node failed: {p.stderr[-500:]}")
    res = json.loads(p.stdout)
    res.sort(key=lambda r: r["id"])
    return res


# ------------------------------------------------------------------------------------------------
# interpolated strings: several placeholders in one string
# ------------------------------------------------------------------------------------------------
def gen_interpolated(rng: random.Random, allow_defects: bool, shape=None):
    """a string with 2-3 placeholders mixing parameter references and JavaScript (both orders).
    returns dict(text, parts=[("ref", text, sym, segs) | ("js", prog dict)], patterns, order)"""
    shape = shape or [rng.choice(["ref", "js"]) for _ in range(rng.randint(2, 3))]
    if "js" not in shape:
        shape[rng.randrange(len(shape))] = "js"
    parts, patterns, order, pieces = [], [], [], [rng.choice(["", "pre-", "a "])]
    for kind in shape:
        if kind == "ref":
            t, sym, segs = gen_paramref(rng)
            segs = [sg for sg in segs if not (sg[0] == "k" and ("'" in sg[1] or '"' in sg[1]))]
            text = sym + "".join("." + v if kd == "d" else (f"[{v}]" if kd == "x" else "['" + v + "']") for kd, v in segs)
            parts.append(("ref", "$(" + text + ")", sym, segs))
            pieces.append("$(" + text + ")")
        else:
            names = [rng.choice(list(DEFECTS))] if (allow_defects and rng.random() < 0.3) else [rng.choice(HANDLED)]
            p = gen_program(rng, allow_defects, names)
            parts.append(("js", p))
            patterns += p["patterns"]
            order += p["order"]
            pieces.append(expression_text(p["kind"], p["body"], rng))
        pieces.append(rng.choice(["", "_", " mid ", ".txt", "-"]))
    return {"text": "".join(pieces), "parts": parts, "patterns": patterns, "order": order}


def interp_line(context_key: str, parts) -> str:
    toks = ["interp", hx(context_key)]
    for i, p in enumerate(parts):
        if i:
            toks.append("|")
        if p[0] == "ref":
            toks += ["R", hx(p[2])]
            for kind, v in p[3]:
                toks += [kind, hx(v) if kind != "x" else str(v)]
        else:
            toks += ["J"] + enc_list(as_program(p[1]["kind"], p[1]["body"]))
    return " ".join(toks)


def interp_codes(parts) -> list[str]:
    """the text after `$` of every placeholder, for the node-side evaluation"""
    return [(p[1][1:] if p[0] == "ref" else expression_text(p[1]["kind"], p[1]["body"])[1:]) for p in parts]
