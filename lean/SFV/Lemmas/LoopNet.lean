import SFV.Model.LoopNet
/-! Helper definitions and lemmas for the loop sub-network of `SFV/Model/LoopNet.lean` (C04, `loop_terminates`):
the closed form `Net.loopLast` satisfies the loop recursion, `lastOf` picks the item with the largest index, the
per-instance invariant, progress, a termination measure and the value of the loop output. -/
namespace SFV.LoopNet

/-! ## Arithmetic: the closed form `Net.loopLast` -/

theorem ediv_eq_one_of_le {x k : Int} (hk : 0 < k) (h1 : k ≤ x) (h2 : x < 2 * k) : x / k = 1 := by
  have h3 := Int.mul_ediv_self_le (x := x) (k := k) (by omega)
  rw [Int.mul_comm] at h3
  have h4 := Int.lt_ediv_add_one_mul_self x hk
  have e1 : (x / k + 1) * k = x / k * k + k := by rw [Int.add_mul, Int.one_mul]
  rw [e1] at h4
  have hq : 0 ≤ x / k := Int.ediv_nonneg (by omega) (by omega)
  -- `q * k` with `q = x / k`: exclude `q = 0` and `q ≥ 2`
  generalize x / k = q at *
  rcases Int.lt_trichotomy q 1 with h | h | h
  · have : q = 0 := by omega
    subst this; simp at h4; omega
  · exact h
  · exfalso
    have : 2 * k ≤ q * k := Int.mul_le_mul_of_nonneg_right (by omega) (by omega)
    omega

/-- the closed form satisfies the loop recursion `while c < l: c += k` -/
theorem loopLast_unfold' (c l : Int) (k : Nat) (hk : 0 < k) :
    SFV.Net.loopLast c l k = if c < l then SFV.Net.loopLast (c + k) l k else c := by
  have hk' : (0 : Int) < (k : Int) := by omega
  by_cases hcl : c < l
  · rw [if_pos hcl]
    by_cases h2 : c + (k : Int) < l
    · simp only [SFV.Net.loopLast, hcl, hk, h2, and_self, if_true]
      have e : l - c + (k : Int) - 1 = (l - (c + (k : Int)) + (k : Int) - 1) + 1 * (k : Int) := by omega
      rw [e, Int.add_mul_ediv_right _ _ (by omega), Int.mul_add, Int.mul_one]
      omega
    · simp only [SFV.Net.loopLast, hcl, hk, h2, and_self, if_true, false_and, if_false]
      rw [ediv_eq_one_of_le hk' (by omega) (by omega)]
      omega
  · rw [if_neg hcl]
    simp only [SFV.Net.loopLast, hcl, false_and, if_false]

/-- the value of the counter after `i` executions of the body -/
def val (k : Nat) (c0 : Int) (i : Nat) : Int := c0 + (i : Int) * (k : Int)

theorem val_zero (k : Nat) (c0 : Int) : val k c0 0 = c0 := by simp [val]

theorem val_succ (k : Nat) (c0 : Int) (i : Nat) : val k c0 (i + 1) = val k c0 i + (k : Int) := by
  simp only [val, Int.natCast_add, Int.add_mul]; omega

theorem val_shift (k : Nat) (c0 : Int) (i : Nat) : val k (c0 + (k : Int)) i = val k c0 (i + 1) := by
  simp only [val, Int.natCast_add, Int.add_mul]; omega

/-- `n` iterations whose conditions held, then a failed condition: the closed form is the counter after `n` bodies -/
theorem loopLast_iter (k : Nat) (hk : 0 < k) (l : Int) (n : Nat) (c0 : Int)
    (hlt : ∀ i, i < n → val k c0 i < l) (hge : ¬ val k c0 n < l) : SFV.Net.loopLast c0 l k = val k c0 n := by
  induction n generalizing c0 with
  | zero =>
    rw [loopLast_unfold' c0 l k hk]
    rw [val_zero] at hge
    rw [if_neg hge, val_zero]
  | succ n ih =>
    rw [loopLast_unfold' c0 l k hk]
    have h0 := hlt 0 (by omega)
    rw [val_zero] at h0
    rw [if_pos h0, ih (c0 + (k : Int)), val_shift]
    · intro i hi
      rw [val_shift]; exact hlt (i + 1) (by omega)
    · rw [val_shift]; exact hge

/-! ## `lastOf`: the item with the largest index -/

/-- the choice function folded by `lastOf` -/
def pick (best : Option (Nat × Int)) (x : Nat × Int) : Option (Nat × Int) :=
  match best with
  | none => some x
  | some b => if b.1 ≤ x.1 then some x else some b

theorem lastOf_eq (l : List (Nat × Int)) : lastOf l = (l.foldl pick none).map (·.2) := rfl

theorem foldl_pick_some (b : Nat × Int) (l : List (Nat × Int)) :
    ∃ r, l.foldl pick (some b) = some r ∧ (r = b ∨ r ∈ l) ∧ b.1 ≤ r.1 ∧ ∀ x ∈ l, x.1 ≤ r.1 := by
  induction l generalizing b with
  | nil => exact ⟨b, rfl, Or.inl rfl, Nat.le_refl _, by simp⟩
  | cons a l ih =>
    simp only [List.foldl_cons, pick]
    by_cases h : b.1 ≤ a.1
    · rw [if_pos h]
      obtain ⟨r, hr, hm, hle, hall⟩ := ih a
      refine ⟨r, hr, ?_, by omega, ?_⟩
      · rcases hm with hm | hm
        · exact Or.inr (by simp [hm])
        · exact Or.inr (by simp [hm])
      · intro x hx
        rcases List.mem_cons.mp hx with hx | hx
        · subst hx; exact hle
        · exact hall x hx
    · rw [if_neg h]
      obtain ⟨r, hr, hm, hle, hall⟩ := ih b
      refine ⟨r, hr, ?_, hle, ?_⟩
      · rcases hm with hm | hm
        · exact Or.inl hm
        · exact Or.inr (by simp [hm])
      · intro x hx
        rcases List.mem_cons.mp hx with hx | hx
        · subst hx; omega
        · exact hall x hx

theorem lastOf_nil : lastOf [] = none := rfl

/-- on a non-empty list `lastOf` returns the value of a member whose index is maximal -/
theorem lastOf_cons (a : Nat × Int) (l : List (Nat × Int)) :
    ∃ r, lastOf (a :: l) = some r.2 ∧ r ∈ a :: l ∧ ∀ x ∈ a :: l, x.1 ≤ r.1 := by
  obtain ⟨r, hr, hm, hle, hall⟩ := foldl_pick_some a l
  refine ⟨r, ?_, ?_, ?_⟩
  · rw [lastOf_eq]
    show (List.foldl pick (pick none a) l).map (·.2) = some r.2
    simp only [pick, hr, Option.map_some]
  · rcases hm with hm | hm
    · simp [hm]
    · simp [hm]
  · intro x hx
    rcases List.mem_cons.mp hx with hx | hx
    · subst hx; exact hle
    · exact hall x hx

/-- the body outputs `0 .. n-1` of an instance started at `c0` -/
def outs (k : Nat) (c0 : Int) (n : Nat) : List (Nat × Int) := (List.range n).map (fun i => (i, val k c0 (i + 1)))

theorem mem_outs {k : Nat} {c0 : Int} {n : Nat} {t : Nat × Int} :
    t ∈ outs k c0 n ↔ t.1 < n ∧ t.2 = val k c0 (t.1 + 1) := by
  simp only [outs, List.mem_map, List.mem_range]
  constructor
  · rintro ⟨i, hi, rfl⟩; exact ⟨hi, rfl⟩
  · rintro ⟨h1, h2⟩; exact ⟨t.1, h1, by rw [← h2]⟩

theorem outs_succ (k : Nat) (c0 : Int) (n : Nat) : outs k c0 (n + 1) = outs k c0 n ++ [(n, val k c0 (n + 1))] := by
  simp [outs, List.range_succ]

theorem outs_length (k : Nat) (c0 : Int) (n : Nat) : (outs k c0 n).length = n := by simp [outs]

/-- order independence: whatever the order in which the body outputs `0 .. n-1` were collected, `lastOf` is the
value of the last iteration -/
theorem lastOf_perm_outs {k : Nat} {c0 : Int} {n : Nat} {l : List (Nat × Int)} (hp : l.Perm (outs k c0 n)) :
    lastOf l = if n = 0 then none else some (val k c0 n) := by
  cases l with
  | nil =>
    have := hp.length_eq
    rw [outs_length] at this
    simp at this
    subst this; rfl
  | cons a l =>
    have hlen := hp.length_eq
    rw [outs_length] at hlen
    simp at hlen
    have hn : n ≠ 0 := by omega
    rw [if_neg hn]
    obtain ⟨r, hr, hm, hall⟩ := lastOf_cons a l
    rw [hr]
    have hr' := (mem_outs.mp (hp.mem_iff.mp hm))
    have hlast : ((n - 1, val k c0 (n - 1 + 1)) : Nat × Int) ∈ a :: l :=
      hp.mem_iff.mpr (mem_outs.mpr ⟨by show n - 1 < n; omega, rfl⟩)
    have := hall _ hlast
    have e : r.1 + 1 = n := by simp at this; omega
    rw [hr'.2, e]

/-! ## The per-instance invariant -/

/-- the number of body executions the instance has completed -/
def done (x : Inst) : Nat :=
  match x.phase with
  | .atComb _ => x.iters
  | _ => x.iters - 1

/-- what holds of an instance started with the input `(c0, l)`: the counter at every stage is `c0 + bodies * k`, the
body outputs in flight or collected are exactly `(i, c0 + (i+1) k)` for the completed bodies `i`, every executed body
saw a true condition, and `count` / `emitted` are only set after the exit -/
structure InstInv (k : Nat) (c0 l : Int) (x : Inst) : Prop where
  limit : x.limit = l
  items : (x.inflight ++ x.collected).Perm (outs k c0 (done x))
  below : ∀ i, i < done x → val k c0 i < l
  phase : match x.phase with
    | .atComb c => c = val k c0 x.iters ∧ x.count = none ∧ x.emitted = none
    | .atCond i c => x.iters = i + 1 ∧ c = val k c0 i ∧ x.count = none ∧ x.emitted = none
    | .atBody i c => x.iters = i + 1 ∧ c = val k c0 i ∧ c < l ∧ x.count = none ∧ x.emitted = none
    | .exited => 1 ≤ x.iters ∧ x.count = some (x.iters - 1) ∧ ¬ val k c0 (x.iters - 1) < l ∧
        ∀ v, x.emitted = some v → x.inflight = [] ∧ v = lastOf x.collected

theorem instInv_init (k : Nat) (c0 l : Int) : InstInv k c0 l (initInst c0 l) :=
  ⟨rfl, by simp [initInst, done, outs], by simp [initInst, done], by simp [initInst, val]⟩

theorem perm_eraseIdx {α : Type} {l : List α} {j : Nat} {t : α} (h : l[j]? = some t) :
    l.Perm (t :: l.eraseIdx j) := by
  induction l generalizing j with
  | nil => simp at h
  | cons a l ih =>
    cases j with
    | zero => simp at h; subst h; simp
    | succ j =>
      simp at h
      simp only [List.eraseIdx_cons_succ]
      exact ((ih h).cons a).trans (List.Perm.swap t a _)

theorem instInv_combine {k : Nat} {c0 l : Int} {x x' : Inst} {p : Nat} (h : InstInv k c0 l x)
    (hs : stepInst k x (.combine p) = some x') : InstInv k c0 l x' := by
  obtain ⟨hl, hi, hb, hp⟩ := h
  simp only [stepInst] at hs
  split at hs
  · next c heq =>
    cases hs
    rw [heq] at hp
    simp only [done, heq] at hi hb
    exact ⟨hl, by simpa [done] using hi, by simpa [done] using hb, by simpa using hp⟩
  · cases hs

theorem instInv_eval {k : Nat} {c0 l : Int} {x x' : Inst} {p : Nat} (h : InstInv k c0 l x)
    (hs : stepInst k x (.eval p) = some x') : InstInv k c0 l x' := by
  obtain ⟨hl, hi, hb, hp⟩ := h
  simp only [stepInst] at hs
  split at hs
  · next i c heq =>
    rw [heq] at hp
    simp only [done, heq] at hi hb
    obtain ⟨h1, h2, h3, h4⟩ := hp
    split at hs
    · next hc =>
      cases hs
      refine ⟨hl, by simpa [done] using hi, by simpa [done] using hb, ?_⟩
      simp only
      exact ⟨h1, h2, by omega, h3, h4⟩
    · next hc =>
      cases hs
      refine ⟨hl, by simpa [done] using hi, by simpa [done] using hb, ?_⟩
      simp only
      refine ⟨by omega, by rw [h1]; rfl, ?_, ?_⟩
      · rw [h1]; show ¬ val k c0 i < l; rw [← h2]; omega
      · intro v hv; rw [h4] at hv; cases hv
  · cases hs

theorem instInv_body {k : Nat} {c0 l : Int} {x x' : Inst} {p : Nat} (h : InstInv k c0 l x)
    (hs : stepInst k x (.body p) = some x') : InstInv k c0 l x' := by
  obtain ⟨hl, hi, hb, hp⟩ := h
  simp only [stepInst] at hs
  split at hs
  · next i c heq =>
    cases hs
    rw [heq] at hp
    simp only [done, heq] at hi hb
    obtain ⟨h1, h2, h3, h4, h5⟩ := hp
    have hd : x.iters - 1 = i := by omega
    rw [hd] at hi hb
    refine ⟨hl, ?_, ?_, ?_⟩
    · simp only [done, h1, outs_succ]
      rw [val_succ, ← h2]
      have e : (x.inflight ++ [(i, c + (k : Int))]) ++ x.collected = x.inflight ++ (i, c + (k : Int)) :: x.collected := by
        simp
      rw [e]
      exact List.perm_middle.trans ((List.perm_append_singleton _ _).symm.trans (hi.append_right _))
    · simp only [done, h1]
      intro j hj
      by_cases hji : j < i
      · exact hb j hji
      · have : j = i := by omega
        subst this; rw [← h2]; exact h3
    · simp only
      exact ⟨by rw [h1, val_succ, h2], h4, h5⟩
  · cases hs

theorem instInv_deliver {k : Nat} {c0 l : Int} {x x' : Inst} {p j : Nat} (h : InstInv k c0 l x)
    (hs : stepInst k x (.deliver p j) = some x') : InstInv k c0 l x' := by
  obtain ⟨hl, hi, hb, hp⟩ := h
  simp only [stepInst] at hs
  split at hs
  · next t heq =>
    cases hs
    have hne : x.inflight ≠ [] := by intro h0; rw [h0] at heq; simp at heq
    refine ⟨hl, ?_, hb, ?_⟩
    · show (x.inflight.eraseIdx j ++ (x.collected ++ [t])).Perm (outs k c0 (done x))
      refine List.Perm.trans ?_ hi
      rw [← List.append_assoc]
      refine (List.perm_append_singleton _ _).trans ?_
      exact ((perm_eraseIdx heq).append_right x.collected).symm
    · revert hp
      show (match x.phase with
        | .atComb c => c = val k c0 x.iters ∧ x.count = none ∧ x.emitted = none
        | .atCond i c => x.iters = i + 1 ∧ c = val k c0 i ∧ x.count = none ∧ x.emitted = none
        | .atBody i c => x.iters = i + 1 ∧ c = val k c0 i ∧ c < l ∧ x.count = none ∧ x.emitted = none
        | .exited => 1 ≤ x.iters ∧ x.count = some (x.iters - 1) ∧ ¬ val k c0 (x.iters - 1) < l ∧
            ∀ v, x.emitted = some v → x.inflight = [] ∧ v = lastOf x.collected) → _
      cases hph : x.phase with
      | atComb c => exact id
      | atCond i c => exact id
      | atBody i c => exact id
      | exited =>
        simp only
        intro ⟨h1, h2, h3, h4⟩
        refine ⟨h1, h2, h3, ?_⟩
        intro v hv
        exact absurd (h4 v hv).1 hne
  · cases hs

theorem instInv_emit {k : Nat} {c0 l : Int} {x x' : Inst} {p : Nat} (h : InstInv k c0 l x)
    (hs : stepInst k x (.emit p) = some x') : InstInv k c0 l x' := by
  obtain ⟨hl, hi, hb, hp⟩ := h
  simp only [stepInst] at hs
  split at hs
  · next n hc he =>
    split at hs
    · next hlen =>
      cases hs
      refine ⟨hl, hi, hb, ?_⟩
      revert hp
      cases hph : x.phase with
      | atComb c => simp only; intro hp; rw [hp.2.1] at hc; cases hc
      | atCond i c => simp only; intro hp; rw [hp.2.2.1] at hc; cases hc
      | atBody i c => simp only; intro hp; rw [hp.2.2.2.1] at hc; cases hc
      | exited =>
        simp only [done, hph] at hi
        simp only
        intro ⟨h1, h2, h3, _⟩
        refine ⟨h1, h2, h3, ?_⟩
        intro v hv
        cases hv
        refine ⟨?_, rfl⟩
        have hlen2 := hi.length_eq
        rw [outs_length, List.length_append] at hlen2
        rw [h2] at hc
        cases hc
        have : x.inflight.length = 0 := by omega
        exact List.eq_nil_of_length_eq_zero this
    · cases hs
  · cases hs

theorem instInv_step {k : Nat} {c0 l : Int} {x x' : Inst} {a : Act} (h : InstInv k c0 l x)
    (hs : stepInst k x a = some x') : InstInv k c0 l x' := by
  cases a with
  | combine p => exact instInv_combine h hs
  | eval p => exact instInv_eval h hs
  | body p => exact instInv_body h hs
  | deliver p j => exact instInv_deliver h hs
  | emit p => exact instInv_emit h hs

/-- an instance that has not emitted can always move -/
theorem instInv_progress {k : Nat} {c0 l : Int} {x : Inst} (p : Nat) (h : InstInv k c0 l x)
    (he : x.emitted = none) : ∃ a x', a.inst = p ∧ stepInst k x a = some x' := by
  obtain ⟨hl, hi, hb, hp⟩ := h
  cases hph : x.phase with
  | atComb c => exact ⟨.combine p, _, rfl, by simp only [stepInst, hph]; rfl⟩
  | atCond i c =>
    by_cases hc : c < x.limit
    · exact ⟨.eval p, _, rfl, by simp only [stepInst, hph, if_pos hc]; rfl⟩
    · exact ⟨.eval p, _, rfl, by simp only [stepInst, hph, if_neg hc]; rfl⟩
  | atBody i c => exact ⟨.body p, _, rfl, by simp only [stepInst, hph]; rfl⟩
  | exited =>
    rw [hph] at hp
    simp only [done, hph] at hi
    obtain ⟨h1, h2, h3, h4⟩ := hp
    cases hin : x.inflight with
    | cons t ts => exact ⟨.deliver p 0, _, rfl, by simp only [stepInst, hin, List.getElem?_cons_zero]; rfl⟩
    | nil =>
      have hlen := hi.length_eq
      rw [outs_length, hin] at hlen
      simp only [List.nil_append] at hlen
      exact ⟨.emit p, _, rfl, by simp only [stepInst, h2, he, hlen, if_true]; rfl⟩

/-- the output of an instance started with `(c0, l)` is the value of the loop as one node -/
theorem instInv_result {k : Nat} (hk : 0 < k) {c0 l : Int} {x : Inst} (h : InstInv k c0 l x) {v : Option Int}
    (he : x.emitted = some v) : v = expected k c0 l := by
  obtain ⟨hl, hi, hb, hp⟩ := h
  cases hph : x.phase with
  | atComb c => rw [hph] at hp; rw [hp.2.2] at he; cases he
  | atCond i c => rw [hph] at hp; rw [hp.2.2.2] at he; cases he
  | atBody i c => rw [hph] at hp; rw [hp.2.2.2.2] at he; cases he
  | exited =>
    rw [hph] at hp
    simp only [done, hph] at hi hb
    obtain ⟨h1, h2, h3, h4⟩ := hp
    obtain ⟨h5, h6⟩ := h4 v he
    rw [h5, List.nil_append] at hi
    rw [h6, lastOf_perm_outs hi, expected]
    have hit := loopLast_iter k hk l (x.iters - 1) c0 hb h3
    by_cases hn : x.iters - 1 = 0
    · rw [if_pos hn]
      rw [hn, val_zero] at h3
      rw [if_neg h3]
    · rw [if_neg hn]
      have h0 := hb 0 (by omega)
      rw [val_zero] at h0
      rw [if_pos h0, hit]

/-! ## The network: reachable states and the global invariant -/

/-- the states of the loop network for the inputs `inputs` (one `(counter, limit)` per instance) under some
interleaving of the instances and some delivery order of the body outputs -/
inductive Reachable (k : Nat) (inputs : List (Int × Int)) : St → Prop
  | init : Reachable k inputs (initSt k inputs)
  | step {s s' : St} {a : Act} : Reachable k inputs s → SFV.LoopNet.step s a = some s' → Reachable k inputs s'

theorem step_eq {s s' : St} {a : Act} (h : step s a = some s') :
    ∃ x x', s.insts[a.inst]? = some x ∧ stepInst s.k x a = some x' ∧
      s' = { s with insts := s.insts.set a.inst x' } := by
  simp only [step] at h
  split at h
  · cases h
  · next x hx =>
    obtain ⟨x', hx', rfl⟩ := Option.map_eq_some_iff.mp h
    exact ⟨x, x', hx, hx', rfl⟩

theorem step_of {s : St} {a : Act} {x x' : Inst} (hx : s.insts[a.inst]? = some x)
    (hs : stepInst s.k x a = some x') : step s a = some { s with insts := s.insts.set a.inst x' } := by
  simp only [step, hx, hs, Option.map_some]

theorem step_k {s s' : St} {a : Act} (h : step s a = some s') : s'.k = s.k := by
  obtain ⟨x, x', _, _, rfl⟩ := step_eq h
  rfl

theorem run_k {s s' : St} {acts : List Act} (h : run s acts = some s') : s'.k = s.k := by
  induction acts generalizing s with
  | nil => simp only [run] at h; cases h; rfl
  | cons a as ih =>
    simp only [run] at h
    split at h
    · next s1 hs1 => rw [ih h, step_k hs1]
    · cases h

theorem reachable_run {k : Nat} {inputs : List (Int × Int)} {s s' : St} {acts : List Act}
    (hr : Reachable k inputs s) (h : run s acts = some s') : Reachable k inputs s' := by
  induction acts generalizing s with
  | nil => simp only [run] at h; cases h; exact hr
  | cons a as ih =>
    simp only [run] at h
    split at h
    · next s1 hs1 => exact ih (hr.step hs1) h
    · cases h

theorem reachable_iff_run {k : Nat} {inputs : List (Int × Int)} {s : St} :
    Reachable k inputs s ↔ ∃ acts, run (initSt k inputs) acts = some s := by
  constructor
  · intro h
    induction h with
    | init => exact ⟨[], rfl⟩
    | @step s1 s2 a _ hs ih =>
      obtain ⟨acts, ha⟩ := ih
      refine ⟨acts ++ [a], ?_⟩
      generalize initSt k inputs = s0 at ha ⊢
      induction acts generalizing s0 with
      | nil => simp only [run] at ha; cases ha; simp only [List.nil_append, run, hs]
      | cons b bs ihb =>
        simp only [run, List.cons_append] at ha ⊢
        split at ha
        · next s3 hs3 => exact ihb _ ha
        · cases ha
  · rintro ⟨acts, h⟩
    exact reachable_run .init h

/-- every instance satisfies the per-instance invariant for its own input -/
structure Inv (k : Nat) (inputs : List (Int × Int)) (s : St) : Prop where
  k_eq : s.k = k
  len : s.insts.length = inputs.length
  inst : ∀ (p : Nat) (x : Inst), s.insts[p]? = some x → ∃ cl : Int × Int, inputs[p]? = some cl ∧ InstInv k cl.1 cl.2 x

theorem inv_init (k : Nat) (inputs : List (Int × Int)) : Inv k inputs (initSt k inputs) := by
  refine ⟨rfl, by simp [initSt], ?_⟩
  intro p x hx
  simp only [initSt, List.getElem?_map] at hx
  obtain ⟨cl, hcl, rfl⟩ := Option.map_eq_some_iff.mp hx
  exact ⟨cl, hcl, instInv_init k cl.1 cl.2⟩

theorem inv_step {k : Nat} {inputs : List (Int × Int)} {s s' : St} {a : Act} (h : Inv k inputs s)
    (hs : step s a = some s') : Inv k inputs s' := by
  obtain ⟨x, x', hx, hx', rfl⟩ := step_eq hs
  obtain ⟨hk, hlen, hinst⟩ := h
  refine ⟨hk, by simpa using hlen, ?_⟩
  intro p y hy
  simp only [List.getElem?_set] at hy
  split at hy
  · next hp =>
    subst hp
    split at hy
    · cases hy
      obtain ⟨cl, hcl, hi⟩ := hinst _ x hx
      rw [hk] at hx'
      exact ⟨cl, hcl, instInv_step hi hx'⟩
    · cases hy
  · exact hinst p y hy

theorem reachable_inv {k : Nat} {inputs : List (Int × Int)} {s : St} (h : Reachable k inputs s) :
    Inv k inputs s := by
  induction h with
  | init => exact inv_init k inputs
  | step _ hs ih => exact inv_step ih hs

/-- progress: a state satisfying the invariant in which some instance has not emitted has an enabled action -/
theorem inv_progress {k : Nat} {inputs : List (Int × Int)} {s : St} (h : Inv k inputs s)
    (hf : finished s = false) : ∃ a s', step s a = some s' := by
  simp only [finished, List.all_eq_false] at hf
  obtain ⟨x, hx, he⟩ := hf
  obtain ⟨p, hp⟩ := List.mem_iff_getElem?.mp hx
  obtain ⟨cl, _, hi⟩ := h.inst p x hp
  have he' : x.emitted = none := by
    cases hem : x.emitted with
    | none => rfl
    | some v => rw [hem] at he; simp at he
  obtain ⟨a, x', ha, hs⟩ := instInv_progress p hi he'
  subst ha
  rw [← h.k_eq] at hs
  exact ⟨a, _, step_of hp hs⟩

/-! ## Termination: a measure that every action decreases (for `0 < k`) -/

/-- an upper bound of the number of iterations still to run from the counter value `c` -/
def rem (l c : Int) : Nat := (l - c).toNat

/-- the weight of the stage of an instance (`atBody` is weighed through the state the body leads to) -/
def phaseW (k : Nat) (l : Int) : Phase → Nat
  | .atComb c => 4 * rem l c + 3
  | .atCond _ c => 4 * rem l c + 2
  | .atBody _ c => 4 * rem l (c + (k : Int)) + 5
  | .exited => 0

/-- the potential of one instance -/
def instMu (k : Nat) (x : Inst) : Nat :=
  phaseW k x.limit x.phase + x.inflight.length + (if x.emitted = none then 1 else 0)

/-- the potential of the network: a bound of the number of actions still possible -/
def mu (s : St) : Nat := (s.insts.map (instMu s.k)).sum

theorem instMu_step {k : Nat} (hk : 0 < k) {x x' : Inst} {a : Act} (hs : stepInst k x a = some x') :
    instMu k x' < instMu k x := by
  cases a with
  | combine p =>
    simp only [stepInst] at hs
    split at hs
    · next c heq => cases hs; simp only [instMu, heq, phaseW]; omega
    · cases hs
  | eval p =>
    simp only [stepInst] at hs
    split at hs
    · next i c heq =>
      split at hs
      · next hc => cases hs; simp only [instMu, heq, phaseW, rem]; omega
      · cases hs; simp only [instMu, heq, phaseW]; omega
    · cases hs
  | body p =>
    simp only [stepInst] at hs
    split at hs
    · next i c heq => cases hs; simp only [instMu, heq, phaseW, List.length_append, List.length_singleton]; omega
    · cases hs
  | deliver p j =>
    simp only [stepInst] at hs
    split at hs
    · next t heq =>
      cases hs
      obtain ⟨hj, _⟩ := List.getElem?_eq_some_iff.mp heq
      simp only [instMu, List.length_eraseIdx, if_pos hj]
      omega
    · cases hs
  | emit p =>
    simp only [stepInst] at hs
    split at hs
    · next n hc he =>
      split at hs
      · cases hs; simp only [instMu, he]; simp
      · cases hs
    · cases hs

theorem sum_set_lt {α : Type} (f : α → Nat) {l : List α} {p : Nat} {x x' : α} (hx : l[p]? = some x)
    (hlt : f x' < f x) : ((l.set p x').map f).sum < (l.map f).sum := by
  induction l generalizing p with
  | nil => simp at hx
  | cons a l ih =>
    cases p with
    | zero => simp at hx; subst hx; simp only [List.set_cons_zero, List.map_cons, List.sum_cons]; omega
    | succ p =>
      simp at hx
      have := ih hx
      simp only [List.set_cons_succ, List.map_cons, List.sum_cons]; omega

theorem mu_step {s s' : St} {a : Act} (hk : 0 < s.k) (hs : step s a = some s') : mu s' < mu s := by
  obtain ⟨x, x', hx, hx', rfl⟩ := step_eq hs
  exact sum_set_lt (instMu s.k) hx (instMu_step hk hx')

theorem run_length {s s' : St} {acts : List Act} (hk : 0 < s.k) (h : run s acts = some s') :
    acts.length + mu s' ≤ mu s := by
  induction acts generalizing s with
  | nil => simp only [run] at h; cases h; simp
  | cons a as ih =>
    simp only [run] at h
    split at h
    · next s1 hs1 =>
      have h1 := mu_step hk hs1
      have h2 := ih (by rw [step_k hs1]; exact hk) h
      simp only [List.length_cons]; omega
    · cases h

/-- the potential of the initial state: `4 * max (l - c) 0 + 4` per instance -/
theorem mu_init (k : Nat) (inputs : List (Int × Int)) :
    mu (initSt k inputs) = (inputs.map (fun cl => 4 * (cl.2 - cl.1).toNat + 4)).sum := by
  simp only [mu, initSt, List.map_map]
  congr 1

/-! ## The end of a run -/

theorem inv_result {k : Nat} (hk : 0 < k) {inputs : List (Int × Int)} {s : St} (h : Inv k inputs s) {p : Nat}
    {x : Inst} {cl : Int × Int} {v : Option Int} (hx : s.insts[p]? = some x) (hcl : inputs[p]? = some cl)
    (he : x.emitted = some v) : v = expected k cl.1 cl.2 := by
  obtain ⟨cl', hcl', hi⟩ := h.inst p x hx
  rw [hcl] at hcl'
  cases hcl'
  exact instInv_result hk hi he

/-- when every instance has emitted, the outputs are the values of the loop as one node, instance by instance -/
theorem inv_outputs {k : Nat} (hk : 0 < k) {inputs : List (Int × Int)} {s : St} (h : Inv k inputs s)
    (hf : finished s = true) :
    s.insts.map (fun x => x.emitted) = inputs.map (fun cl => some (expected k cl.1 cl.2)) := by
  apply List.ext_getElem?
  intro p
  simp only [List.getElem?_map]
  cases hx : s.insts[p]? with
  | none =>
    have h1 := List.getElem?_eq_none_iff.mp hx
    rw [h.len] at h1
    rw [List.getElem?_eq_none_iff.mpr h1]
    rfl
  | some x =>
    obtain ⟨cl, hcl, hi⟩ := h.inst p x hx
    rw [hcl]
    simp only [Option.map_some]
    simp only [finished, List.all_eq_true] at hf
    have hsome := hf x (List.mem_iff_getElem?.mpr ⟨p, hx⟩)
    cases hem : x.emitted with
    | none => rw [hem] at hsome; simp at hsome
    | some v => rw [instInv_result hk hi hem]

/-- from every state satisfying the invariant the loop can be driven to the end -/
theorem inv_can_finish {k : Nat} (hk : 0 < k) {inputs : List (Int × Int)} (n : Nat) :
    ∀ s : St, mu s ≤ n → Inv k inputs s → ∃ acts s', run s acts = some s' ∧ finished s' = true := by
  induction n with
  | zero =>
    intro s hn h
    cases hf : finished s with
    | true => exact ⟨[], s, rfl, hf⟩
    | false =>
      obtain ⟨a, s1, hs1⟩ := inv_progress h hf
      have := mu_step (by rw [h.k_eq]; exact hk) hs1
      omega
  | succ n ih =>
    intro s hn h
    cases hf : finished s with
    | true => exact ⟨[], s, rfl, hf⟩
    | false =>
      obtain ⟨a, s1, hs1⟩ := inv_progress h hf
      have hlt := mu_step (by rw [h.k_eq]; exact hk) hs1
      obtain ⟨acts, s', hr, hfin⟩ := ih s1 (by omega) (inv_step h hs1)
      exact ⟨a :: acts, s', by simp only [run, hs1, hr], hfin⟩

/-! ## `k = 0`: the loop never ends -/

/-- one full iteration of instance `p` -/
def lap (p : Nat) : List Act := [.combine p, .eval p, .body p]

/-- `n` iterations of instance `p` -/
def laps (p : Nat) : Nat → List Act
  | 0 => []
  | n + 1 => lap p ++ laps p n

theorem laps_length (p n : Nat) : (laps p n).length = 3 * n := by
  induction n with
  | zero => rfl
  | succ n ih => simp only [laps, lap, List.length_append, ih, List.length_cons, List.length_nil]; omega

/-- with `k = 0` and `c < l` the single instance can iterate for ever: every number of laps is enabled -/
theorem laps_enabled (c l : Int) (hcl : c < l) (n : Nat) :
    ∀ x : Inst, x.phase = .atComb c → x.limit = l →
      ∃ x' : Inst, run { k := 0, insts := [x] } (laps 0 n) = some { k := 0, insts := [x'] } ∧
        x'.phase = .atComb c ∧ x'.limit = l ∧ x'.emitted = x.emitted := by
  induction n with
  | zero => intro x hp hl; exact ⟨x, rfl, hp, hl, rfl⟩
  | succ n ih =>
    intro x hp hl
    have hc : c < x.limit := by rw [hl]; exact hcl
    obtain ⟨x', hr, h1, h2, h3⟩ := ih
      { x with phase := .atComb c, iters := x.iters + 1, inflight := x.inflight ++ [(x.iters, c)] } rfl hl
    refine ⟨x', ?_, h1, h2, h3⟩
    rw [← hr]
    simp [laps, lap, run, step, Act.inst, stepInst, hp, hc]

/-! ## Readable consequences of the invariant -/

theorem inv_items_values {k : Nat} {inputs : List (Int × Int)} {s : St} (h : Inv k inputs s) {p : Nat}
    {x : Inst} {c0 l : Int} (hx : s.insts[p]? = some x) (hin : inputs[p]? = some (c0, l)) :
    (∀ i v, (i, v) ∈ x.inflight ++ x.collected → v = c0 + ((i : Int) + 1) * (k : Int) ∧ c0 + (i : Int) * (k : Int) < l) ∧
      ((x.inflight ++ x.collected).map (·.1)).Nodup := by
  obtain ⟨cl, hcl, hi⟩ := h.inst p x hx
  rw [hin] at hcl; cases hcl
  refine ⟨?_, ?_⟩
  · intro i v hm
    obtain ⟨h1, h2⟩ := mem_outs.mp (hi.items.mem_iff.mp hm)
    have h2' : v = val k c0 (i + 1) := h2
    exact ⟨by rw [h2']; simp [val], hi.below i h1⟩
  · refine (hi.items.map (·.1)).nodup_iff.mpr ?_
    simp [outs, List.map_map, Function.comp_def, List.nodup_range]

theorem inv_count {k : Nat} {inputs : List (Int × Int)} {s : St} (h : Inv k inputs s) {p : Nat}
    {x : Inst} {c0 l : Int} {n : Nat} (hx : s.insts[p]? = some x) (hin : inputs[p]? = some (c0, l))
    (hc : x.count = some n) :
    x.phase = .exited ∧ (∀ i : Nat, i < n → c0 + (i : Int) * (k : Int) < l) ∧ ¬ c0 + (n : Int) * (k : Int) < l ∧
      (x.inflight ++ x.collected).length = n := by
  obtain ⟨cl, hcl, hi⟩ := h.inst p x hx
  rw [hin] at hcl; cases hcl
  obtain ⟨hl, hit, hb, hp⟩ := hi
  cases hph : x.phase with
  | atComb c => rw [hph] at hp; rw [hp.2.1] at hc; cases hc
  | atCond i c => rw [hph] at hp; rw [hp.2.2.1] at hc; cases hc
  | atBody i c => rw [hph] at hp; rw [hp.2.2.2.1] at hc; cases hc
  | exited =>
    rw [hph] at hp
    simp only [done, hph] at hit hb
    rw [hp.2.1] at hc; cases hc
    exact ⟨rfl, hb, hp.2.2.1, by rw [hit.length_eq, outs_length]⟩

/-- a state satisfying the invariant in which no action is enabled has finished -/
theorem inv_stuck_finished {k : Nat} {inputs : List (Int × Int)} {s : St} (h : Inv k inputs s)
    (hmax : ∀ a, step s a = none) : finished s = true := by
  cases hf : finished s with
  | true => rfl
  | false =>
    obtain ⟨a, s', hs⟩ := inv_progress h hf
    rw [hmax a] at hs; cases hs

theorem k_zero_diverges (c l : Int) (hcl : c < l) (n : Nat) :
    ∃ s, run (initSt 0 [(c, l)]) (laps 0 n) = some s ∧ (laps 0 n).length = 3 * n ∧ finished s = false := by
  obtain ⟨x', hr, _, _, he⟩ := laps_enabled c l hcl n (initInst c l) rfl rfl
  refine ⟨_, hr, laps_length 0 n, ?_⟩
  simp only [finished, List.all_cons, List.all_nil, he, initInst]
  rfl

/-! ## A concrete schedule (used by the examples of `SFV/Props/C04LoopNet.lean`) -/

/-- two instances, interleaved; instance 0 delivers its two body outputs out of order -/
def demoActs : List Act :=
  [.combine 0, .combine 1, .eval 1, .eval 0, .body 0, .body 1, .deliver 1 0, .combine 0, .combine 1, .eval 0,
   .eval 1, .body 1, .body 0, .combine 1, .combine 0, .eval 0, .eval 1, .deliver 0 1, .deliver 1 0, .emit 1,
   .deliver 0 0, .emit 0]

end SFV.LoopNet
