import SFV.Model.Tar
import SFV.Lemmas.Bytes
/-! Lemmas for C23: reads and seeks on a chunked stream are `take`/`drop`; peeling members off an archive. -/
namespace SFV.Tar
open SFV.Bytes

def mkReader (data : List Byte) (p : Nat → Nat → Nat) (pos : Nat) : Reader := { raw := { data := data, policy := p }, pos := pos }

theorem read_mk (data : List Byte) (p : Nat → Nat → Nat) (pos n : Nat) :
    (mkReader data p pos).read n = (data.take n, mkReader (data.drop n) p (pos + (data.take n).length)) := by
  simp [Reader.read, mkReader, tellRead_eq]

theorem seek_mk (data : List Byte) (p : Nat → Nat → Nat) (pos off : Nat) (h : pos ≤ off) :
    (mkReader data p pos).seek off = some (mkReader (data.drop (off - pos)) p off) := by
  unfold Reader.seek
  by_cases hgt : off > pos
  · simp only [mkReader, hgt, if_true]
    simp [Reader.read, tellRead_eq]
  · have : off = pos := by omega
    subst this
    simp [mkReader]

theorem zeros_length (n : Nat) : (zeros n).length = n := by simp [zeros]

theorem encMember_length (c : Codec) (m : Member) :
    (encMember c m).length = 512 + m.data.length + padLen m.data.length := by
  simp only [encMember, List.length_append, c.enc_len, zeros_length]

theorem writeMembers_cons (c : Codec) (m : Member) (ms : List Member) :
    writeMembers c (m :: ms) = encMember c m ++ writeMembers c ms := by
  simp [writeMembers]

theorem writeMembers_length_ge (c : Codec) (ms : List Member) : 512 * ms.length ≤ (writeMembers c ms).length := by
  induction ms with
  | nil => simp [writeMembers]
  | cons m r ih =>
    rw [writeMembers_cons, List.length_append, encMember_length]
    simp only [List.length_cons]
    omega

theorem classify_enc (c : Codec) (n : List Byte) (s : Nat) (h : c.valid n s) : classify c.dec (c.enc n s) = .hdr n s := by
  unfold classify
  simp [c.enc_len, c.enc_nonzero n s h, c.dec_enc n s h]

theorem zeros_all (n : Nat) : (zeros n).all (· == 0) = true := by
  simp only [zeros, List.all_eq_true]
  intro x hx
  have := List.eq_of_mem_replicate hx
  simp [this]

theorem classify_zeros (c : Codec) : classify c.dec (zeros 512) = .eof := by
  unfold classify
  have h1 : (zeros 512).length = 512 := zeros_length 512
  simp only [h1, zeros_all]
  simp

@[simp] theorem mkReader_pos (d : List Byte) (p : Nat → Nat → Nat) (pos : Nat) : (mkReader d p pos).pos = pos := rfl

/-- **peeling**: reading an archive that starts (at `offset`) with the blocks of `ms` extracts exactly `ms` and goes on
    with what follows — for every chunking policy `p` -/
theorem readMembers_peel (c : Codec) (p : Nat → Nat → Nat) (k : Nat) (tail : List Byte) :
    ∀ (ms : List Member) (data : List Byte) (pos offset : Nat) (acc : List Member),
      (∀ m ∈ ms, c.valid m.name m.data.length) → pos ≤ offset →
      data.drop (offset - pos) = writeMembers c ms ++ tail →
      readMembers c.dec (ms.length + k) (mkReader data p pos) offset acc
        = readMembers c.dec k (mkReader tail p (offset + (writeMembers c ms).length))
            (offset + (writeMembers c ms).length) (acc ++ ms) := by
  intro ms
  induction ms with
  | nil =>
    intro data pos offset acc _ hpos hd
    simp only [writeMembers, List.flatMap_nil, List.nil_append, List.length_nil, Nat.zero_add, Nat.add_zero,
      List.append_nil] at hd ⊢
    cases k with
    | zero => simp [readMembers]
    | succ k =>
      simp only [readMembers, seek_mk data p pos offset hpos, hd]
      have : (mkReader tail p offset).seek offset = some (mkReader (tail.drop (offset - offset)) p offset) :=
        seek_mk tail p offset offset (Nat.le_refl _)
      simp only [Nat.sub_self, List.drop_zero] at this
      simp [this]
  | cons m ms ih =>
    intro data pos offset acc hv hpos hd
    have hvm := hv m (List.mem_cons_self ..)
    have hfuel : (m :: ms).length + k = (ms.length + k) + 1 := by simp only [List.length_cons]; omega
    rw [hfuel]
    simp only [readMembers, seek_mk data p pos offset hpos, hd, read_mk]
    -- the header block
    have hw : writeMembers c (m :: ms) ++ tail
        = c.enc m.name m.data.length ++ (m.data ++ (zeros (padLen m.data.length) ++ (writeMembers c ms ++ tail))) := by
      rw [writeMembers_cons]; simp [encMember, List.append_assoc]
    rw [hw]
    have ht : (c.enc m.name m.data.length ++ (m.data ++ (zeros (padLen m.data.length) ++ (writeMembers c ms ++ tail)))).take 512
        = c.enc m.name m.data.length := List.take_left' (c.enc_len _ _)
    have hdr : (c.enc m.name m.data.length ++ (m.data ++ (zeros (padLen m.data.length) ++ (writeMembers c ms ++ tail)))).drop 512
        = m.data ++ (zeros (padLen m.data.length) ++ (writeMembers c ms ++ tail)) := List.drop_left' (c.enc_len _ _)
    simp only [ht, hdr, classify_enc c _ _ hvm, c.enc_len]
    have ht2 : (m.data ++ (zeros (padLen m.data.length) ++ (writeMembers c ms ++ tail))).take m.data.length = m.data :=
      List.take_left' rfl
    have hdr2 : (m.data ++ (zeros (padLen m.data.length) ++ (writeMembers c ms ++ tail))).drop m.data.length
        = zeros (padLen m.data.length) ++ (writeMembers c ms ++ tail) := List.drop_left' rfl
    simp only [ht2, hdr2, mkReader_pos]
    rw [ih _ (offset + 512 + m.data.length) (offset + 512 + blockLen m.data.length) _
      (fun x hx => hv x (List.mem_cons_of_mem _ hx)) (by unfold blockLen; omega)
      (by
        have : offset + 512 + blockLen m.data.length - (offset + 512 + m.data.length) = padLen m.data.length := by
          unfold blockLen; omega
        rw [this]; exact List.drop_left' (zeros_length _))]
    have hl : (writeMembers c (m :: ms)).length = 512 + blockLen m.data.length + (writeMembers c ms).length := by
      rw [writeMembers_cons, List.length_append, encMember_length]; unfold blockLen; omega
    have e1 : offset + 512 + blockLen m.data.length + (writeMembers c ms).length = offset + (writeMembers c (m :: ms)).length := by
      rw [hl]; omega
    rw [e1]
    have e2 : acc ++ [{ name := m.name, data := m.data }] ++ ms = acc ++ m :: ms := by simp
    rw [e2]

theorem seek_mk_back (data : List Byte) (p : Nat → Nat → Nat) (pos off : Nat) (h : off < pos) :
    (mkReader data p pos).seek off = none := by
  unfold Reader.seek
  have h1 : ¬ off > pos := by omega
  simp [mkReader, h1, h]

/-- the result of reading an archive does not depend on the chunking policy -/
theorem readMembers_policy (c : Codec) (p p' : Nat → Nat → Nat) :
    ∀ (fuel : Nat) (data : List Byte) (pos offset : Nat) (acc : List Member),
      readMembers c.dec fuel (mkReader data p pos) offset acc = readMembers c.dec fuel (mkReader data p' pos) offset acc := by
  intro fuel
  induction fuel with
  | zero => intro _ _ _ _; rfl
  | succ fuel ih =>
    intro data pos offset acc
    by_cases h : pos ≤ offset
    · simp only [readMembers, seek_mk _ _ _ _ h, read_mk, mkReader_pos]
      cases classify c.dec (List.take 512 (List.drop (offset - pos) data)) <;> simp only [ih]
    · simp only [readMembers, seek_mk_back _ _ _ _ (Nat.lt_of_not_le h)]

/-- after the members: an exhausted stream ends the iteration silently (anywhere but at offset 0) -/
theorem readMembers_at_end (c : Codec) (p : Nat → Nat → Nat) (k off : Nat) (acc : List Member) (h : off ≠ 0) :
    readMembers c.dec k (mkReader [] p off) off acc = .ok acc := by
  cases k with
  | zero => rfl
  | succ k =>
    have hs := seek_mk [] p off off (Nat.le_refl _)
    simp only [Nat.sub_self, List.drop_zero] at hs
    simp [readMembers, hs, read_mk, classify, h]

theorem zeros_add (a b : Nat) : zeros (a + b) = zeros a ++ zeros b := by
  simp [zeros, List.replicate_append_replicate]

theorem closing_eq (n : Nat) :
    closing n = zeros 512 ++ (zeros 512 ++ zeros ((10240 - (n + 1024) % 10240) % 10240)) := by
  unfold closing
  rw [show (1024 : Nat) = 512 + 512 from rfl, zeros_add, List.append_assoc]

end SFV.Tar
