import SFV.Lemmas.RetryInv
/-! # C17 — retries are bounded and exhausted retries fail the workflow

Theorems about the retry accounting model `SFV/Model/Retry.lean`; the bound test `Gen.retryAllowed` and the initial
version are regenerated from `failure_manager.py` / `core/recovery.py` on every run. Quantified over every sequence of
job starts and failures, every set of producers rolled back with a failing job, every `max_retries ≥ 1`.
Abstracted: what makes an execution fail and which producers are needed (C18), the recovery workflow itself (C16);
`execs j` counts executions *started*, as the `execution` table and our injector's log do. -/
namespace SFV.C17
open SFV SFV.Retry

/-- the guard and the initial version as the source has them -/
theorem gen_guard_is_strict (m v : Nat) : Gen.retryAllowed (some m) v = true ↔ v < m := by
  simp [Gen.retryAllowed]
theorem gen_guard_unbounded (v : Nat) : Gen.retryAllowed none v = true := rfl
theorem gen_initial_version : Gen.initialVersion = 1 := rfl

/-- **no job is executed more times than the retry limit** (any failure sequence, any producers rolled back) -/
theorem executions_le_max {mgr m s} (h : Reachable mgr (some m) s) (hm : 1 ≤ m) (j : Nat) : s.execs j ≤ m := by
  obtain ⟨h1, h2, _⟩ := inv_reachable h
  have := h1 j; have := h2 m rfl hm j; omega

/-- **executions = version** while the workflow has not failed: every re-execution was preceded by exactly one
    successful `_update_request` for the job -/
theorem version_counts_executions {mgr max s} (h : Reachable mgr max s) (hf : s.failed = false) (j : Nat)
    (hj : 0 < s.execs j) : s.execs j = s.version j :=
  (inv_reachable h).2.2.1 hf j hj

/-- **exhausted retries raise**: a job whose version has reached the limit fails the workflow at its next failure — and a
    failed workflow takes no further step (no loop, no further `_do_handle_failure`) -/
theorem exhausted_raises {m : Nat} (s s' : St) (j : Nat) (needs : List Nat) (hv : ¬ s.version j < m)
    (hs : step .rollback (some m) s (.fail j needs) = some s') :
    s'.failed = true ∧ ∀ a, step .rollback (some m) s' a = none := by
  have key : s'.failed = true := by
    simp only [step] at hs
    split at hs
    · rename_i hg
      split at hs
      · rename_i v hu
        exfalso
        have hnodup : (needs ++ [j]).Nodup := by
          rw [List.nodup_append]; refine ⟨hg.2.2.2.1, by simp, ?_⟩
          intro a ha b hb; simp at hb; subst hb; intro e; subst e; exact hg.2.2.1 ha
        have := ((updateAll_ok hnodup hu).1 j (by simp)).1
        rw [gen_guard_is_strict] at this
        exact hv this
      · cases hs; rfl
    · cases hs
  refine ⟨key, fun a => ?_⟩
  cases a <;> simp [step, key]

/-- with `max_retries = None` the bound is vacuous: no failure ever fails the workflow -/
theorem unbounded_when_none (s s' : St) (j : Nat) (needs : List Nat)
    (hs : step .rollback none s (.fail j needs) = some s') : s'.failed = s.failed := by
  simp only [step] at hs
  split at hs
  · have : ∀ (l : List Nat) (v : Nat → Nat), (updateAll none l v).2 = true := by
      intro l; induction l with
      | nil => intro v; rfl
      | cons a l ih => intro v; simp [updateAll, gen_guard_unbounded, ih]
    split at hs
    · cases hs; rfl
    · rename_i v hu; have := this (needs ++ [j]) s.version; rw [hu] at this; cases this
  · cases hs

/-- without a rollback failure manager the first job failure fails the workflow -/
theorem dummy_first_failure_fails (max : Option Nat) (s s' : St) (j : Nat) (needs : List Nat)
    (hs : step .dummy max s (.fail j needs) = some s') : s'.failed = true := by
  simp only [step] at hs
  split at hs
  · cases hs; rfl
  · cases hs

/-! ### non-vacuity -/
/-- limit 3: job 2 fails twice (dragging producer 1 along the first time) and completes; a third failure exhausts it -/
example : ∃ s, Reachable .rollback (some 3) s ∧ s.execs 2 = 3 ∧ s.execs 1 = 2 ∧ s.failed = false := by
  refine ⟨(runActs .rollback (some 3) init [.start 1, .start 2, .fail 2 [1], .fail 2 []]).get (by decide), ?_, ?_, ?_, ?_⟩
  · have : ∀ (as : List Act) (s s' : St), Reachable .rollback (some 3) s → runActs .rollback (some 3) s as = some s' →
        Reachable .rollback (some 3) s' := by
      intro as; induction as with
      | nil => intro s s' h e; simp [runActs] at e; exact e ▸ h
      | cons a as ih =>
        intro s s' h e; simp only [runActs] at e
        split at e
        · rename_i s1 hs1; exact ih s1 s' (Reachable.step h hs1) e
        · cases e
    exact this _ init _ Reachable.init (Option.some_get _).symm
  all_goals decide

end SFV.C17
