import SFV.Lemmas.Sh
import SFV.Gen.CmdTemplates
/-! # C24 — remote path operations agree with the local filesystem

Property theorems about the *command construction* of `RemoteStreamFlowPath` (the part of C24 that is proved; the
agreement of results and file-system states with the local API is validated differentially by the check, see
design_notes/C24.md). The templates come from `SFV/Gen/CmdTemplates.lean`, regenerated from the source on every run. -/
namespace SFV.C24
open SFV.Sh SFV.Gen.Cmd

/-- **`shlex.quote` round trip**: for every string, the shell reads `shlex.quote(s)` as the single word `s`, nothing
    interpreted -/
theorem sh_quote_roundtrip (s : List Char) : lexLine (shlexQuote s) = .ok [.word { cs := s }] :=
  lexLine_shlexQuote s

/-- `shlex.quote(s)` is verbatim in the middle of a command line too: after any text that leaves the shell in
    unquoted mode, and whatever follows -/
theorem sh_quote_in_context (pre post s : List Char) (h : (feed init pre).mode = .unq) :
    feed init (pre ++ shlexQuote s ++ post) = feed ((feed init pre).pushLit s) post := by
  rw [feed_append, feed_append, feed_shlexQuote _ _ h]

/-- **Quoted templates are verbatim**: a template whose argument occurrences all go through `shlex.quote` (or are
    numbers), each met where a word may start, denotes — for every argument list — exactly the command line in which
    the argument values stand as literal text of single words. -/
theorem template_verbatim (t : Template) (args : List (List Char)) (hq : allShQuoted t = true)
    (hp : placed ⟨.unq, true⟩ t = true) (hs : safeArgsOk t args = true) :
    lexLine (render t args) = specLine t args := by
  unfold lexLine specLine
  rw [feed_render_quoted t init args hq hp hs]

/-- the operations of `RemoteStreamFlowPath` that quote their path today: the baseline that must stay quoted -/
def mustQuote : List Template :=
  exists_all ++ is_dir_all ++ is_file_all ++ is_symlink_all ++ is_executable_all ++ checksum_all ++ resolve_all ++ walk_all

/-- **per-operation obligations** (generated templates, fixed baseline): `exists`, `is_dir`, `is_file`, `is_symlink`,
    `is_executable`, `checksum`, `resolve`, `walk` quote every path occurrence, in a position where a word may start.
    Fails to check as soon as one of them stops quoting. -/
theorem quoted_ops_stay_quoted : mustQuote.all (fun t => allShQuoted t && placed ⟨.unq, true⟩ t) = true := by
  decide

/-- hence each of them is verbatim for every path -/
theorem quoted_ops_verbatim (t : Template) (ht : t ∈ mustQuote) (path : List Char) :
    lexLine (render t [path]) = specLine t [path] := by
  have h := List.all_eq_true.mp quoted_ops_stay_quoted t ht
  simp only [Bool.and_eq_true] at h
  refine template_verbatim t [path] h.1 h.2 ?_
  -- none of these templates has a `safe` piece
  have hs : mustQuote.all (fun t => t.all (fun p => match p with | .safe _ => false | _ => true)) = true := by decide
  have := List.all_eq_true.mp hs t ht
  simp only [safeArgsOk, List.all_eq_true] at this ⊢
  intro p hp
  have := this p hp
  cases p <;> simp_all

/-- `exists`: the shell sees exactly `test -e <path>` for every path -/
theorem exists_verbatim (path : List Char) :
    lexLine (render exists_0 [path]) =
      .ok [.word { cs := ['t', 'e', 's', 't'] }, .word { cs := ['-', 'e'] }, .word { cs := path }] := by
  rw [quoted_ops_verbatim exists_0 (by decide) path]
  have hf : feed init ['t', 'e', 's', 't', ' ', '-', 'e', ' ']
      = { out := [.word { cs := ['t', 'e', 's', 't'] }, .word { cs := ['-', 'e'] }] } := by decide
  simp [specLine, specFeed, exists_0, hf, finish, LexSt.insert, LexSt.closeOp, LexSt.pushLit, LexSt.flush, arg]

/-- every argument occurrence `i` of the template goes through `shlex.quote` -/
def argQuoted (t : Template) (i : Nat) : Bool :=
  t.all (fun p => match p with | .raw j => j != i | .dq j => j != i | _ => true)

/-- `glob` quotes the directory path (argument 0); the pattern (argument 1) is meant for the shell -/
theorem glob_quotes_path : glob_all.all (fun t => argQuoted t 0 && placed ⟨.unq, true⟩ t) = true := by decide

/-! ### the tie between "not quoted" and "not verbatim" -/

/-- witness argument values: a blank, a parameter expansion, a command substitution, a double quote -/
def witnesses : List (List Char) := [['a', ' ', 'b'], ['$', 'x'], ['`', 'x', '`'], ['a', '"', 'b']]

def nArgs (t : Template) : Nat :=
  t.foldl (fun n p => match p with | .lit _ => n | .raw i | .shq i | .dq i | .safe i => max n (i + 1)) 0

/-- the witness `w` at every argument position, `7` at the numeric ones -/
def witArgs (t : Template) (w : List Char) : List (List Char) :=
  (List.range (nArgs t)).map (fun i => if t.any (fun p => p == .safe i) then ['7'] else w)

def witnessFails (t : Template) : Bool := witnesses.any (fun w => !verbatimOn t (witArgs t w))

/-- **every extracted template either quotes all its arguments or is demonstrably not verbatim** on one of the four
    witness strings: the syntactic criterion `allShQuoted` used by the obligations is exact on today's templates. -/
theorem every_template_quoted_or_witness :
    allTemplates.all (fun t => (allShQuoted t && placed ⟨.unq, true⟩ t) != witnessFails t) = true := by
  decide +kernel

end SFV.C24
