"""Extractor: guards / slices of the combinators -> SFV/Gen/CombGuards.lean

reads  streamflow/workflow/step.py        (_is_parent_tag, Combinator._add_to_list, Combinator._add_to_port)
       streamflow/workflow/combinator.py  (DotProductCombinator._product, CartesianProductCombinator._product/_add_to_port)
emits  one Lean definition per guard / slice / side of the deque, used by SFV/Model/Comb.lean; the remaining
       control structure (the three-way branch of `_add_to_list`, the loops of `_product`) is only *checked* to
       have the expected shape — a different shape raises TranslateError (a broken tie)."""
from __future__ import annotations

import ast
import os

from sfv.translate.expr import ExprTranslator, TranslateError, find_nodes, parse_function

TARGET = "SFV/Gen/CombGuards.lean"


def _src(n: ast.AST) -> str:
    return ast.unparse(n).replace('"', "'")


def _neg_slice(node: ast.AST, what: str, allowed_names: tuple[str, ...]) -> str:
    """`x.split('.')[:-k]` -> Lean term for k (a literal or one of the allowed names -> `depth`)"""
    if not (isinstance(node, ast.Subscript) and isinstance(node.slice, ast.Slice) and node.slice.lower is None
            and node.slice.step is None and isinstance(node.slice.upper, ast.UnaryOp) and isinstance(node.slice.upper.op, ast.USub)):
        raise TranslateError(f"{what}: `{_src(node)}` is not a slice of the form `[:-k]`")
    k = node.slice.upper.operand
    if isinstance(k, ast.Constant) and isinstance(k.value, int) and k.value > 0:
        return str(k.value)
    if _src(k) in allowed_names:
        return "depth"
    raise TranslateError(f"{what}: unexpected slice bound `{_src(k)}`")


def _split_of(node: ast.AST, what: str) -> str:
    """`<e>.split('.')` -> source of e"""
    if not (isinstance(node, ast.Call) and isinstance(node.func, ast.Attribute) and node.func.attr == "split"
            and len(node.args) == 1 and isinstance(node.args[0], ast.Constant) and node.args[0].value == "."):
        raise TranslateError(f"{what}: `{_src(node)}` is not `<tag>.split('.')`")
    return _src(node.func.value)


def _join_arg(node: ast.AST, what: str) -> ast.AST:
    """`'.'.join(e)` -> e"""
    if not (isinstance(node, ast.Call) and isinstance(node.func, ast.Attribute) and node.func.attr == "join"
            and isinstance(node.func.value, ast.Constant) and node.func.value.value == "." and len(node.args) == 1):
        raise TranslateError(f"{what}: `{_src(node)}` is not `'.'.join(…)`")
    return node.args[0]


def _emit_guard(fn: ast.AST, what: str) -> str:
    """the `if len(self._token_values[tag]) == len(self.items)` test of a `_product`"""
    tests = [n for n in find_nodes(fn, ast.If) if "len(self.items)" in _src(n.test)]
    if len(tests) != 1:
        raise TranslateError(f"{what}: expected exactly one test against len(self.items), found {len(tests)}")
    tr = ExprTranslator({"len(self._token_values[tag])": "cellLen", "len(self.items)": "itemsLen"})
    try:
        return tr.tr(tests[0].test)
    except TranslateError as e:
        raise TranslateError(f"{what}: emission guard `{_src(tests[0].test)}`: {e}") from e


def generate(repo: str) -> tuple[str, str]:
    step_py = os.path.join(repo, "streamflow/workflow/step.py")
    comb_py = os.path.join(repo, "streamflow/workflow/combinator.py")
    # ---- _is_parent_tag ---------------------------------------------------------------------------
    fn = parse_function(step_py, "_is_parent_tag")
    args = [a.arg for a in fn.args.args]
    if args != ["tag", "parent"] or len(fn.body) != 2:
        raise TranslateError("_is_parent_tag: expected `(tag, parent)` and two statements")
    a, r = fn.body
    if not (isinstance(a, ast.Assign) and _src(a) == "parent_idx = parent.split('.')" and isinstance(r, ast.Return)
            and isinstance(r.value, ast.Compare) and len(r.value.ops) == 1):
        raise TranslateError("_is_parent_tag: expected `parent_idx = parent.split('.')` then `return <slice> <op> parent_idx`")
    cmp_ = r.value
    left, right = cmp_.left, cmp_.comparators[0]
    if not (isinstance(left, ast.Subscript) and _split_of(left.value, "_is_parent_tag") == "tag" and isinstance(left.slice, ast.Slice)
            and left.slice.lower is None and left.slice.step is None and left.slice.upper is not None
            and _src(left.slice.upper) == "len(parent_idx)" and _src(right) == "parent_idx"):
        raise TranslateError(f"_is_parent_tag: `{_src(cmp_)}` is not `tag.split('.')[:len(parent_idx)] <op> parent_idx`")
    if isinstance(cmp_.ops[0], ast.Eq):
        parent_op = "=="
    elif isinstance(cmp_.ops[0], ast.NotEq):
        parent_op = "!="
    else:
        raise TranslateError("_is_parent_tag: comparison is neither == nor !=")
    # ---- Combinator._add_to_list: shape only ---------------------------------------------------------
    fn = parse_function(step_py, "_add_to_list", cls="Combinator")
    ifs = [s for s in fn.body if isinstance(s, ast.If)]
    if len(ifs) != 2 or _src(ifs[0].test) != "depth" or _src(ifs[1].test) != "propagate":
        raise TranslateError("_add_to_list: expected `if depth:` and `if propagate:`")
    trunc = ifs[0].body
    if not (len(trunc) == 1 and isinstance(trunc[0], ast.Assign) and _src(trunc[0].targets[0]) == "tag"):
        raise TranslateError("_add_to_list: `if depth:` does not assign the truncated tag")
    sl = _join_arg(trunc[0].value, "_add_to_list")
    if _split_of(sl.value if isinstance(sl, ast.Subscript) else sl, "_add_to_list") != "tag" or _neg_slice(sl, "_add_to_list", ("depth",)) != "depth":
        raise TranslateError("_add_to_list: truncation is not `tag.split('.')[:-depth]`")
    loops = [s for s in ifs[1].body if isinstance(s, ast.For)]
    if len(ifs[1].body) != 1 or len(loops) != 1 or _src(loops[0].iter) not in ("list(self._token_values.keys())", "list(self._token_values)") or _src(loops[0].target) != "key":
        raise TranslateError("_add_to_list: expected `for key in list(self._token_values.keys())` as the only statement under `if propagate`")
    body = loops[0].body
    if len(body) != 1 or not isinstance(body[0], ast.If):
        raise TranslateError("_add_to_list: loop body is not one if/elif chain")
    b1 = body[0]
    if not (_src(b1.test) == "tag == key" and len(b1.body) == 1 and isinstance(b1.body[0], ast.Continue)
            and len(b1.orelse) == 1 and isinstance(b1.orelse[0], ast.If)):
        raise TranslateError("_add_to_list: first branch is not `if tag == key: continue`")
    b2 = b1.orelse[0]
    if not (_src(b2.test) == "_is_parent_tag(key, tag)" and len(b2.body) == 1
            and _src(b2.body[0]) == "self._add_to_port(token, self._token_values[key], port_name)"
            and len(b2.orelse) == 1 and isinstance(b2.orelse[0], ast.If)):
        raise TranslateError("_add_to_list: second branch is not `elif _is_parent_tag(key, tag): self._add_to_port(token, self._token_values[key], port_name)`")
    b3 = b2.orelse[0]
    want = ("for p in self._token_values[key]:\n    for t in self._token_values[key][p]:\n"
            "        self._add_to_port(t, self._token_values.setdefault(tag, {}), p)")
    if not (_src(b3.test) == "_is_parent_tag(tag, key)" and len(b3.body) == 1 and _src(b3.body[0]) == want and not b3.orelse):
        raise TranslateError("_add_to_list: third branch is not `elif _is_parent_tag(tag, key):` copying every token of the key into the new tag")
    last = fn.body[-1]
    if _src(last) != "self._add_to_port(token, self._token_values.setdefault(tag, {}), port_name)":
        raise TranslateError("_add_to_list: does not end with `self._add_to_port(token, self._token_values.setdefault(tag, {}), port_name)`")
    # ---- Combinator._add_to_port --------------------------------------------------------------------
    fn = parse_function(step_py, "_add_to_port", cls="Combinator")
    if [_src(s) for s in fn.body] != ["if port_name not in tag_values:\n    tag_values[port_name] = deque()",
                                       "tag_values[port_name].append(token)"]:
        raise TranslateError("Combinator._add_to_port: expected `create deque when missing; append`")
    # ---- DotProductCombinator._product ---------------------------------------------------------------
    fn = parse_function(comb_py, "_product", cls="DotProductCombinator")
    dot_guard = _emit_guard(fn, "DotProductCombinator._product")
    outer = [s for s in fn.body if isinstance(s, ast.For)]
    if len(outer) != 1 or _src(outer[0].iter) != "list(self._token_values)" or _src(outer[0].target) != "tag":
        raise TranslateError("DotProductCombinator._product: expected `for tag in list(self._token_values)`")
    mins = [n for n in find_nodes(fn, ast.Assign) if _src(n.targets[0]) == "num_items"]
    if len(mins) != 1 or _src(mins[0].value) != "min((len(i) for i in self._token_values[tag].values()))":
        raise TranslateError("DotProductCombinator._product: num_items is not `min(len(i) for i in self._token_values[tag].values())`")
    rng_loops = [n for n in find_nodes(fn, ast.For) if _src(n.iter) == "range(num_items)"]
    if len(rng_loops) != 1:
        raise TranslateError("DotProductCombinator._product: `for _ in range(num_items)` not found")
    pops = [n for n in find_nodes(rng_loops[0], ast.Call)
            if isinstance(n.func, ast.Attribute) and _src(n.func.value) == "elements"]
    if len(pops) != 1 or pops[0].args or pops[0].keywords or pops[0].func.attr not in ("pop", "popleft"):
        raise TranslateError("DotProductCombinator._product: expected exactly one `elements.pop()` / `elements.popleft()`")
    pops_right = "true" if pops[0].func.attr == "pop" else "false"
    items_loops = [n for n in find_nodes(rng_loops[0], ast.For) if _src(n.iter) == "self._token_values[tag].items()"]
    if len(items_loops) != 1:
        raise TranslateError("DotProductCombinator._product: `for key, elements in self._token_values[tag].items()` not found")
    # since fix 0672c9b: a FRESH variable receives get_tag(...) and the yielded tokens are retagged with it; the loop
    # variable `tag` of the enclosing `for tag in list(self._token_values)` must not be assigned inside the loop
    if any(isinstance(n, (ast.Assign, ast.AugAssign, ast.AnnAssign)) and "tag" in
           [_src(t) for t in (n.targets if isinstance(n, ast.Assign) else [n.target])] for n in ast.walk(outer[0])) or \
            any(isinstance(n, ast.NamedExpr) and n.target.id == "tag" for n in ast.walk(outer[0])):
        raise TranslateError("DotProductCombinator._product: the loop variable `tag` is re-assigned inside the loop "
                             "(the defect repaired by 0672c9b)")
    retags = [n for n in rng_loops[0].body if isinstance(n, ast.Assign)
              and _src(n.value) == "utils.get_tag([t['token'] for t in schema.values()])"]
    if len(retags) != 1 or len(retags[0].targets) != 1 or not isinstance(retags[0].targets[0], ast.Name):
        raise TranslateError("DotProductCombinator._product: `<name> = utils.get_tag([t['token'] for t in schema.values()])` not found")
    retag_var = retags[0].targets[0].id
    yields = find_nodes(rng_loops[0], ast.Yield)
    if len(yields) != 1 or f"t['token'].retag({retag_var})" not in _src(yields[0]):
        raise TranslateError(f"DotProductCombinator._product: the yielded schema does not retag every token with `{retag_var}`")
    # ---- CartesianProductCombinator._product ---------------------------------------------------------
    fn = parse_function(comb_py, "_product", cls="CartesianProductCombinator")
    cart_guard = _emit_guard(fn, "CartesianProductCombinator._product")
    keys = [s for s in fn.body if isinstance(s, ast.Assign) and _src(s.targets[0]) == "tag"]
    if len(keys) != 1:
        raise TranslateError("CartesianProductCombinator._product: `tag = …` not found")
    sl = _join_arg(keys[0].value, "CartesianProductCombinator._product")
    if not isinstance(sl, ast.Subscript) or _split_of(sl.value, "cart key") != "token.tag":
        raise TranslateError("CartesianProductCombinator._product: key is not a slice of token.tag.split('.')")
    if _neg_slice(sl, "cart key", ("self.depth",)) != "depth":
        raise TranslateError("CartesianProductCombinator._product: key is not `token.tag.split('.')[:-self.depth]`")
    prods = [n for n in find_nodes(fn, ast.Assign) if _src(n.targets[0]) == "cartesian_product"]
    if len(prods) != 1 or _src(prods[0].value) != ("utils.dict_product(**{k: [token] if k == port_name else v "
                                                   "for k, v in self._token_values[tag].items()})"):
        raise TranslateError("CartesianProductCombinator._product: dict_product arguments have an unexpected shape")
    sufs = [n for n in find_nodes(fn, ast.Assign) if _src(n.targets[0]) == "suffix"]
    if len(sufs) != 1 or not isinstance(sufs[0].value, ast.ListComp) or _src(sufs[0].value.generators[0].iter) != "schema.values()":
        raise TranslateError("CartesianProductCombinator._product: `suffix = [… for t in schema.values()]` not found")
    elt = sufs[0].value.elt
    if not (isinstance(elt, ast.Subscript) and _split_of(elt.value, "cart suffix") == "t.tag"):
        raise TranslateError("CartesianProductCombinator._product: suffix element is not an index of t.tag.split('.')")
    idx = elt.slice
    if isinstance(idx, ast.UnaryOp) and isinstance(idx.op, ast.USub) and isinstance(idx.operand, ast.Constant):
        k = idx.operand.value
        suffix_of = "t.getLast?" if k == 1 else f"(if t.length < {k} then none else t[t.length - {k}]?)"
    elif isinstance(idx, ast.Constant) and isinstance(idx.value, int):
        suffix_of = "t.head?" if idx.value == 0 else f"t[{idx.value}]?"
    else:
        raise TranslateError(f"CartesianProductCombinator._product: suffix index `{_src(idx)}` is not an integer literal")
    retag = [n for n in find_nodes(fn, ast.Call) if isinstance(n.func, ast.Attribute) and n.func.attr == "retag"]
    if len(retag) != 1 or len(retag[0].args) != 1:
        raise TranslateError("CartesianProductCombinator._product: exactly one `.retag(…)` expected")
    arg = _join_arg(retag[0].args[0], "cart retag")
    if not (isinstance(arg, ast.BinOp) and isinstance(arg.op, ast.Add) and _src(arg.right) == "suffix"
            and isinstance(arg.left, ast.Subscript) and _split_of(arg.left.value, "cart retag") == "t.tag"):
        raise TranslateError("CartesianProductCombinator._product: composite tag is not `t.tag.split('.')[:-k] + suffix`")
    keep = _neg_slice(arg.left, "cart retag", ())
    items_loop = [n for n in find_nodes(fn, ast.For) if _src(n.iter) == "self.items"]
    if len(items_loop) != 1:
        raise TranslateError("CartesianProductCombinator._product: `for key in self.items` not found")
    # ---- combine() of both classes: shape only -----------------------------------------------------------
    def check_combine(cls: str, add_nested: str, add_flat: str, product: str) -> None:
        fn_c = parse_function(comb_py, "combine", cls=cls)
        body_c = [st for st in fn_c.body if not (isinstance(st, ast.Expr) and isinstance(st.value, ast.Constant))]
        if len(body_c) != 1 or not isinstance(body_c[0], ast.If):
            raise TranslateError(f"{cls}.combine: expected one if/elif/else chain")
        i1 = body_c[0]
        if _src(i1.test) != "(c := self.get_combinator(port_name))" or len(i1.body) != 1 or not isinstance(i1.body[0], ast.AsyncFor):
            raise TranslateError(f"{cls}.combine: first branch is not `if c := self.get_combinator(port_name): async for schema in …`")
        loop = i1.body[0]
        if _src(loop.iter) not in ("cast(AsyncIterable, c.combine(port_name, token))", "c.combine(port_name, token)") \
                or _src(loop.target) != "schema":
            raise TranslateError(f"{cls}.combine: the inner combinator is not consumed by `async for schema in c.combine(port_name, token)`")
        want_prod = f"async for product in {product}:\n    yield product"
        if [_src(x) for x in loop.body] != [add_nested, want_prod]:
            raise TranslateError(f"{cls}.combine: nested branch is not `{add_nested}; async for product in {product}: yield product`")
        if len(i1.orelse) != 1 or not isinstance(i1.orelse[0], ast.If):
            raise TranslateError(f"{cls}.combine: `elif port_name in self.items` not found")
        i2 = i1.orelse[0]
        if _src(i2.test) != "port_name in self.items" or [_src(x) for x in i2.body] != [add_flat, want_prod]:
            raise TranslateError(f"{cls}.combine: flat branch is not `{add_flat}; async for product in {product}: yield product`")
        if len(i2.orelse) != 1 or not isinstance(i2.orelse[0], ast.Raise):
            raise TranslateError(f"{cls}.combine: the final branch does not raise")

    check_combine("DotProductCombinator", "self._add_to_list(schema, c.name, propagate=self._propagate)",
                  "self._add_to_list(token, port_name, propagate=self._propagate)", "self._product()")
    check_combine("CartesianProductCombinator", "self._add_to_list(schema, c.name, self.depth)",
                  "self._add_to_list(token, port_name, self.depth)", "self._product(port_name, token)")
    cinit = parse_function(comb_py, "__init__", cls="CartesianProductCombinator")
    cargs = [a.arg for a in cinit.args.args]
    if cargs != ["self", "name", "workflow", "depth"] or len(cinit.args.defaults) != 1 or \
            not (isinstance(cinit.args.defaults[0], ast.Constant) and isinstance(cinit.args.defaults[0].value, int)
                 and cinit.args.defaults[0].value >= 1) or "self.depth: int = depth" not in [_src(x) for x in cinit.body]:
        raise TranslateError("CartesianProductCombinator.__init__: expected `(self, name, workflow, depth: int = <literal >= 1>)` storing self.depth")
    cart_default_depth = cinit.args.defaults[0].value
    init = parse_function(comb_py, "__init__", cls="DotProductCombinator")
    if "self._propagate: bool = True" not in [_src(x) for x in init.body]:
        raise TranslateError("DotProductCombinator.__init__: `self._propagate: bool = True` not found (the model propagates)")
    # ---- CartesianProductCombinator._add_to_port ------------------------------------------------------
    fn = parse_function(comb_py, "_add_to_port", cls="CartesianProductCombinator")
    srcs = [_src(s) for s in fn.body]
    head = "if port_name not in tag_values:\n    tag_values[port_name] = deque()"
    dedup = "for t in tag_values[port_name]:\n    if t.tag == token.tag:\n        return"
    tail = "tag_values[port_name].append(token)"
    if srcs == [head, dedup, tail]:
        cart_dedup = "true"
    elif srcs == [head, tail]:
        cart_dedup = "false"
    else:
        raise TranslateError("CartesianProductCombinator._add_to_port: expected `create deque; [skip when a token with the same tag is present]; append`")
    text = f"""/-! GENERATED by harness/sfv/translate/combguards.py from streamflow/workflow/step.py and
    streamflow/workflow/combinator.py — do not edit. -/
namespace SFV.Gen

/-- `tag.split(".")[: len(parent_idx)] {parent_op} parent_idx` in `_is_parent_tag(tag, parent)`, on component lists -/
def isParentComps (tag parent : List Nat) : Bool := (tag.take parent.length {parent_op} parent)
/-- `len(self._token_values[tag]) == len(self.items)` in `DotProductCombinator._product` -/
def dotEmitGuard (cellLen itemsLen : Int) : Bool := {dot_guard}
/-- `elements.pop()` (right end, `true`) or `elements.popleft()` (`false`) in `DotProductCombinator._product` -/
def dotPopsRight : Bool := {pops_right}
/-- `len(self._token_values[tag]) == len(self.items)` in `CartesianProductCombinator._product` -/
def cartEmitGuard (cellLen itemsLen : Int) : Bool := {cart_guard}
/-- `token.tag.split(".")[: -self.depth]` (also `tag.split(".")[:-depth]` in `_add_to_list`) -/
def cartKey (depth : Nat) (t : List Nat) : List Nat := t.take (t.length - depth)
/-- the component every member contributes to the composite tag (`t.tag.split(".")[{_src(idx)}]`) -/
def cartSuffixOf (t : List Nat) : Option Nat := {suffix_of}
/-- the part of its own tag every member keeps (`t.tag.split(".")[:-{keep}]`) -/
def cartRetagKeep (t : List Nat) : List Nat := t.take (t.length - {keep})
/-- default of `depth` in `CartesianProductCombinator.__init__` (what the CWL translator, which never passes a depth, gets) -/
def cartDefaultDepth : Nat := {cart_default_depth}
/-- `CartesianProductCombinator._add_to_port` skips a token whose tag is already in the deque -/
def cartDedup : Bool := {cart_dedup}

end SFV.Gen
"""
    return TARGET, text
