import SFV.Model.ClaimStatus
/-! Invariant of the status-refined claim protocol. -/
namespace SFV.ClaimStatus
open SFV.Gen (JobStatus)

def Inv (s : St) : Prop :=
  (∀ j, s.claims j ≤ 1) ∧ (∀ j, reexecuting (s.status j) = false → s.claims j = 0) ∧
  (∀ p j, s.pend p = some j → s.holder j = some p ∧ reexecuting (s.status j) = false)

theorem inv_init : Inv init := ⟨by intro j; simp [init], by intro j _; rfl, by intro p j h; cases h⟩

theorem inv_step {seen : JobStatus → Bool} (hseen : ∀ st, reexecuting st = true → seen st = true)
    {s a s'} (h : Inv s) (hs : step seen s a = some s') : Inv s' := by
  obtain ⟨h1, h2, h3⟩ := h
  cases a with
  | acquire p j =>
    simp only [step] at hs
    split at hs <;> cases hs
    refine ⟨h1, h2, ?_⟩
    intro q k hq
    have := h3 q k hq
    grind
  | check p j =>
    simp only [step] at hs
    split at hs
    · split at hs <;> cases hs
      · exact ⟨h1, h2, h3⟩
      · refine ⟨h1, h2, ?_⟩
        intro q k hq
        have := h3 q k
        have := hseen (s.status j)
        grind
    · cases hs
  | claim p =>
    simp only [step] at hs
    split at hs
    · rename_i j hp
      cases hs
      obtain ⟨hh, hr⟩ := h3 p j hp
      have hc0 := h2 j hr
      refine ⟨?_, ?_, ?_⟩
      · intro k; have := h1 k; grind
      · intro k; have := h2 k; grind [reexecuting]
      · intro q k hq
        have := h3 q k
        grind
    · cases hs
  | release p j =>
    simp only [step] at hs
    split at hs <;> cases hs
    refine ⟨h1, h2, ?_⟩
    intro q k hq
    have := h3 q k hq
    grind
  | schedule j =>
    simp only [step] at hs
    split at hs <;> cases hs
    refine ⟨h1, ?_, ?_⟩
    · intro k; have := h2 k; grind [reexecuting]
    · intro q k hq; have := h3 q k hq; grind [reexecuting]
  | start j =>
    simp only [step] at hs
    split at hs <;> cases hs
    refine ⟨h1, ?_, ?_⟩
    · intro k; have := h2 k; grind [reexecuting]
    · intro q k hq; have := h3 q k hq; grind [reexecuting]
  | finish j ok =>
    simp only [step] at hs
    split at hs <;> cases hs
    refine ⟨?_, ?_, ?_⟩
    · intro k; have := h1 k; grind
    · intro k; have := h2 k; grind
    · intro q k hq; have := h3 q k hq; grind [reexecuting]

end SFV.ClaimStatus
