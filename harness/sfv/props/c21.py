"""C21 — the data-location registry answers consistently with its history (streamflow/data/manager.py)."""
from __future__ import annotations

import asyncio
import posixpath
import random
import sys
from pathlib import Path

from streamflow.core.data import DataLocation, DataType
from streamflow.core.deployment import ExecutionLocation
from streamflow.data.manager import DefaultDataManager

from sfv.framework import Ctx, Property
from sfv.rt.hexs import hx
from sfv.rt.loop import run_controlled
from sfv.translate import innerpath, srcloc

DRIVER = "Drivers/C21.lean"


_LOOP = asyncio.new_event_loop()


class _Ckpt:
    def register(self, data_location):
        pass


class _Deploy:
    def get_connector(self, name):
        return None


class _Context:
    checkpoint_manager = _Ckpt()
    deployment_manager = _Deploy()


def parts(p: str):
    return list(Path(p).parts)


def pp(p: str) -> str:
    ps = parts(p)
    return ",".join(hx(x) for x in ps) if ps else "~"


def prefixes(p: str):
    ps = parts(p)
    out = []
    for i in range(1, len(ps) + 1):
        out.append("/" + "/".join(ps[1:i]) if i > 1 else "/")
    return out


# ------------------------------------------------------------------------------------------------
# reference: the registry without its valid_paths cache, invalidation = the whole subtree on that location
# ------------------------------------------------------------------------------------------------
class RObj:
    __slots__ = ("loc", "path", "valid", "relpath")

    def __init__(self, loc, path, relpath=None):
        self.loc, self.path, self.valid, self.relpath = loc, path, True, relpath if relpath is not None else path


class Ref:
    def __init__(self):
        self.nodes: dict[str, dict[int, list[RObj]]] = {}

    def _put(self, node_path, obj):
        self.nodes.setdefault(node_path, {})
        ents = self.nodes[node_path].setdefault(obj.loc, [])
        if any(o.valid and o.path == obj.path for o in ents):
            return False
        ents.append(obj)
        return True

    def register(self, loc, path, relpath=None):
        rel = relpath or path
        obj = RObj(loc, path, rel)
        for q in reversed(prefixes(path)):
            self.nodes.setdefault(q, {})
        # a parent directory's relpath is the matching tail of the registered relpath, else its own name
        cur = rel
        for q in reversed(prefixes(path)):
            o = obj if q == path else RObj(loc, q, cur if cur and q.endswith(cur) else posixpath.basename(q))
            if not self._put(q, o):
                break
            cur = posixpath.dirname(cur)
        return obj

    def relate(self, src, dst):
        snapshot = [d for ents in self.nodes.get(src.path, {}).values() for d in ents]     # `get(path=src.path)` is a new list
        for d in snapshot:
            self._put(d.path, dst)
            self._put(dst.path, d)

    def invalidate(self, loc, path):
        if path != "" and path not in self.nodes:
            return "KeyError"
        for q, per in self.nodes.items():
            if q == path or path in ("/", "") or q.startswith(path.rstrip("/") + "/"):
                for o in per.get(loc, []):
                    o.valid = False
        return "ok"

    def get(self, path, loc):
        return sorted(o.path for o in self.nodes.get(path, {}).get(loc, []) if o.valid)

    def get_rel(self, path, loc):
        return sorted((o.path, o.relpath) for o in self.nodes.get(path, {}).get(loc, []) if o.valid)


# the wrapped location d2 (on d0): a mount nested inside another one, and one whose name merely starts like them
MOUNTS = {"/m": "/a", "/m/b": "/e/x", "/mm": "/b"}
# chained wrapping (d2 on d1 on d0): the mounts of d1
MOUNTS1 = {"/a": "/h/a", "/e/x": "/h/x"}


def spec_inner(path: str, mounts=None):
    """where a path of the wrapped location lives on the wrapped one: the LONGEST mount point that is a component-wise prefix"""
    ps = parts(path)
    best = None
    for mnt, target in (MOUNTS if mounts is None else mounts).items():
        ms = parts(mnt)
        if ps[: len(ms)] == ms and (best is None or len(ms) > len(parts(best[0]))):
            best = (mnt, target)
    if best is None:
        return None
    rest = ps[len(parts(best[0])):]
    return posixpath.join(best[1], *rest) if rest else best[1]


def gen_history(rng: random.Random, nloc: int, depth: int, nops: int, wrapped: bool = False):
    names = ["a", "b", "e", "f"]
    pool = []
    for _ in range(rng.randint(2, 6)):
        d = rng.randint(1, depth)
        pool.append("/" + "/".join(rng.choice(names) for _ in range(d)))
    ops, nreg, rloc = [], 0, []
    inner = set()          # indices of the inner (host side) objects of wrapped registrations: not handed to the caller
    for _ in range(nops):
        r = rng.random()
        if r < 0.45 or nreg < 2:
            p = rng.choice(pool)
            if rng.random() < 0.2:
                p = str(Path(p).parent) if p.count("/") > 1 else p
            l = rng.randrange(nloc)
            if l == 2 and wrapped:
                # location 2 wraps location 0 (MOUNTS): one register_path call registers both ends and relates them; the host path
                # is the one below the longest matching mount; a path below no mount is registered on the wrapper only
                outer = rng.choice(["/m", "/m", "/m/b", "/m/b", "/mm", "/q"]) + p
                host = spec_inner(outer)
                if host is None:
                    ops.append(("reg", 2, outer))
                    rloc.append(2)
                    nreg += 1
                    continue
                if wrapped == "chain":
                    # d2 wraps d1 wraps d0: one call registers up to three ends, each related to the outermost one
                    host0 = spec_inner(host, MOUNTS1)
                    ops.append(("wregc", 2, outer, 1, host, host0))
                    inner.add(nreg + 1)
                    rloc += [2, 1]
                    nreg += 2
                    if host0 is not None:
                        inner.add(nreg)
                        rloc.append(0)
                        nreg += 1
                    continue
                ops.append(("wreg", 2, outer, 0, host))
                inner.add(nreg + 1)
                rloc += [2, 0]
                nreg += 2
                continue
            if l == 1 and wrapped == "chain" and spec_inner(p, MOUNTS1) is not None:
                ops.append(("wreg", 1, p, 0, spec_inner(p, MOUNTS1)))       # d1 itself wraps d0
                inner.add(nreg + 1)
                rloc += [1, 0]
                nreg += 2
                continue
            comps = p.strip("/").split("/")
            rel = rng.choice([None, None, comps[-1], "/".join(comps[-2:]), "/".join(comps[-3:]), "/".join(comps), "zz/" + comps[-1]])
            ops.append(("reg", l, p) if rel is None else ("reg", l, p, rel))
            rloc.append(ops[-1][1])
            nreg += 1
        elif r < 0.65:
            # relations join copies on DIFFERENT locations (a transfer); what invalidating one of two related paths on the
            # same location should do to the other is not fixed by the property (the code follows the relation)
            a, b = rng.randrange(nreg), rng.randrange(nreg)
            if (rloc[a] != rloc[b] or rng.random() < 0.3) and not (wrapped and (a in inner or b in inner)):
                ops.append(("rel", a, b))
        else:
            p = rng.choice(pool)
            x = rng.random()
            if x < 0.3 and p.count("/") > 1:
                p = str(Path(p).parent)
            elif x < 0.35:
                p = "/"
            elif x < 0.38:
                p = "/zz/y"
            elif wrapped and x < 0.6:
                p = rng.choice(["/m", "/m/b", "/mm", "/e/x", "/e", "/a", "/a/b", "/b", "/h", "/h/x", "/h/a"]) + rng.choice(["", "", p])
            ops.append(("inv", rng.randrange(nloc), p))
    return ops


# ------------------------------------------------------------------------------------------------
# in-flight histories: get_source_location runs as a task while transfers are in progress
# ------------------------------------------------------------------------------------------------
def gen_flight(rng: random.Random):
    """ops: reg l p | fput l p src|None (a destination in flight: PRIMARY, `available` unset, as transfer_data puts it) |
    ask p l (start get_source_location(p, d_l) as a task and let it run until it blocks) | inv l p | sym k | avail k | tick"""
    nloc = rng.randint(2, 3)
    local0 = rng.random() < 0.4
    pool = rng.sample(["/a/f", "/b/g", "/a", "/b/e/f", "/e"], rng.randint(1, 3))
    ops, nreg, nfl, pending = [], 0, 0, []
    for _ in range(rng.randint(1, 3)):
        ops.append(("reg", rng.randrange(nloc), rng.choice(pool)))
        nreg += 1
    for _ in range(rng.randint(4, 14)):
        r = rng.random()
        if r < 0.25:
            src = rng.randrange(nreg) if rng.random() < 0.7 else None
            ops.append(("fput", rng.randrange(nloc), rng.choice(pool), src))
            pending.append(nfl)
            nfl += 1
        elif r < 0.5:
            # mostly ask for a deployment that has something in flight
            fl = [o for o in ops if o[0] == "fput"]
            if fl and rng.random() < 0.85:
                o = rng.choice(fl)
                # for its own deployment (first loop) or from another one (local / any loops)
                ops.append(("ask", o[2], o[1] if rng.random() < 0.5 else rng.randrange(nloc)))
            else:
                ops.append(("ask", rng.choice(pool), rng.randrange(nloc)))
        elif r < 0.65:
            fl = [o for o in ops if o[0] == "fput"]
            if fl and rng.random() < 0.7:
                o = rng.choice(fl)
                pth = o[2] if rng.random() < 0.6 else str(Path(o[2]).parent)
                ops.append(("inv", o[1], pth))
            else:
                ops.append(("inv", rng.randrange(nloc), rng.choice(pool + ["/"])))
        elif r < 0.85 and pending:
            k = pending.pop(rng.randrange(len(pending)))
            if rng.random() < 0.4:
                ops.append(("sym", k))           # the finished copy turns out to be a symbolic link
                if rng.random() < 0.25:
                    ops.append(("tick",))
            ops.append(("avail", k))
            ops.append(("tick",))
        elif r < 0.92:
            ops.append(("reg", rng.randrange(nloc), rng.choice(pool)))
            nreg += 1
        else:
            ops.append(("tick",))
    for k in pending:
        ops.append(("avail", k))
    ops.append(("tick",))
    return {"nloc": nloc, "local0": local0, "ops": ops}


FLIGHT_CORPUS = [
    # the destination in flight is invalidated before it becomes available: it must not be chosen
    {"nloc": 2, "local0": False, "ops": [("reg", 0, "/a/f"), ("fput", 1, "/a/f", 0), ("ask", "/a/f", 1), ("inv", 1, "/a/f"),
                                          ("avail", 0), ("tick",)]},
    # ... or completes as a symbolic link
    {"nloc": 2, "local0": True, "ops": [("reg", 0, "/a/f"), ("fput", 1, "/b/g", 0), ("ask", "/b/g", 1), ("sym", 0), ("avail", 0),
                                         ("tick",)]},
    # only the in-flight copy exists and it is lost: None
    {"nloc": 2, "local0": False, "ops": [("fput", 1, "/e", None), ("ask", "/e", 1), ("ask", "/e", 0), ("inv", 1, "/"), ("avail", 0),
                                          ("tick",)]},
    # the same through the loop over local locations and through the loop over all locations
    {"nloc": 2, "local0": True, "ops": [("fput", 0, "/a/f", None), ("ask", "/a/f", 1), ("inv", 0, "/a/f"), ("avail", 0), ("tick",)]},
    {"nloc": 3, "local0": False, "ops": [("fput", 2, "/b/g", None), ("ask", "/b/g", 1), ("sym", 0), ("tick",), ("avail", 0), ("tick",)]},
    # it completes as a primary copy: chosen once available
    {"nloc": 3, "local0": False, "ops": [("reg", 0, "/a/f"), ("fput", 2, "/a/f", 0), ("ask", "/a/f", 2), ("tick",), ("avail", 0),
                                          ("tick",)]},
]

DT = {DataType.PRIMARY: "p", DataType.SYMBOLIC_LINK: "s", DataType.INVALID: "i"}


CORPUS = [
    # DESIGN §6 #12: relate after invalidate of the related path is ignored
    [("reg", 0, "/a/f"), ("reg", 1, "/b/g"), ("rel", 0, 1), ("inv", 1, "/b/g"), ("reg", 1, "/b/g"), ("rel", 0, 2)],
    # DESIGN §6 #21: unbounded recursion
    [("reg", 0, "/e/f"), ("reg", 0, "/e"), ("rel", 0, 1), ("inv", 0, "/e")],
    # a subtree skipped by the invalidation walk
    [("reg", 1, "/b/e/a"), ("reg", 0, "/b"), ("reg", 1, "/b/e/a/f"), ("rel", 1, 0), ("inv", 1, "/")],
    # wrapped location d2 (mount /m -> /a on d0): one call registers both ends
    [("reg", 1, "/x"), ("wreg", 2, "/m/c/f", 0, "/a/c/f"), ("inv", 0, "/a/c/f"), ("wreg", 2, "/m/c/f", 0, "/a/c/f"), ("inv", 2, "/m")],
    # chained wrapping: d2:/m/b/f -> d1:/e/x/f -> d0:/h/x/f, all related to the outermost; d2:/mm/f stops on d1 (/b/f is below no mount)
    [("wregc", 2, "/m/b/f", 1, "/e/x/f", "/h/x/f"), ("wregc", 2, "/mm/f", 1, "/b/f", None), ("inv", 0, "/h/x"), ("wreg", 1, "/a/f", 0, "/h/a/f"),
     ("inv", 1, "/e"), ("wregc", 2, "/m/b/f", 1, "/e/x/f", "/h/x/f")],
    # nested mounts: /m/b/f/g lives below /e/x (mount /m/b), not below /a/b (mount /m); invalidating the host side reaches it
    [("wreg", 2, "/m/b/f/g", 0, "/e/x/f/g"), ("wreg", 2, "/m/a/f", 0, "/a/a/f"), ("wreg", 2, "/mm/a", 0, "/b/a"), ("inv", 0, "/e/x"),
     ("wreg", 2, "/m/b/f/g", 0, "/e/x/f/g"), ("inv", 0, "/a")],
    [("reg", 0, "/a/b/c"), ("inv", 0, "/a"), ("reg", 0, "/a/b/c"), ("reg", 1, "/a/b"), ("inv", 0, "/a/b/c"), ("inv", 1, "/")],
    [("reg", 0, "/a"), ("reg", 0, "/a"), ("inv", 0, "/a"), ("inv", 0, "/a"), ("reg", 0, "/a"), ("inv", 0, "/zz")],
    [("reg", 0, "/a/f"), ("reg", 0, "/b/g"), ("rel", 0, 1), ("inv", 0, "/a"), ("reg", 0, "/a/f")],
]


class C21(Property):
    pid = "C21"
    title = "The data-location registry answers consistently with its history"
    lean_targets = ["SFV.Props.C21", "SFV.Model.Proto"]
    props_files = ["SFV/Props/C21.lean"]
    drivers = [DRIVER]
    translators = [srcloc.generate, innerpath.generate]
    rule = ("random operation histories (register_path, register_relation between earlier registrations, invalidate_location on "
            "registered paths, their ancestors, the root and unknown paths) over path trees of depth 1..4 on 1..3 locations; after "
            "every operation get_data_locations is read for every (node path, location) on the real DefaultDataManager, on the Lean "
            "model of the code as written (driver) and on a reference registry (no valid_paths cache, invalidation = every object of "
            "that location stored in the subtree) = the property monitor; relations join any two registrations (same or different location). Non-trivial = distinct history with an invalidation followed by a "
            "registration or relation. In-flight histories: destinations put as transfer_data puts them (PRIMARY, `available` unset), "
            "get_source_location started as tasks on a seeded controlled event loop, then invalidations / completion as a symbolic "
            "link / `available.set()` in every order; monitor: whatever is returned is PRIMARY, available and listed at return time, "
            "None only when every primary copy found at call time is gone; each resumption compared with the Lean task model.")
    trusted_base = [
        "modelled, not verified: pathlib.Path(p).parts and posixpath.join on normalised absolute paths; dict/list/set semantics; "
        "DataLocation objects as heap cells with a mutable validity flag; in the task model of get_source_location the heap of "
        "DataLocation states (deployment, local, data_type, available) between two resumptions is arbitrary (mirrored from the real "
        "objects in the correspondence check); asyncio: a task runs until it awaits an unset Event",
        "translator harness/sfv/translate/srcloc.py (ast shape of the three candidate loops -> SFV/Gen/SourceLoc.lean)",
        "translator harness/sfv/translate/innerpath.py (the sort order of the mounts in get_inner_path -> SFV/Gen/InnerPath.lean); "
        "Python's string order on mount points is modelled by Lean's String order; PurePath.is_relative_to = component-wise prefix",
        "a registration on a wrapped location (mount points, get_inner_path) enters the Lean model as its three primitive steps: register outer, register inner, relate",
    ]
    technique = ("Lean 4 model of the trie with object identities (heap) and the valid_paths cache; an inductive invariant over every "
                 "history (registrations, relations, invalidations); differential correspondence")
    level_text = ("grade A: for every history of registrations, relations and invalidations of the repaired code (fix 5f6015f): the "
                  "valid_paths cache never hides a valid location, so put's test is the cache-free test (registry_refines_spec); "
                  "invalidate_location always returns (invalidate_total), leaves nothing available on that location at or beneath the "
                  "path, touches no object of another location and only clears validity (invalidate_subtree); a registration always "
                  "makes the path available (reregister_available); get_source_location, run as a task while transfers are in flight "
                  "against an arbitrary environment, only returns a location that is PRIMARY and available at return time "
                  "(source_is_valid_primary) and returns None only if every candidate was lost (source_none_only_if_lost); a path of a "
                  "wrapping location is mapped through the longest matching mount (inner_path_uses_longest_mount); model compared with the real DefaultDataManager after every "
                  "operation of random histories, the three histories that failed before the fix kept as regression guards")
    level_note = ("Lean kernel, axioms within {propext, Classical.choice, Quot.sound}; hand-written model tied to the code by the "
                  "correspondence check")
    assumptions = ["paths are normalised absolute POSIX paths; one location name per deployment"]
    quick_budget_s = 480          # generous: the machine may be heavily loaded
    min_nontrivial = 30

    def _fail(self, ctx: Ctx, key, detail, replay):
        """known findings are reported a few times per key, so that the failure list keeps room for other kinds"""
        self._per_key[key] = self._per_key.get(key, 0) + 1
        if self._per_key[key] <= 5:
            ctx.fail(key, detail, replay)
        else:
            ctx.count("more:" + key)

    def _run(self, ctx: Ctx, ops, nloc, lines, expect, meta, bucket):
        dm = DefaultDataManager(_Context())
        locs = [ExecutionLocation(name="loc", deployment=f"d{i}", local=False) for i in range(nloc)]
        if any(o[0] == "wregc" for o in ops) or any(o[0] == "wreg" and o[1] == 1 for o in ops):
            locs[1] = ExecutionLocation(name="loc", deployment="d1", local=False, mounts=dict(MOUNTS1), wraps=locs[0])
            locs[2] = ExecutionLocation(name="loc", deployment="d2", local=False, mounts=dict(MOUNTS), wraps=locs[1])
        elif any(o[0] == "wreg" for o in ops):
            locs[2] = ExecutionLocation(name="loc", deployment="d2", local=False, mounts=dict(MOUNTS), wraps=locs[0])
        ref = Ref()
        regs, rregs = [], []
        universe = set()
        lines.append("new")
        expect.append("ok")
        meta.append((ops, -1, "new"))
        nontriv, seen_inv = False, False
        for i, op in enumerate(ops):
            if op[0] == "reg":
                _, l, p = op[:3]
                rel = op[3] if len(op) > 3 else None
                regs.append(dm.register_path(locs[l], p, relpath=rel))
                rregs.append(ref.register(l, p, rel))
                universe.update(prefixes(p))
                res, rres = "ok", "ok"
                lines.append(f"reg {l} {pp(p)}")
                if seen_inv:
                    nontriv = True
            elif op[0] == "wreg":
                _, l, p, li, pi = op
                self._inner(ctx, locs[l], p, lines, expect, meta, ops, i)
                regs += [dm.register_path(locs[l], p), None]           # one call: outer + inner registration + relation
                ro, ri = ref.register(l, p), ref.register(li, pi)
                ref.relate(ro, ri)
                rregs += [ro, ri]
                universe.update(prefixes(p))
                universe.update(prefixes(pi))
                res, rres = "ok", "ok"
                k = len(regs) - 2
                lines += [f"reg {l} {pp(p)}", f"reg {li} {pp(pi)}", f"rel {k} {k + 1}"]
                expect += ["ok", "ok"]
                meta += [(ops, i, "wreg"), (ops, i, "wreg")]
                if seen_inv:
                    nontriv = True
            elif op[0] == "wregc":
                _, l, p, l1, p1, p0 = op
                self._inner(ctx, locs[l], p, lines, expect, meta, ops, i)
                self._inner(ctx, locs[l1], p1, lines, expect, meta, ops, i)
                regs += [dm.register_path(locs[l], p), None]           # one call: every end of the chain + the relations
                ro, r1 = ref.register(l, p), ref.register(l1, p1)
                ref.relate(ro, r1)
                rregs += [ro, r1]
                universe.update(prefixes(p))
                universe.update(prefixes(p1))
                k = len(regs) - 2
                lines += [f"reg {l} {pp(p)}", f"reg {l1} {pp(p1)}", f"rel {k} {k + 1}"]
                expect += ["ok", "ok"]
                meta += [(ops, i, "wregc"), (ops, i, "wregc")]
                if p0 is not None:
                    regs.append(None)
                    r0 = ref.register(0, p0)
                    ref.relate(ro, r0)
                    rregs.append(r0)
                    universe.update(prefixes(p0))
                    lines += [f"reg 0 {pp(p0)}", f"rel {k} {k + 2}"]
                    expect += ["ok", "ok"]
                    meta += [(ops, i, "wregc"), (ops, i, "wregc")]
                res, rres = "ok", "ok"
                if seen_inv:
                    nontriv = True
            elif op[0] == "rel":
                _, a, b = op
                dm.register_relation(regs[a], regs[b])
                ref.relate(rregs[a], rregs[b])
                res, rres = "ok", "ok"
                lines.append(f"rel {a} {b}")
                if seen_inv:
                    nontriv = True
            else:
                _, l, p = op
                seen_inv = True
                old = sys.getrecursionlimit()
                try:
                    sys.setrecursionlimit(400)
                    dm.invalidate_location(locs[l], p)
                    res = "ok"
                except KeyError:
                    res = "KeyError"
                except RecursionError:
                    res = "RecursionError"
                finally:
                    sys.setrecursionlimit(old)
                rres = ref.invalidate(l, p)
                lines.append(f"inv {l} {pp(p)}")
            expect.append(res)
            meta.append((ops, i, op[0]))
            ctx.count("op:" + op[0] + ("" if res == "ok" else ":" + res))
            if res == "RecursionError":
                self._fail(ctx, "registry:invalidate-recursion", f"invalidate_location({op[1]}, {op[2]!r}) raises RecursionError after {ops[:i]}",
                         {"ops": ops[: i + 1], "nloc": nloc})
                break
            if res != rres:
                ctx.fail("registry:" + op[0] + ":" + res, f"{op} -> {res}, reference {rres}, after {ops[:i]}", {"ops": ops[: i + 1], "nloc": nloc})
                break
            if res == "KeyError":
                continue
            diffs = []
            for q in sorted(universe):
                for l in range(nloc):
                    real = sorted(o.path for o in dm.get_data_locations(q, deployment=f"d{l}", location_name="loc"))
                    want = ref.get(q, l)
                    lines.append(f"get {l} {pp(q)}")
                    expect.append(";".join(pp(x) for x in sorted(real, key=pp)) or "-")
                    meta.append((ops, i, f"get_data_locations({q!r}, d{l})"))
                    if real != want:
                        diffs.append((q, l, real, want))
                    else:
                        rel_real = sorted((o.path, o.relpath) for o in dm.get_data_locations(q, deployment=f"d{l}", location_name="loc"))
                        if rel_real != ref.get_rel(q, l) and len(set(x for x, _ in rel_real)) == len(rel_real):
                            self._fail(ctx, "registry:relpath-differs",
                                       f"after {ops[: i + 1]}: get_data_locations({q!r}, d{l}) has (path, relpath) {rel_real}, expected "
                                       f"{ref.get_rel(q, l)}", {"ops": ops[: i + 1], "nloc": nloc})
                    # the data_type filter, against the unfiltered answer
                    allv = dm.get_data_locations(q, deployment=f"d{l}", location_name="loc")
                    for dt in (DataType.PRIMARY, DataType.SYMBOLIC_LINK, DataType.INVALID):
                        typed = dm.get_data_locations(q, deployment=f"d{l}", location_name="loc", data_type=dt)
                        if sorted(map(id, typed)) != sorted(id(v) for v in allv if v.data_type == dt):
                            self._fail(ctx, "registry:data-type-filter",
                                       f"after {ops[: i + 1]}: get_data_locations({q!r}, d{l}, data_type={dt.name}) returns "
                                       f"{[(v.path, v.data_type.name) for v in typed]}, the unfiltered answer holds "
                                       f"{[(v.path, v.data_type.name) for v in allv]}", {"ops": ops[: i + 1], "nloc": nloc})
            # the source location chosen for a transfer is a valid primary copy of that path
            hung = False
            for q in sorted(universe)[:6]:
                if hung:
                    break
                for l in range(nloc):
                    try:
                        src = _LOOP.run_until_complete(asyncio.wait_for(dm.get_source_location(q, f"d{l}"), 5))
                    except asyncio.TimeoutError:
                        self._fail(ctx, "registry:source-location-hangs",
                                   f"after {ops[: i + 1]}: get_source_location({q!r}, d{l}) does not return although no transfer is "
                                   f"in flight (a registered location never becomes available)", {"ops": ops[: i + 1], "nloc": nloc})
                        hung = True
                        self._hangs = getattr(self, "_hangs", 0) + 1
                        break
                    ctx.count("get_source_location:" + ("none" if src is None else "some"))
                    valid = [v for v in dm.get_data_locations(q) if v.data_type == DataType.PRIMARY]     # not through the typed query
                    if (src is None) != (not valid) or (src is not None and (src.data_type != DataType.PRIMARY or not any(src is v for v in valid))):
                        self._fail(ctx, "registry:source-location-not-a-valid-primary",
                                   f"after {ops[: i + 1]}: get_source_location({q!r}, d{l}) = "
                                   f"{None if src is None else (src.deployment, src.path, src.data_type.name)}, valid primaries "
                                   f"{[(v.deployment, v.path) for v in valid]}", {"ops": ops[: i + 1], "nloc": nloc})
            if hung:
                break
            if diffs:
                has_rel = any(o[0] in ("rel", "wreg", "wregc") for o in ops[: i + 1])
                stale = []

                def walk(node, where, l):
                    vp = node.valid_paths.get(f"d{l}", {}).get("loc", set())
                    objs = node.locations.get(f"d{l}", {}).get("loc", [])
                    stale.extend((where, x) for x in vp if not any(o.path == x and o.data_type != DataType.INVALID for o in objs))
                    for tok, ch in node.children.items():
                        walk(ch, where + [tok], l)

                def beneath(q, p):
                    return p == "/" or q == p or q.startswith(p.rstrip("/") + "/")

                key, shown = None, diffs[0]
                if op[0] == "inv":
                    other_loc = [d for d in diffs if d[1] != op[1]]
                    b_extra = [d for d in diffs if d[1] == op[1] and beneath(d[0], op[2]) and [x for x in d[2] if x not in d[3]]]
                    if other_loc:
                        key, shown = "registry:invalidate-touches-other-location", other_loc[0]
                    elif b_extra:
                        key, shown = "registry:invalidate-skips-subtree", b_extra[0]
                else:
                    q, l, real, want = diffs[0]
                    walk(dm.path_mapper._filesystem, [], l)
                    if [x for x in want if x not in real] and not [x for x in real if x not in want] and stale and has_rel:
                        key = "registry:stale-valid-paths-hide-new-location"
                q, l, real, want = shown
                self._fail(ctx, key or "registry:differs-from-reference",
                           f"after {ops[: i + 1]}: get_data_locations({q!r}, d{l}) = {real}, reference {want}; stale valid_paths {stale[:4]}",
                           {"ops": ops[: i + 1], "nloc": nloc})
                break
        ctx.case({"ops": [list(o) for o in ops[:10]], "nloc": nloc}, ("h", nloc, repr(ops)) if nontriv else None, bucket)

    def _inner(self, ctx: Ctx, loc, path, lines, expect, meta, ops, i):
        """get_inner_path on the real classes against the Lean model (and the independent `spec_inner`)"""
        from streamflow.data.remotepath import StreamFlowPath, get_inner_path
        for q in (path, str(Path(path).parent), "/q/zz", "/mm", "/m/b"):
            got = get_inner_path(StreamFlowPath(q, context=_Context(), location=loc))
            got = None if got is None else str(got)
            mounts = ";".join(f"{pp(k)}>{pp(v)}" for k, v in loc.mounts.items())
            lines.append(f"inner {mounts} {pp(q)}")
            expect.append("desc=1|" + ("~" if got is None else pp(got)))
            meta.append((ops, i, f"get_inner_path({q!r})"))
            ctx.count("inner-path:" + ("none" if got is None else "some"))
            if got != spec_inner(q, loc.mounts):
                self._fail(ctx, "registry:inner-path-not-longest-mount",
                           f"get_inner_path({q!r}) with mounts {dict(loc.mounts)} = {got!r}, the longest matching mount gives {spec_inner(q, loc.mounts)!r}",
                           {"ops": ops[: i + 1], "nloc": 3})

    def _flight(self, ctx: Ctx, h, seed, lines, expect, meta, bucket):
        nloc, ops = h["nloc"], [tuple(o) for o in h["ops"]]
        replay = {"flight": {"nloc": nloc, "local0": h["local0"], "ops": [list(o) for o in ops]}, "seed": seed}
        out = {"lines": ["fnew"], "expect": ["ok"], "what": ["fnew"], "fails": [], "asked": 0, "blocked": 0, "lost": 0}

        async def drive():
            dm = DefaultDataManager(_Context())
            locs = [ExecutionLocation(name="loc", deployment=f"d{i}", local=(i == 0 and h["local0"])) for i in range(nloc)]
            regs, flights, tasks, results = [], [], [], {}
            known, state = [], []                        # the DataLocation objects the model has been told about

            def emit(line, exp, what):
                out["lines"].append(line)
                out["expect"].append(exp)
                out["what"].append(what)

            def sync(objs, what):
                for o in objs:
                    if not any(o is k for k in known):
                        known.append(o)
                        state.append((o.data_type, o.available.is_set()))
                        emit(f"floc {int(o.deployment[1:])} {int(o.location.local)} {DT[o.data_type]} {int(o.available.is_set())}", "ok", what)
                for i, o in enumerate(known):
                    t, a = state[i]
                    if o.data_type != t:
                        emit(f"ftype {i} {DT[o.data_type]}", "ok", what)
                    if o.available.is_set() and not a:
                        emit(f"favail {i}", "ok", what)
                    state[i] = (o.data_type, o.available.is_set())

            def idx(o):
                return next(i for i, k in enumerate(known) if k is o)

            async def ask(k, path, dep, at_call):
                src = await dm.get_source_location(path, dep)
                # no suspension between the return above and this line: the state read here is the state at return time
                listed = dm.get_data_locations(path)
                results[k] = src
                if src is not None:
                    bad = []
                    if src.data_type != DataType.PRIMARY:
                        bad.append(f"its data_type is {src.data_type.name}")
                    if not src.available.is_set():
                        bad.append("it is not available")
                    if not any(src is v for v in listed):
                        bad.append("get_data_locations does not list it")
                    if bad:
                        out["fails"].append(("registry:source-location-not-a-valid-primary",
                                             f"get_source_location({path!r}, {dep}) returned ({src.deployment}, {src.path}) although "
                                             + " and ".join(bad) + " at return time"))
                else:
                    left = [v for v in at_call if v.data_type == DataType.PRIMARY]
                    if left:
                        out["fails"].append(("registry:source-location-missed",
                                             f"get_source_location({path!r}, {dep}) returned None although "
                                             f"{[(v.deployment, v.path) for v in left]} found at call time are still PRIMARY"))

            async def tick(what):
                sync([], what)
                for _ in range(4):
                    await asyncio.sleep(0)
                emit("ftick", ";".join(("w" if k not in results else "n" if results[k] is None else str(idx(results[k])))
                                       for k in range(len(tasks))) or "-", what)

            for i, op in enumerate(ops):
                what = f"{op} (op {i})"
                if op[0] == "reg":
                    regs.append(dm.register_path(locs[op[1]], op[2]))
                elif op[0] == "fput":
                    _, l, pth, src = op
                    if str(Path(pth).parent) != pth:
                        dm.register_path(locs[l], str(Path(pth).parent))
                    dl = DataLocation(location=locs[l], path=pth, relpath=pth, data_type=DataType.PRIMARY)
                    dm.path_mapper.put(path=pth, data_location=dl)
                    if src is not None and src < len(regs):
                        dm.register_relation(regs[src], dl)
                    flights.append(dl)
                elif op[0] == "ask":
                    _, pth, l = op
                    dep = f"d{l}"
                    at_call = dm.get_data_locations(path=pth, data_type=DataType.PRIMARY)
                    independent = [v for v in dm.get_data_locations(path=pth) if v.data_type == DataType.PRIMARY]
                    if sorted(map(id, at_call)) != sorted(map(id, independent)):
                        out["fails"].append(("registry:data-type-filter",
                                             f"get_data_locations({pth!r}, data_type=PRIMARY) = {[(v.deployment, v.path) for v in at_call]}, "
                                             f"the unfiltered answer has the primaries {[(v.deployment, v.path) for v in independent]}"))
                    same = list({loc for loc in at_call if loc.deployment == dep})            # the iteration orders of the code's sets
                    local = list({loc for loc in at_call if loc.location.local})
                    sync(at_call, what)
                    fmt = lambda xs: ",".join(str(idx(x)) for x in xs) or "~"     # noqa: E731
                    emit(f"fask {fmt(same)} {fmt(local)} {fmt(at_call)}", "ok", what)
                    k = len(tasks)
                    tasks.append(asyncio.create_task(ask(k, pth, dep, list(independent))))
                    out["asked"] += 1
                    await tick(what)
                    if k not in results:
                        out["blocked"] += 1
                elif op[0] == "inv":
                    try:
                        dm.invalidate_location(locs[op[1]], op[2])
                    except KeyError:
                        pass
                elif op[0] == "sym":
                    if op[1] < len(flights):
                        flights[op[1]].data_type = DataType.SYMBOLIC_LINK
                elif op[0] == "avail":
                    if op[1] < len(flights):
                        flights[op[1]].available.set()
                else:
                    await tick(what)
            for dl in flights:
                dl.available.set()
            await tick("end")
            if len(results) != len(tasks):
                out["fails"].append(("registry:source-location-hangs", "a get_source_location call did not return although every location is available"))
            out["lost"] = sum(1 for dl in flights if dl.data_type != DataType.PRIMARY)

        try:
            run_controlled(drive, seed=seed, timeout=10)
        except TimeoutError:
            out["fails"].append(("registry:source-location-hangs", "the history did not finish in 10 s"))
            self._hangs = getattr(self, "_hangs", 0) + 1
        for key, detail in out["fails"]:
            self._fail(ctx, key, f"in-flight history {ops}: {detail}", replay)
        lines += out["lines"]
        expect += out["expect"]
        meta += [(ops, len(ops), w + " [in-flight]", replay) for w in out["what"]]
        ctx.count("flight:asks", out["asked"])
        ctx.count("flight:asks-blocked", out["blocked"])
        nontriv = out["blocked"] > 0 and out["lost"] > 0
        ctx.case({"flight": [list(o) for o in ops[:10]]}, ("flight", nloc, h["local0"], repr(ops)) if nontriv else None, bucket)

    def explore(self, ctx: Ctx) -> None:
        rng = ctx.rng
        self._per_key = {}
        self._hangs = 0
        lines, expect, meta = [], [], []
        for j, h in enumerate(FLIGHT_CORPUS):
            if self._hangs >= 3:
                break
            self._flight(ctx, h, j, lines, expect, meta, "flight:corpus")
            ctx.corpus_replayed += 1
        nf = 300 if ctx.tier == "quick" else 3000
        if ctx.mode == "search":
            nf *= 3
        for k in range(nf):
            if ctx.out_of_time() or self._hangs >= 3:
                break
            self._flight(ctx, gen_flight(rng), ctx.seed * 100003 + k, lines, expect, meta, "flight:random")
        for ops in CORPUS:
            if self._hangs >= 3:
                break
            self._run(ctx, ops, 3 if any(o[0] in ("wreg", "wregc") for o in ops) else 2, lines, expect, meta, "corpus")
            ctx.corpus_replayed += 1
        n = 400 if ctx.tier == "quick" else 5000
        if ctx.mode == "search":
            n *= 3
        for k in range(n):
            if ctx.out_of_time() or self._hangs >= 3:
                ctx.extra["histories_run"] = k
                if k < 100 and self._hangs < 3:
                    ctx.extra["incomplete"] = True
                break
            nloc = rng.randint(1, 3)
            wrapped = nloc == 3 and rng.random() < 0.5
            if wrapped and rng.random() < 0.4:
                wrapped = "chain"
            self._run(ctx, gen_history(rng, nloc, rng.randint(1, 4), rng.randint(3, 14), wrapped), nloc, lines, expect, meta,
                      "random:wrapped-chain" if wrapped == "chain" else "random:wrapped" if wrapped else "random")
        got = ctx.lean(DRIVER, lines)
        seen = set()
        for gl, e, m in zip(got, expect, meta):
            ops, i, what = m[:3]
            if gl != e and id(ops) not in seen:
                seen.add(id(ops))
                ctx.disagree("model vs DefaultDataManager", f"{what} after {ops[: i + 1]}: code {e!r}, Lean model {gl!r}",
                             m[3] if len(m) > 3 else {"ops": ops[: i + 1]})

    def replay(self, ctx: Ctx, data) -> None:
        r = data.get("replay") or (data.get("no_longer_checks") or [{}])[0].get("case") or {}
        lines, expect, meta = [], [], []
        self._per_key = {}
        if "flight" in r:
            self._flight(ctx, r["flight"], r.get("seed", 0), lines, expect, meta, "replay")
            got = ctx.lean(DRIVER, lines)
            for ln, gl, e in zip(lines, got, expect):
                print(f"{ln:40s} code {e}   model {gl}" + ("" if gl == e else "   <-- model differs"))
            return
        if "ops" not in r:
            return super().replay(ctx, data)
        ops = [tuple(o) for o in r["ops"]]
        self._run(ctx, ops, r.get("nloc", 3), lines, expect, meta, "replay")
        got = ctx.lean(DRIVER, lines)
        for ln, gl, e in zip(lines, got, expect):
            flag = "" if gl == e else "   <-- model differs"
            print(f"{ln:40s} code {e}   model {gl}{flag}")


PROPERTY = C21()
