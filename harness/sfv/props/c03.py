"""C03 — ports deliver every token to every consumer exactly once, in order; filter and inter-workflow ports."""
from __future__ import annotations

import asyncio
import itertools
import json

from streamflow.core.workflow import Port, Status, Token
from streamflow.workflow.port import BoundaryAction, FilterTokenPort, InterWorkflowPort
from streamflow.workflow.token import TerminationToken

from sfv.framework import Ctx, Property
from sfv.rt.loop import run_controlled
from sfv.rt.shrink import ddmin

# tags are opaque to the port code (compared for equality only); the model sees their index
TAGS = ["0", "0.0", "0.1", "0.2", "0.10", "0.1.0", "1"]
STATUSES = [4, 4, 4, 3, 5, 6, 9]  # COMPLETED (mostly), SKIPPED, FAILED, CANCELLED, RECOVERED
NCONS = 4
NEXT = 3


def _tokstr(t) -> str:
    if isinstance(t, TerminationToken):
        return f"T{int(t.value)}"
    return f"d{TAGS.index(t.tag)}:{t.value}"


def _opstr(op) -> str:
    if op[0] == "p":
        return f"p:{op[1]}:{op[2]}:{op[3]}"
    if op[0] in ("g", "c"):
        return f"{op[0]}:{op[1]}"
    if op[0] == "a":
        opts = op[5] if len(op) > 5 else {}
        extra = "".join(f"[{k}={v}]" for k, v in sorted(opts.items()))
        return f"a:{op[1]}:{op[2]}:{op[3]}:{','.join(map(str, op[4])) or '-'}{extra}"
    if op[0] == "b":
        return "B." + _opstr(op[1])
    raise ValueError(op)


def model_line(case) -> str:
    ops = " ".join(_opstr(o) for o in case["eff"])
    if case["kind"] == "plain":
        return f"plain {ops}".rstrip()
    if case["kind"] == "filter":
        return f"filter {','.join(map(str, case['admit'])) or '-'} {ops}".rstrip()
    return f"iw {ops}".rstrip()


class _Rig:
    """one real port with its boundary ports, consumers and the effective history issued on it"""

    def __init__(self, kind, case, name):
        self.kind, self.disc = kind, case.get("disc", False)
        self.exts = [Port(None, f"{name}-e{k}") for k in range(NEXT)]
        if kind == "plain":
            self.port = Port(None, name)
        elif kind == "filter":
            admitted = {TAGS[i] for i in case["admit"]}
            self.port = FilterTokenPort(None, name, filter_function=lambda t: t.tag in admitted)
        else:
            self.port = InterWorkflowPort(None, name)
        self.recv: dict[int, list] = {}
        self.pending: dict[int, tuple] = {}
        self.err: dict[int, bool] = {}
        self.eff, self.put_objs, self.closes = [], [], []

    @staticmethod
    def cname(c):
        return f"/step{c}/in"

    async def settle(self):
        for _ in range(3):
            await asyncio.sleep(0)
        for c, (task, _first) in list(self.pending.items()):
            if task.done():
                del self.pending[c]
                try:
                    self.recv[c].append(task.result())
                except ValueError:
                    self.err[c] = True

    async def do_get(self, c):
        first = self.cname(c) not in self.port.queues
        self.recv.setdefault(c, [])
        self.pending[c] = (asyncio.create_task(self.port.get(self.cname(c))), first)
        await self.settle()

    async def apply(self, op, shared):
        port = self.port
        if op[0] == "p":
            tok = TerminationToken(Status(op[3])) if op[1] else Token(value=op[3], tag=TAGS[op[2]])
            self.put_objs.append(tok)
            port.put(tok)
            self.eff.append(op[:4])
            await self.settle()
        elif op[0] == "g":
            c = op[1]
            if c in self.pending or self.err.get(c):
                return
            if self.disc and any(isinstance(t, TerminationToken) for t in self.recv.get(c, [])):
                return  # the read discipline of every step: stop after the termination token
            self.eff.append(op)
            await self.do_get(c)
        elif op[0] == "c":
            self.eff.append(op)
            self.closes.append([op[1], self.cname(op[1]) in port.queues, len(self.recv.get(op[1], []))])
            try:
                port.close(self.cname(op[1]))
            except ValueError:
                self.err[op[1]] = True
        elif op[0] == "a":
            target = port if op[1] == "s" else self.exts[int(op[1][1:])]
            action = BoundaryAction(0)
            if op[2]:
                action |= BoundaryAction.PROPAGATE
            if op[3]:
                action |= BoundaryAction.TERMINATE
            opts = op[5] if len(op) > 5 else {}
            if "share" in opts:
                # the caller passes the SAME list object to several add_inter_port calls (possibly on different ports)
                lst = shared.setdefault(opts["share"], [TAGS[i] for i in op[4]])
            else:
                lst = [TAGS[i] for i in op[4]]
            by_value = [TAGS.index(t) for t in lst]          # what the call means: the tags at call time
            port.add_inter_port(target, lst, action)
            if opts.get("mutate") == "clear":                # the caller goes on using (mutating) its own list
                lst.clear()
            elif opts.get("mutate") == "pop" and lst:
                lst.pop()
            elif opts.get("mutate") == "append":
                lst.append(TAGS[0])
            self.eff.append(["a", op[1], op[2], op[3], by_value])
            await self.settle()

    async def drain(self):
        """every consumer that subscribed asks for everything that is in the log"""
        ok = True
        for c in sorted(self.recv):
            guard = 0
            while (c not in self.pending and not self.err.get(c) and len(self.recv[c]) < len(self.port.token_list)
                   and guard < 200):
                if self.disc and any(isinstance(t, TerminationToken) for t in self.recv[c]):
                    break
                guard += 1
                self.eff.append(["g", c])
                await self.do_get(c)
            if c in self.pending and len(self.recv[c]) < len(self.port.token_list):
                ok = False
        return ok

    def observe(self, drained_ok):
        port, cons = self.port, {}
        for c in sorted(self.recv):
            q = port.queues[self.cname(c)]
            w = "n" if c not in self.pending else ("f" if self.pending[c][1] else "l")
            cons[c] = {"recv": [_tokstr(t) for t in self.recv[c]], "items": q.qsize(), "unf": q._unfinished_tasks, "wait": w,
                       "err": 1 if self.err.get(c) else 0,
                       "same_objects": all(a is b for a, b in zip(self.recv[c], port.token_list))}
        for task, _ in self.pending.values():
            task.cancel()
        obs = {"log": [_tokstr(t) for t in port.token_list], "cons": cons, "drained_ok": drained_ok,
               "puts": [_tokstr(t) for t in self.put_objs], "closes": self.closes}
        if self.kind == "iw":
            obs["ext"] = [[_tokstr(t) for t in e.token_list] for e in self.exts]
            obs["rules"] = [[TAGS.index(t) for t in b.tags] for b in port.boundaries]
        return obs


async def _exec(case) -> dict:
    """run one history on the REAL port classes. Returns the effective history (ops really issued, tags of
    add_inter_port by value) and the observation in the driver's output format; ops `["b", op]` go to a second
    inter-workflow port (used to share tag-list objects between ports)."""
    kind = case["kind"]
    rig = _Rig(kind, case, "p")
    twin = _Rig("iw", case, "q") if any(op[0] == "b" for op in case["ops"]) else None
    shared: dict = {}
    for op in case["ops"]:
        if op[0] == "b":
            await twin.apply(op[1], shared)
        else:
            await rig.apply(op, shared)
    res = {"eff": rig.eff, "obs": rig.observe(await rig.drain())}
    if twin is not None:
        res["twin"] = {"eff": twin.eff, "obs": twin.observe(await twin.drain())}
    return res


def _render(obs, kind) -> str:
    def toks(l):
        return ",".join(l) or "-"
    cons = " ".join(f"c{c}={toks(v['recv'])}/{v['items']}/{v['unf']}/{v['wait']}/{v['err']}" for c, v in sorted(obs["cons"].items()))
    s = f"log={toks(obs['log'])} | {cons}"
    if kind == "iw":
        ex = " ".join(f"e{k}={toks(l)}" for k, l in enumerate(obs["ext"]))
        rules = ";".join(",".join(map(str, r)) or "-" for r in obs["rules"]) or "-"
        s += f" | {ex} | r={rules}"
    return s


def _normalise_model(line: str) -> str:
    """the model keeps printing `recv` of a consumer whose queue raised ValueError; the real consumer got an
    exception instead of the token, so after an error only the error flag of that consumer is compared"""
    parts = line.split(" | ")
    if len(parts) < 2:
        return line
    cons = []
    for w in parts[1].split():
        head, _, rest = w.partition("=")
        f = rest.split("/")
        cons.append(f"{head}=ERR" if f[-1] == "1" else w)
    parts[1] = " ".join(cons)
    return " | ".join(parts)


# ------------------------------------------------------------------------------------------------
# the property's own oracle, written from the statement (independent of the Lean model)
# ------------------------------------------------------------------------------------------------
def _fire(tags, stream):
    """tokens of `stream` put at or after the one that empties the tag list"""
    tags = list(tags)
    out = []
    for t in stream:
        tg = int(t[1:].split(":")[0])
        if tg in tags:
            tags.remove(tg)
        if not tags:
            out.append(t)
    return out


def _act(rule, t):
    return ([t] if rule[2] else []) + (["T9"] if rule[3] else [])


def oracle(case, res):
    """yield (key, detail) for every way the real run contradicts the property statement"""
    kind, eff, obs = case["kind"], res["eff"], res["obs"]
    log = obs["log"]
    puts = obs["puts"]
    if kind == "plain" and log != puts:
        yield "port:log-differs-from-puts", f"token_list {log} after puts {puts}"
    if kind == "filter":
        exp = [t for t in puts if t[0] == "T" or int(t[1:].split(":")[0]) in case["admit"]]
        if log != exp:
            yield "filter:log-not-admitted-sequence", f"token_list {log}, admitted puts {exp}"
    for c, v in obs["cons"].items():
        if v["err"]:
            continue
        r = v["recv"]
        if r != log[: len(r)] or not v["same_objects"]:
            dup = len(set(r)) < len(r) and len(set(log)) == len(log)
            yield ("port:duplicate-delivery" if dup else "port:order-or-content"), f"consumer {c} received {r}, token_list {log}"
        elif len(r) + v["items"] != len(log):
            yield "port:lost-or-extra-queued-token", f"consumer {c}: received {len(r)} + queued {v['items']} != {len(log)} put"
        if case.get("disc") and any(t[0] == "T" for t in r[:-1]):
            yield "port:token-after-termination", f"disciplined consumer {c} received {r}"
    if not obs["drained_ok"]:
        yield "port:token-never-delivered", f"a consumer blocked although token_list {log} holds more than it received: {obs['cons']}"
    # close bookkeeping: at most one close per consumer, issued after it received something (or never subscribed)
    # -> task_done never raises
    for c, v in obs["cons"].items():
        mine = [x for x in obs["closes"] if x[0] == c]
        disciplined = len(mine) <= 1 and all((not sub) or n > 0 for _, sub, n in mine)
        if v["err"] and disciplined:
            yield "port:task_done-raised", f"consumer {c}: ValueError from task_done although close was called at most once, after a token: {eff}"
    if kind == "iw":
        rules = [op for op in eff if op[0] == "a"]
        # external rules alone on their boundary port
        for k in range(NEXT):
            mine = [i for i, op in enumerate(eff) if op[0] == "a" and op[1] == f"e{k}"]
            if len(mine) != 1:
                if not mine and obs["ext"][k]:
                    yield "iw:boundary-port-without-rule-got-tokens", f"e{k} = {obs['ext'][k]}"
                continue
            i = mine[0]
            rule = eff[i]
            # the stream the rule sees: data tokens in the own log when it was added, then data tokens put later
            own_at_add = case.get("_own_at_add", {}).get(i)
            later = [(_tok_of(op)) for op in eff[i + 1:] if op[0] == "p" and not op[1]]
            if own_at_add is None:
                continue
            exp = [x for t in _fire(rule[4], own_at_add + later) for x in _act(rule, t)]
            if obs["ext"][k] != exp:
                yield "iw:boundary-port-content", f"rule {rule}: boundary port e{k} has {obs['ext'][k]}, expected {exp}"
        selfr = [op for op in rules if op[1] == "s"]
        data_puts = [t for t in puts if t[0] == "d"]
        if not selfr:
            if log != puts:
                yield "iw:own-log-without-self-rule", f"own log {log}, puts {puts}"
        elif len(selfr) == 1 and case.get("_self_added_on_empty"):
            # one self rule, installed before any data token: a data token is stored unchanged until the rule's tag
            # list is complete and replaced by the rule's action from then on; termination tokens pass
            rule, tags, exp = selfr[0], list(selfr[0][4]), []
            seen_rule = False
            for op in eff:
                if op[0] == "a" and op[1] == "s":
                    seen_rule = True
                if op[0] != "p":
                    continue
                t = _tok_of(op)
                if op[1]:
                    exp.append(t)
                    continue
                if not seen_rule:
                    exp.append(t)
                    continue
                if op[2] in tags:
                    tags.remove(op[2])
                exp += _act(rule, t) if not tags else [t]
            if log != exp:
                first_term = next((i for i, t in enumerate(log) if t[0] == "T"), None)
                exp_term = next((i for i, t in enumerate(exp) if t[0] == "T"), None)
                late = first_term is not None and any(t[0] == "d" for t in log[first_term + 1:]) and not (
                    exp_term is not None and any(t[0] == "d" for t in exp[exp_term + 1:]))
                key = "iw:data-token-after-termination-token-in-own-log" if late else "iw:own-log-differs-from-self-rule-semantics"
                yield key, f"own log {log}, expected {exp} (self rule {rule})"
            if selfr[0][2] and [t for t in log if t[0] == "d"] != data_puts:
                yield "iw:self-rule-lost-or-duplicated", f"own log {log}, data puts {data_puts}, rule {selfr[0]}"
        # what disciplined consumers of the port saw: nothing after a termination token
        for c, v in obs["cons"].items():
            if case.get("disc") and not v["err"] and any(t[0] == "T" for t in v["recv"][:-1]):
                yield "port:token-after-termination", f"disciplined consumer {c} of the inter-workflow port received {v['recv']}"


def _tok_of(op):
    return f"T{op[3]}" if op[1] else f"d{op[2]}:{op[3]}"


def _annotate_iw(case, eff):
    """what the own log held (data tokens) when each rule was added — computed from the property's reading of the
    history for histories in which it is unambiguous: before any self rule exists the own log is the put sequence"""
    own_at_add, self_seen, ok_self = {}, False, True
    data = []
    for i, op in enumerate(eff):
        if op[0] == "p" and not op[1]:
            data.append(_tok_of(op))
        elif op[0] == "a":
            if not self_seen:
                own_at_add[i] = list(data)
            if op[1] == "s":
                if data:
                    ok_self = False
                self_seen = True
    case["_own_at_add"] = own_at_add
    case["_self_added_on_empty"] = ok_self


def _views(case, res):
    """(case view, result view) for the main port and, when the history uses it, the second inter-workflow port"""
    out = [(case, res)]
    if "twin" in res:
        out.append(({"kind": "iw", "disc": case.get("disc", False), "ops": [o[1] for o in case["ops"] if o[0] == "b"]}, res["twin"]))
    return out


def evaluate(case, res):
    """oracle failures and (model line, rendered real observation) pairs for every port of the history"""
    fails, pairs = [], []
    for c, r in _views(case, res):
        c["eff"] = r["eff"]
        if c["kind"] == "iw":
            _annotate_iw(c, r["eff"])
        fails += list(oracle(c, r))
        pairs.append((model_line(c), _render(r["obs"], c["kind"])))
    return fails, pairs


# ------------------------------------------------------------------------------------------------
# generators
# ------------------------------------------------------------------------------------------------
def _rand_history(rng, kind, n, ncons, wild=False, share=False):
    ops = []
    val = 0
    for _ in range(n):
        r = rng.random()
        if kind == "iw" and r < 0.12 and sum(1 for o in ops if o[0] in ("a", "b")) < 5:
            nself = sum(1 for o in ops if o[0] == "a" and o[1] == "s")
            if rng.random() < (0.25 if (nself == 0 or wild) else 0.0):
                tg = "s"
            else:
                tg = f"e{rng.randrange(NEXT)}"
            flags = rng.choice([(1, 0), (0, 1), (1, 1), (1, 0), (1, 1)] + ([(0, 0)] if wild else []))
            tags = [rng.randrange(len(TAGS)) for _ in range(rng.choice([0, 1, 1, 2, 2, 3]))]
            op = ["a", tg, flags[0], flags[1], tags]
            if share:
                # the caller re-uses one list object for several calls and / or keeps mutating it afterwards
                opts = {}
                if rng.random() < 0.6:
                    opts["share"] = rng.randrange(2)
                if rng.random() < 0.5:
                    opts["mutate"] = rng.choice(["clear", "pop", "append"])
                if opts:
                    op.append(opts)
            if share and rng.random() < 0.4:
                if op[1] == "s":
                    op[1] = "e0"
                ops.append(["b", op])
            else:
                ops.append(op)
        elif kind == "iw" and share and r < 0.2:
            val += 1
            ops.append(["b", ["p", 0, rng.randrange(len(TAGS)), val]])
        elif r < 0.45:
            if rng.random() < 0.15:
                ops.append(["p", 1, 0, rng.choice(STATUSES)])
            else:
                val += 1
                ops.append(["p", 0, rng.randrange(len(TAGS)), val])
        elif r < 0.92:
            ops.append(["g", rng.randrange(ncons)])
        else:
            ops.append(["c", rng.randrange(ncons)])
    return ops


CORPUS = [
    {"kind": "plain", "ops": []},
    {"kind": "plain", "ops": [["g", 0]]},
    {"kind": "plain", "ops": [["p", 0, 1, 1], ["p", 0, 2, 2], ["g", 0], ["g", 0], ["g", 0], ["p", 1, 0, 4], ["g", 1], ["g", 1], ["g", 1], ["c", 0]]},
    {"kind": "plain", "ops": [["g", 0], ["p", 0, 1, 1], ["g", 0], ["p", 1, 0, 4], ["c", 0]], "disc": True},
    {"kind": "plain", "ops": [["g", 0], ["c", 0]]},                       # model witness: task_done raises
    {"kind": "plain", "ops": [["p", 0, 1, 1], ["g", 0], ["c", 0], ["c", 0]]},
    {"kind": "plain", "ops": [["p", 1, 0, 4], ["p", 0, 1, 1], ["g", 0], ["g", 0]], "disc": True},
    {"kind": "filter", "admit": [1, 2], "ops": [["p", 0, 1, 1], ["p", 0, 3, 2], ["p", 0, 2, 3], ["p", 1, 0, 4], ["g", 0], ["g", 0], ["g", 0], ["g", 0]]},
    {"kind": "filter", "admit": [], "ops": [["g", 1], ["p", 0, 1, 1], ["p", 1, 0, 5]]},
    {"kind": "iw", "ops": [["a", "e0", 1, 0, [1, 2]], ["p", 0, 1, 1], ["p", 0, 2, 2], ["p", 0, 3, 3], ["p", 1, 0, 4]]},
    {"kind": "iw", "ops": [["p", 0, 1, 1], ["p", 0, 2, 2], ["a", "e1", 1, 1, [2]], ["p", 0, 3, 3]]},
    {"kind": "iw", "ops": [["a", "s", 1, 1, [1, 2]], ["p", 0, 1, 1], ["g", 0], ["p", 0, 2, 2], ["g", 0], ["g", 0], ["g", 0]]},
    {"kind": "iw", "ops": [["a", "e0", 1, 0, [4]], ["a", "s", 0, 1, [4]], ["p", 0, 4, 1], ["p", 0, 1, 2]]},   # failed step's output port
    {"kind": "iw", "ops": [["a", "e2", 1, 0, [1, 1]], ["p", 0, 1, 1], ["p", 0, 1, 2], ["p", 0, 1, 3]]},         # duplicate tag in the rule
    {"kind": "iw", "ops": [["a", "e0", 1, 0, []], ["p", 0, 0, 1]]},
    {"kind": "iw", "ops": [["a", "s", 1, 0, []], ["a", "s", 1, 0, []], ["p", 0, 1, 1]]},                      # two self rules: duplicate (witness)
    # one tag list object shared by the rules of two ports: each rule must keep its own copy
    {"kind": "iw", "ops": [["a", "e0", 1, 0, [1, 2, 3], {"share": 0}], ["b", ["a", "e0", 1, 0, [1, 2, 3], {"share": 0}]],
                           ["p", 0, 1, 1], ["p", 0, 2, 2], ["b", ["p", 0, 3, 3]], ["p", 0, 3, 4]]},
    # the caller empties / extends its list after the call
    {"kind": "iw", "ops": [["a", "e1", 1, 1, [1, 2], {"mutate": "clear"}], ["p", 0, 1, 1], ["p", 0, 2, 2]]},
    {"kind": "iw", "ops": [["a", "e1", 1, 0, [1], {"mutate": "append"}], ["p", 0, 1, 1], ["p", 0, 2, 2]]},
    # duplicate tags in a list shared by two rules of the same port
    {"kind": "iw", "ops": [["a", "e0", 1, 0, [1, 1], {"share": 1}], ["a", "e1", 1, 0, [1, 1], {"share": 1}], ["p", 0, 1, 1], ["p", 0, 1, 2]]},
    # a satisfied TERMINATE-only self rule replaces the token: nothing may follow the termination token in the own log
    {"kind": "iw", "disc": True, "ops": [["a", "s", 0, 1, [1]], ["g", 0], ["p", 0, 1, 1], ["g", 0], ["p", 0, 2, 2], ["g", 0]]},
]


class C03(Property):
    pid = "C03"
    title = "Ports deliver every token to every consumer exactly once, in order"
    lean_targets = ["SFV.Props.C03"]
    props_files = ["SFV/Props/C03.lean"]
    drivers = ["Drivers/C03.lean"]
    translators = []
    rule = ("histories of put/get/close (and add_inter_port) on the REAL Port / FilterTokenPort / InterWorkflowPort by up to 4 "
            "consumers incl. late subscribers, blocked gets completed by later puts, disciplined and undisciplined readers; a corpus of "
            "boundary histories, exhaustive histories up to length 5 (quick) / 6 (thorough) over 2 consumers x {2 data tokens, "
            "termination} x {put,get,close}, and random histories (length <= 30; 0..4 boundary rules with PROPAGATE/TERMINATE flags, "
            "self and external targets, duplicate tags). Each history runs on the real classes under the controlled loop, on the Lean "
            "model (driver) and against an oracle written from the statement. Non-trivial = history with >= 2 puts and >= 1 get.")
    trusted_base = [
        "hand-written model lean/SFV/Model/Port.lean of Port.put/get/close/_init_consumer, FilterTokenPort.put, "
        "InterWorkflowPort.put/add_inter_port/_execute_boundary_action, compared with the real classes on every history",
        "modelled, not verified: asyncio.Queue (FIFO, _unfinished_tasks/task_done, a blocked getter is woken by the next put_nowait)",
    ]
    technique = "Lean 4 theorems over all op histories (inductive invariant recv ++ queued = log) + differential correspondence on exhaustive small and random histories"
    level_text = ("grade A: for every history of put/get/close by any number of consumers the received sequence is a prefix of the put sequence "
                  "(equal after enough gets), late subscribers included; filter ports hold exactly the admitted sub-sequence; inter-workflow "
                  "boundary ports receive exactly the tokens from the completing put on; model compared with the real classes on every run")
    level_note = "Lean kernel, axioms within {propext, Classical.choice, Quot.sound}; trusts the asyncio.Queue abstraction and the K sampling"
    assumptions = [
        "a consumer is a sequential coroutine (it does not issue a second get while one is blocked)",
        "boundary ports of an InterWorkflowPort are modelled as plain ports (chains of inter-workflow ports are not modelled)",
        "tags are compared for equality only",
    ]
    quick_budget_s = 200
    thorough_budget_s = 1200
    min_nontrivial = 50

    # ---- case production -----------------------------------------------------------------------
    def _cases(self, ctx: Ctx):
        rng = ctx.rng
        for c in CORPUS:
            yield dict(c), "corpus"
        ctx.corpus_replayed += len(CORPUS)
        # exhaustive small histories on the plain port
        alpha = [["p", 0, 1, 1], ["p", 0, 2, 2], ["p", 1, 0, 4], ["g", 0], ["g", 1], ["c", 0], ["c", 1]]
        maxlen = 6 if (ctx.tier == "thorough" or ctx.mode == "search") else 5
        for n in range(1, maxlen + 1):
            for combo in itertools.product(range(len(alpha)), repeat=n):
                # symmetric histories (consumer 1 appearing before consumer 0) are skipped
                first = next((alpha[i][1] for i in combo if alpha[i][0] in ("g", "c")), 0)
                if first == 1:
                    continue
                yield {"kind": "plain", "ops": [list(alpha[i]) for i in combo]}, f"exhaustive-{n}"
        nrand = {"quick": 2500, "thorough": 40000}[ctx.tier] * (3 if ctx.mode == "search" else 1)
        for i in range(nrand):
            kind = rng.choice(["plain", "filter", "iw", "iw"])
            case = {"kind": kind, "ops": _rand_history(rng, kind, rng.randint(0, 30), rng.randint(1, NCONS), wild=rng.random() < 0.15,
                                                      share=kind == "iw" and rng.random() < 0.35),
                    "disc": rng.random() < 0.6}
            if kind == "filter":
                case["admit"] = sorted(rng.sample(range(len(TAGS)), rng.randint(0, 4)))
            yield case, f"random-{kind}"

    def _run_batch(self, ctx: Ctx, batch, seed):
        async def main():
            out = []
            for case, _ in batch:
                out.append(await _exec(case))
            return out
        return run_controlled(main, seed, timeout=180)

    def explore(self, ctx: Ctx) -> None:
        cases = list(self._cases(ctx))
        B = 400
        lines, metas = [], []
        shrunk_keys: set[str] = set()
        for b0 in range(0, len(cases), B):
            if ctx.out_of_time():
                ctx.extra["incomplete"] = True
                break
            batch = cases[b0:b0 + B]
            seed = ctx.rng.randrange(1 << 30)
            try:
                results = self._run_batch(ctx, batch, seed)
            except (TimeoutError, asyncio.TimeoutError):
                ctx.fail("port:hang", f"a batch of {len(batch)} port histories did not finish in 180 s",
                         {"cases": [c for c, _ in batch][:50], "seed": seed})
                continue
            for (case, bucket), res in zip(batch, results):
                fails, pairs = evaluate(case, res)
                nput = sum(1 for o in res["eff"] if o[0] == "p")
                nget = sum(1 for o in res["eff"] if o[0] == "g")
                key = (case["kind"], tuple(_opstr(o) for o in case["ops"]), tuple(case.get("admit", [])), case.get("disc")) if nput >= 2 and nget >= 1 else None
                pub = {k: v for k, v in case.items() if not k.startswith("_") and k != "eff"}
                ctx.case({"case": pub, "real": [r for _, r in pairs]}, key, bucket)
                if "twin" in res:
                    ctx.count("histories-with-two-inter-workflow-ports")
                if any(len(o) > 5 for o in case["ops"] if o[0] == "a") or any(len(o[1]) > 5 for o in case["ops"] if o[0] == "b" and o[1][0] == "a"):
                    ctx.count("histories-with-shared-or-mutated-tag-lists")
                for fkey, detail in fails:
                    if fkey not in shrunk_keys:            # one minimised replay per kind of failure is enough
                        shrunk_keys.add(fkey)
                        ctx.fail(fkey, detail, self._shrunk(pub, fkey, seed))
                    else:
                        ctx.fail(fkey, detail, dict(pub, seed=seed))
                for line, real in pairs:
                    lines.append(line)
                    metas.append((pub, real))
        got = ctx.lean("Drivers/C03.lean", lines)
        ndis = 0
        for g, (pub, real) in zip(got, metas):
            if _normalise_model(g) != _normalise_model(real):
                ndis += 1
                if ndis <= 2:
                    pub, real, g = self._shrink_disagreement(ctx, pub, real, g)
                ctx.disagree(f"model vs real {pub['kind']} port", f"history {[_opstr(o) for o in pub['ops']]}: real {real!r}, Lean model {g!r}", pub)

    # ---- shrinking -----------------------------------------------------------------------------
    def _one(self, case, seed=0):
        async def main():
            return await _exec(case)
        return run_controlled(main, seed, timeout=60)

    def _shrunk(self, pub, fkey, seed):
        def fails(ops):
            c = dict(pub, ops=ops)
            return any(k == fkey for k, _ in evaluate(c, self._one(c, seed))[0])
        try:
            ops = ddmin(pub["ops"], fails, budget_s=5, max_tests=120)
        except Exception:  # noqa: BLE001
            ops = pub["ops"]
        return dict(pub, ops=ops, seed=seed)

    def _shrink_disagreement(self, ctx, pub, real, model):
        last = {}

        def fails(ops):
            c = dict(pub, ops=ops)
            _, pairs = evaluate(c, self._one(c))
            got = ctx.lean("Drivers/C03.lean", [ln for ln, _ in pairs])
            for g, (_, r) in zip(got, pairs):
                if _normalise_model(g) != _normalise_model(r):
                    last[json.dumps(ops)] = (r, g)
                    return True
            return False
        try:
            ops = ddmin(pub["ops"], fails, budget_s=40, max_tests=10)
            r, g = last.get(json.dumps(ops), (real, model))
            return dict(pub, ops=ops), r, g
        except Exception:  # noqa: BLE001
            return pub, real, model

    def replay(self, ctx: Ctx, data) -> None:
        case = data.get("replay") or data.get("case") or (data.get("no_longer_checks") or [{}])[0].get("case")
        if not case or "ops" not in case:
            return super().replay(ctx, data)
        case = {k: v for k, v in case.items() if k in ("kind", "ops", "admit", "disc")}
        res = self._one(case, data.get("seed", 0) if isinstance(data.get("seed"), int) else 0)
        fails, pairs = evaluate(case, res)
        print("history :", " ".join(_opstr(o) for o in case["ops"]))
        models = ctx.lean("Drivers/C03.lean", [ln for ln, _ in pairs])
        for (line, real), model in zip(pairs, models):
            print("by value:", line)
            print("real    :", real)
            print("model   :", model)
            if _normalise_model(model) != _normalise_model(real):
                ctx.disagree("model vs real port", f"real {real!r} model {model!r}", case)
        for k, d in fails:
            ctx.fail(k, d, case)


PROPERTY = C03()
