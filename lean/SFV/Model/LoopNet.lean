import SFV.Model.Net
/-! # A loop sub-network as a network of steps (C04: `loop_terminates`)

The sub-network built by `RecoveryTranslator.get_input_loop / get_output_loop` (tests/utils/workflow.py) around a body
`counter := counter + k`, with the loop condition `counter < limit`, for several loop *instances* (one per tag `p` of the
external inputs, e.g. the elements of a scatter) that run interleaved:

    input forwarders -> LoopCombinatorStep (numbers the iterations p.0, p.1, ...) -> BaseLoopConditionalStep
        condition true : the tokens go to the body; the body output p.i goes BOTH to the back-propagation transformer
                         (-> LoopCombinatorStep, next iteration) AND to the output forwarder (-> LoopOutputStep)
        condition false: IterationTerminationToken p.n on the skip port (= the LoopOutputStep input): n iterations were made
    BaseLoopOutputLastStep: collects the body outputs p.i; when it holds n of them and knows n it emits the one with the
        largest index (retagged p) — `Token(None)` when n = 0 — to the outside and to the loop terminator, whose
        IterationTerminationTokens release the LoopCombinatorStep.

Abstraction: tokens of one instance move through the stages below; tokens of different instances, and the delivery of
body outputs to the LoopOutputStep, interleave arbitrarily (the scheduler). The values are the counter values; the limit
of an instance never changes. -/
namespace SFV.LoopNet

inductive Phase where
  | atComb (c : Int)            -- counter token waiting at the LoopCombinatorStep (initial input or back-propagated)
  | atCond (i : Nat) (c : Int)  -- iteration inputs p.i at the conditional step
  | atBody (i : Nat) (c : Int)  -- iteration inputs p.i at the body
  | exited                      -- the condition was false: the instance left the loop
deriving DecidableEq, Repr

structure Inst where
  limit     : Int
  phase     : Phase
  iters     : Nat                    -- LoopCombinator.iteration_map: iterations numbered so far
  inflight  : List (Nat × Int)       -- body outputs (index, value) on their way to the LoopOutputStep
  collected : List (Nat × Int)       -- LoopOutputStep.token_map[p]
  count     : Option Nat             -- LoopOutputStep.size_map[p] (from the IterationTerminationToken p.n)
  emitted   : Option (Option Int)    -- the loop output of the instance (`some none` = Token(None), zero iterations)
deriving DecidableEq, Repr

structure St where
  k     : Nat                        -- the body adds k
  insts : List Inst
deriving DecidableEq, Repr

def initInst (c l : Int) : Inst :=
  { limit := l, phase := .atComb c, iters := 0, inflight := [], collected := [], count := none, emitted := none }

def initSt (k : Nat) (inputs : List (Int × Int)) : St := { k := k, insts := inputs.map (fun cl => initInst cl.1 cl.2) }

inductive Act where
  | combine (p : Nat)                -- LoopCombinator numbers the next iteration of instance p
  | eval (p : Nat)                   -- the conditional step evaluates `counter < limit`
  | body (p : Nat)                   -- the body transforms p.i
  | deliver (p : Nat) (j : Nat)      -- the j-th in-flight body output reaches the LoopOutputStep
  | emit (p : Nat)                   -- LoopOutputStep: len(token_map[p]) == size_map[p]
deriving DecidableEq, Repr

/-- `BaseLoopOutputLastStep._process_output`: the collected token with the largest iteration index -/
def lastOf (l : List (Nat × Int)) : Option Int :=
  (l.foldl (fun (best : Option (Nat × Int)) x => match best with
    | none => some x
    | some b => if b.1 ≤ x.1 then some x else some b) none).map (·.2)

def stepInst (k : Nat) (x : Inst) : Act → Option Inst
  | .combine _ =>
      match x.phase with
      | .atComb c => some { x with phase := .atCond x.iters c, iters := x.iters + 1 }
      | _ => none
  | .eval _ =>
      match x.phase with
      | .atCond i c =>
          if c < x.limit then some { x with phase := .atBody i c }
          else some { x with phase := .exited, count := some i }     -- IterationTerminationToken p.i
      | _ => none
  | .body _ =>
      match x.phase with
      | .atBody i c => some { x with phase := .atComb (c + k), inflight := x.inflight ++ [(i, c + k)] }
      | _ => none
  | .deliver _ j =>
      match x.inflight[j]? with
      | some t => some { x with inflight := x.inflight.eraseIdx j, collected := x.collected ++ [t] }
      | none => none
  | .emit _ =>
      match x.count, x.emitted with
      | some n, none => if x.collected.length = n then some { x with emitted := some (lastOf x.collected) } else none
      | _, _ => none

def Act.inst : Act → Nat
  | .combine p | .eval p | .body p | .deliver p _ | .emit p => p

def step (s : St) (a : Act) : Option St :=
  match s.insts[a.inst]? with
  | none => none
  | some x => (stepInst s.k x a).map (fun x' => { s with insts := s.insts.set a.inst x' })

def run : St → List Act → Option St
  | s, [] => some s
  | s, a :: as => match step s a with
    | some s' => run s' as
    | none => none

/-- the loop is over: every instance has emitted its output -/
def finished (s : St) : Bool := s.insts.all (fun x => x.emitted.isSome)

/-- the value of the loop as one node of the workflow (`Net.loopLast`), `none` for zero iterations -/
def expected (k : Nat) (c l : Int) : Option Int := if c < l then some (SFV.Net.loopLast c l k) else none

end SFV.LoopNet
