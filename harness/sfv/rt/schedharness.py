"""Drive the REAL DefaultScheduler on generated configurations / histories and replay the same atomic steps on the
Lean model (Drivers/C10.lean). Shared by C10, C11, C12 (and C13 for the scheduler half).

Real side
    * connectors are the fakes of `sfv.rt.schedfake` (no I/O); the scheduler is a run-time subclass of
      DefaultScheduler that only records events (`_allocate_job` after `super()`);
    * every pass of the critical section of `_process_target` starts with exactly one call of the target connector's
      `get_available_locations` from the `_process_target` coroutine: the fake logs it (job, target) — passes and
      notifications are serialised by the scheduler's condition lock, so the log order is the execution order;
    * `schedule()` calls run as tasks, notifications either inline or as tasks, all under `run_controlled(seed)`.
Model side
    * one `try` line per logged pass, one `notify` line per notification, state dump compared after every step.
"""
from __future__ import annotations

import asyncio
import posixpath
from fractions import Fraction
from typing import Any

from streamflow.core.config import BindingConfig, Config
from streamflow.core.deployment import DeploymentConfig, Target, WrapsConfig
from streamflow.core.scheduling import Hardware, Storage
from streamflow.core.workflow import Job, Status, Token
from streamflow.scheduling.scheduler import DefaultScheduler

from sfv.rt.hwenc import Names, enc_hw, exc_kind, rat, totals
from sfv.rt.loop import run_controlled
from sfv.rt.schedfake import FakeConnector, FakeContext, FakeRequirement, FakeWrapper, LocSpec

OCCUPYING = (Status.FIREABLE, Status.RUNNING)
JOB_PATHS = ["/w/out", "/w/tmp"]


# ------------------------------------------------------------------------------------------------
# JSON <-> Hardware
# ------------------------------------------------------------------------------------------------
def dump_hw(h: Hardware | None):
    if h is None:
        return None
    return {"cores": h.cores, "memory": h.memory,
            "storage": [[k, s.mount_point, s.size, sorted(s.paths or ()), s.bind] for k, s in h.storage.items()]}


def load_hw(d) -> Hardware | None:
    if d is None:
        return None
    return Hardware(d["cores"], d["memory"], {k: Storage(mp, sz, set(ps), b) for k, mp, sz, ps, b in d["storage"]})


# ------------------------------------------------------------------------------------------------
# configuration generator
# ------------------------------------------------------------------------------------------------
def loc_signature(cfg_or_deps, loc: dict) -> tuple:
    """structure of a location that decides how a requirement is resolved on it (not the capacities)"""
    deps = cfg_or_deps["deployments"] if isinstance(cfg_or_deps, dict) else cfg_or_deps
    by_loc = {l["name"]: l for d in deps for l in d["locs"]}
    sig = []
    cur = loc
    while cur is not None:
        if cur["hw"] is None:
            sig.append(("slots",))
        else:
            sig.append(tuple((k, mp, tuple(sorted(ps)), b) for k, mp, _sz, ps, b in cur["hw"]["storage"]))
        cur = by_loc.get(cur.get("wraps")) if cur.get("wraps") else None
    return tuple(sig)


def config_features(cfg: dict) -> dict:
    deps = cfg["deployments"]
    by_loc = {l["name"]: l for d in deps for l in d["locs"]}
    shared = False
    for d in deps:
        seen = set()
        for l in d["locs"]:
            cur = by_loc.get(l.get("wraps")) if l.get("wraps") else None
            while cur is not None:
                if cur["name"] in seen:
                    shared = True
                seen.add(cur["name"])
                cur = by_loc.get(cur.get("wraps")) if cur.get("wraps") else None
    hetero = False
    for t in cfg["targets"]:
        if t["locations"] >= 2:
            d = next(x for x in deps if x["name"] == t["dep"])
            if len({loc_signature(deps, l) for l in d["locs"]}) > 1:
                hetero = True
    slot_inner = any(l.get("wraps") and by_loc[l["wraps"]]["hw"] is None for d in deps for l in d["locs"])
    deep_slot_inner = slot_inner or any(
        l.get("wraps") and by_loc[l["wraps"]].get("wraps") and by_loc[by_loc[l["wraps"]]["wraps"]]["hw"] is None
        for d in deps for l in d["locs"])
    return {"shared_inner": shared, "hetero_multi": hetero, "slot_inner": deep_slot_inner,
            "stacked": any(d["wraps"] for d in deps), "multi": any(t["locations"] >= 2 for t in cfg["targets"]),
            "slots": any(l["hw"] is None for d in deps for l in d["locs"])}


def gen_config(rng, *, decimal=False, allow_shared=True, allow_slots=True, max_deps=3, allow_hetero=True,
               probe_failures=True) -> dict:
    """1..3 deployments x 1..3 locations, hardware or slots, wrappers stacked on earlier deployments"""
    q = (lambda k: k / 4) if not decimal else (lambda k: k / 10)
    deps = []
    n_deps = rng.randint(1, max_deps)
    for di in range(n_deps):
        name = f"d{di}"
        wraps = None
        if di > 0 and rng.random() < 0.55:
            wraps = rng.choice([d for d in deps])  # any earlier deployment (chains up to depth 3)
        locs = []
        n_locs = rng.randint(1, 3)
        inner_pool = [l["name"] for l in wraps["locs"]] if wraps else []
        share = allow_shared and rng.random() < 0.25
        dep_two, dep_uniform = rng.random() < 0.5, rng.random() < 0.6
        dep_slots, dep_uniform_kind = rng.random() < 0.3, rng.random() < 0.6
        for li in range(n_locs):
            lname = f"{name}l{li}"
            slots_only = allow_slots and (dep_slots if dep_uniform_kind else rng.random() < 0.3)
            w = None
            if wraps:
                if share:
                    w = inner_pool[0]
                else:
                    if not inner_pool:
                        break
                    w = inner_pool.pop(rng.randrange(len(inner_pool)))
            inner_has_hw = True
            if w is not None:
                inner_has_hw = next(l for l in wraps["locs"] if l["name"] == w)["hw"] is not None
            if slots_only:
                locs.append({"name": lname, "hw": None, "slots": rng.choice([None, 1, 2, 3]), "wraps": w})
                continue
            cores = q(rng.choice([4, 8, 8, 16]))
            memory = q(rng.choice([8, 16, 32]))
            storage = []
            two = dep_two if dep_uniform else rng.random() < 0.5
            bind_ok = w is not None and inner_has_hw
            if two:
                storage.append(["/", "/", q(rng.choice([8, 16, 40])), [], None])
                storage.append(["/w", "/w", q(rng.choice([8, 16, 40])), list(JOB_PATHS), f"/host/{name}" if bind_ok else None])
            else:
                storage.append(["/", "/", q(rng.choice([8, 16, 40])), list(JOB_PATHS), (f"/host/{name}" if bind_ok else None)])
            locs.append({"name": lname, "hw": {"cores": cores, "memory": memory, "storage": storage}, "slots": rng.choice([None, 1, 2]), "wraps": w})
        if not locs:
            continue
        deps.append({"name": name, "wraps": wraps["name"] if wraps else None, "locs": locs})
    # register on every inner location the paths the upper binds translate to (otherwise the real code goes to the file system)
    by_name = {d["name"]: d for d in deps}
    changed = True
    while changed:
        changed = False
        for d in deps:
            if d["wraps"] is None:
                continue
            for l in d["locs"]:
                if l["hw"] is None or l["wraps"] is None:
                    continue
                inner = next(x for x in by_name[d["wraps"]]["locs"] if x["name"] == l["wraps"])
                if inner["hw"] is None:
                    continue
                for _k, mp, _sz, paths, bind in l["hw"]["storage"]:
                    if bind is None:
                        continue
                    need = [bind] + [posixpath.normpath(posixpath.join(bind, posixpath.relpath(p, mp))) for p in paths]
                    have = {p for st in inner["hw"]["storage"] for p in st[3]} | {st[1] for st in inner["hw"]["storage"]}
                    tgt = inner["hw"]["storage"][-1]   # the last mount takes them
                    for p in need:
                        if p not in have:
                            tgt[3].append(p)
                            have.add(p)
                            changed = True
    sizes = {}
    for d in deps:
        tbl = {}
        for l in d["locs"]:
            if l["hw"]:
                for st in l["hw"]["storage"]:
                    for p in st[3]:
                        if rng.random() < 0.6:
                            tbl[p] = rng.choice([0, 256, 512, 1024, 3072]) * 1024
        sizes[d["name"]] = tbl
    # in some configurations the disk-usage probe (`find … | awk` of remotepath._size) fails for one path of one
    # deployment: get_storage_usages raises and _free_resources must still release the job (usage = Hardware())
    if probe_failures and rng.random() < 0.3:
        d = rng.choice(deps)
        cands = sorted({p for l in d["locs"] if l["hw"] for st in l["hw"]["storage"] for p in st[3]})
        if cands:
            sizes[d["name"]][rng.choice(cands)] = -1
    targets = []
    for d in deps:
        n = len(d["locs"])
        targets.append({"dep": d["name"], "locations": 1})
        homogeneous = len({loc_signature(deps, l) for l in d["locs"]}) == 1
        if n >= 2 and rng.random() < 0.6 and (allow_hetero or homogeneous):
            targets.append({"dep": d["name"], "locations": rng.randint(2, n)})
    return {"deployments": deps, "sizes": sizes, "targets": targets}


def gen_req(rng, cfg, decimal=False) -> dict:
    q = (lambda k: k / 4) if not decimal else (lambda k: k / 10)
    cores = q(rng.choice([0, 1, 2, 4, 4, 8]))
    memory = q(rng.choice([0, 2, 4, 8]))
    storage = []
    r = rng.random()
    if r < 0.7:
        storage.append(["__outdir__", "/", q(rng.choice([0, 1, 2, 4, 8])), ["/w/out"], None])
    if r < 0.45:
        storage.append(["__tmpdir__", "/", q(rng.choice([0, 1, 2, 4])), ["/w/tmp"], None])
    return {"cores": cores, "memory": memory, "storage": storage}


# ------------------------------------------------------------------------------------------------
# the real side
# ------------------------------------------------------------------------------------------------
def make_token(v):
    """JSON description of a job input -> token: scalars as they are, {"kind": "file"|"list"|"object"} for the token
    classes the matching filter rejects"""
    if isinstance(v, dict) and "kind" in v:
        from streamflow.workflow.token import FileToken, ListToken, ObjectToken
        if v["kind"] == "file":
            class _File(FileToken):
                async def get_paths(self, context):
                    return []
            return _File(value="/some/file")
        if v["kind"] == "list":
            return ListToken(value=[Token("a")])
        return ObjectToken(value={"k": Token("a")})
    return Token(v)


class _RecordingScheduler(DefaultScheduler):
    """records allocations; behaviour is entirely DefaultScheduler's"""

    def __init__(self, context, world):
        super().__init__(context)
        self._world = world

    def _allocate_job(self, job, hardware, connector, selected_locations, target):
        try:
            super()._allocate_job(job, hardware, connector, selected_locations, target)
        finally:
            self._world.on_alloc(job.name, target)


class World:
    def __init__(self, cfg: dict, names: Names | None = None):
        self.cfg = cfg
        self.names = names or Names()
        self.log: list[dict] = []
        self.connectors: dict[str, Any] = {}
        self.dep_cfg: dict[str, DeploymentConfig] = {}
        self.loc_cfg: dict[str, dict] = {}       # location name -> cfg entry (+ "dep")
        for d in cfg["deployments"]:
            specs = [LocSpec(l["name"], load_hw(l["hw"]), l["slots"], l["wraps"]) for l in d["locs"]]
            sizes = cfg["sizes"].get(d["name"], {})
            if d["wraps"] is None:
                conn = _LoggingConnector(d["name"], specs, sizes, self)
            else:
                conn = _LoggingWrapper(d["name"], self.connectors[d["wraps"]], specs, sizes, self)
            self.connectors[d["name"]] = conn
            self.dep_cfg[d["name"]] = DeploymentConfig(
                name=d["name"], type="fake", config={}, workdir="/w",
                scheduling_policy=Config(name="__DEFAULT__", type="data_locality", config={}),
                wraps=WrapsConfig(d["wraps"]) if d["wraps"] else None)
            for l in d["locs"]:
                self.loc_cfg[l["name"]] = {**l, "dep": d["name"]}
        self.targets = [Target(self.dep_cfg[t["dep"]], locations=t["locations"], service=t.get("service")) for t in cfg["targets"]]
        self.context = FakeContext(self.connectors)
        self.scheduler = _RecordingScheduler(self.context, self)
        self.context.scheduler = self.scheduler
        self.jobs: dict[str, dict] = {}          # job name -> {"id", "step", "tag", "req"}
        self.tasks: dict[int, asyncio.Task] = {}  # request id -> schedule task
        self.requests: dict[int, dict] = {}
        self.true_req: dict[tuple[str, str], dict] = {}   # (job name, top location) -> {(dep, loc): Hardware}
        self.suspend_rng = None                           # when set, connectors suspend a few times inside a pass

    # ---- static structure ---------------------------------------------------------------------
    def chain(self, loc_name: str) -> list[dict]:
        out = []
        cur = self.loc_cfg[loc_name]
        while cur is not None:
            out.append(cur)
            cur = self.loc_cfg[cur["wraps"]] if cur.get("wraps") else None
        return out

    def target_index(self, target) -> int:
        for i, t in enumerate(self.targets):
            if t is target:
                return i
        return -1

    # ---- logging ------------------------------------------------------------------------------
    def on_pass(self, job_name: str, target, job_context=None) -> None:
        # `JobContext.scheduled`: once one target of a request has allocated the job, the request's other tasks must return
        # without a pass (`if job_context.scheduled: return` precedes the connector call that we log)
        granted = getattr(self, "_granted_ctx", None)
        if granted is None:
            granted = self._granted_ctx = set()
            self._ctx_refs = []
        if job_context is not None:
            self._ctx_refs.append(job_context)      # keep it alive: id() of a collected JobContext could be reused
        self.log.append({"ev": "pass", "job": job_name, "target": self.target_index(target), "alloc": False,
                         "snap": None, "err": None, "task": asyncio.current_task(), "ctx": id(job_context),
                         "after_granted": job_context is not None and id(job_context) in granted})

    def on_alloc(self, job_name: str, target) -> None:
        for e in reversed(self.log):
            if e["ev"] == "pass" and e["job"] == job_name and e["target"] == self.target_index(target):
                e["alloc"] = True
                e["snap"] = self.snapshot()
                e["real"] = self.real_state()
                if e.get("ctx") is not None:
                    self._granted_ctx.add(e["ctx"])
                return
        self.log.append({"ev": "stray-alloc", "job": job_name})

    def snapshot(self) -> str:
        """the real scheduler state in the format of the Lean driver's `dump`"""
        s, nm = self.scheduler, self.names
        f = lambda xs: ";".join(xs) if xs else "-"  # noqa: E731
        plus = lambda xs: "+".join(str(x) for x in xs) if xs else "-"  # noqa: E731
        r = [f"{nm.id(n)}={enc_hw(_no_paths(h), nm)}" for n, h in s.hardware_locations.items()]
        j = []
        for name, a in s.job_allocations.items():
            jid = self.jobs[name]["id"] if name in self.jobs else 999
            j.append(f"{jid}={int(a.status)},{self.target_index(a.target)},{plus([nm.id(l.name) for l in a.locations])},{enc_hw(a.hardware, nm)}")
        l = []
        for dep, m in s.location_allocations.items():
            for n, la in m.items():
                l.append(((nm.id(dep), nm.id(n)), f"{nm.id(dep)}/{nm.id(n)}={plus([self.jobs[x]['id'] for x in la.jobs])}"))
        l.sort()
        return f"R {f(r)} J {f(j)} L {f([x[1] for x in l])}"

    def real_state(self) -> dict:
        s = self.scheduler
        return {
            "reserved": {n: dump_hw(h) for n, h in s.hardware_locations.items()},
            "jobs": {n: {"status": int(a.status), "locs": [l.name for l in a.locations]} for n, a in s.job_allocations.items()},
        }

    # ---- operations ---------------------------------------------------------------------------
    def make_job(self, jid: int, step: int, tag: str, req: dict, inputs: dict | None = None) -> Job:
        name = f"/s{step}/{tag}"
        self.jobs[name] = {"id": jid, "step": step, "tag": tag, "req": req}
        return Job(name=name, workflow_id=0, inputs={k: make_token(v) for k, v in (inputs or {}).items()},
                   input_directory="/w/in", output_directory="/w/out", tmp_directory="/w/tmp")

    async def compute_true_reqs(self, job: Job, req: Hardware, target_ids: list[int]) -> None:
        """per-level requirement of the job on every candidate location (the real resolution, no merging)"""
        for ti in target_ids:
            t = self.targets[ti]
            conn = self.connectors[t.deployment.name]
            for loc in (await conn.get_available_locations(service=t.service, _sfv_quiet=True)).values():
                try:
                    res = await self.scheduler._resolve_hardware_requirement(conn, loc, FakeRequirement(req).eval(job))
                except Exception:  # noqa: BLE001
                    res = None
                self.true_req[(job.name, loc.name)] = res

    async def schedule(self, rid: int, job: Job, req: dict, target_ids: list[int], filters=None) -> None:
        hw = load_hw(req)
        await self.compute_true_reqs(job, hw, target_ids)
        from streamflow.core.deployment import FilterConfig
        fcs = [FilterConfig(name=f["name"], type=f["type"], config=f["config"]) for f in (filters or [])]
        binding = BindingConfig(targets=[self.targets[i] for i in target_ids], filters=fcs)
        self.requests[rid] = {"job": job.name, "targets": target_ids, "req": req, "done": False, "error": None}

        async def run():
            try:
                await self.scheduler.schedule(job, binding, FakeRequirement(hw))
                self.requests[rid]["done"] = True
            except asyncio.CancelledError:
                raise
            except Exception as e:  # noqa: BLE001
                self.requests[rid]["error"] = exc_kind(e)
                self.requests[rid]["error_text"] = repr(e)[:300]
                self.log.append({"ev": "schedule-raised", "job": job.name, "err": exc_kind(e)})

        self.tasks[rid] = asyncio.create_task(run())

    def finalize(self) -> None:
        """a `_process_target` task that ended with an exception raised it in its last pass (schedule() retrieves the
        exception only of the first finished task, so ask the tasks themselves)"""
        last: dict[Any, dict] = {}
        for ev in self.log:
            if ev["ev"] == "pass":
                last[ev["task"]] = ev
        for task, ev in last.items():
            if task is not None and task.done() and not task.cancelled() and task.exception() is not None:
                ev["err"] = exc_kind(task.exception())
                ev["err_text"] = repr(task.exception())[:300]
        for ev in self.log:
            ev.pop("task", None)
            ev.pop("ctx", None)

    def _target_dep(self, job_name: str):
        a = self.scheduler.job_allocations.get(job_name)
        return None if a is None else a.target.deployment.name

    async def notify(self, job_name: str, status: int) -> None:
        ev = {"ev": "notify", "job": job_name, "status": status, "err": None}
        dep_at_call = self._target_dep(job_name)   # notify_status looks the connector up BEFORE taking the lock
        n_alloc = sum(1 for e in self.log if e["ev"] == "pass" and e["alloc"] and e["job"] == job_name)
        try:
            await self.scheduler.notify_status(job_name, Status(status))
        except asyncio.CancelledError:
            raise
        except Exception as e:  # noqa: BLE001
            ev["err"] = exc_kind(e)
            ev["err_text"] = repr(e)[:300]
        # no suspension point between the release of the condition lock and here
        n_alloc2 = sum(1 for e in self.log if e["ev"] == "pass" and e["alloc"] and e["job"] == job_name)
        ev["stale_connector"] = n_alloc2 != n_alloc and dep_at_call is not None
        ev["snap"] = self.snapshot()
        ev["real"] = self.real_state()
        self.log.append(ev)

    async def settle(self, max_yields: int = 400) -> bool:
        """yield until no task makes progress (quiescent point)"""
        loop = asyncio.get_running_loop()
        stable = 0
        last = (len(self.log), sum(c.calls for c in self.connectors.values()))
        for _ in range(max_yields):
            await asyncio.sleep(0)
            cur = (len(self.log), sum(c.calls for c in self.connectors.values()))
            busy = len(getattr(loop, "_ready", ())) > 0
            if cur == last and not busy:
                stable += 1
                if stable >= 3:
                    return True
            else:
                stable = 0
                last = cur
        return False

    # ---- spec-side oracles on the REAL state --------------------------------------------------
    def occupying(self) -> dict[str, Any]:
        return {n: a for n, a in self.scheduler.job_allocations.items() if a.status in OCCUPYING}

    def true_usage(self) -> dict[str, dict]:
        """per location (all levels): exact cores / memory / per-mount sizes required by the occupying jobs placed
        there, and their number — from job_allocations (status, locations) and the real per-level resolution"""
        use: dict[str, dict] = {}
        for name, a in self.occupying().items():
            for top in a.locations:
                res = self.true_req.get((name, top.name))
                for lvl in self.chain(top.name):
                    u = use.setdefault(lvl["name"], {"cores": Fraction(0), "memory": Fraction(0), "mounts": {}, "count": 0})
                    u["count"] += 1
                    hw = res.get(posixpath.join(lvl["dep"], lvl["name"])) if res else None
                    if hw is not None:
                        u["cores"] += Fraction(hw.cores)
                        u["memory"] += Fraction(hw.memory)
                        for mp, v in totals(hw).items():
                            u["mounts"][mp] = u["mounts"].get(mp, Fraction(0)) + v
        return use

    def check_capacity(self, tol: Fraction = Fraction(0)) -> list[str]:
        """C10 on the real state: requirements of occupying jobs never exceed capacity / slots"""
        bad = []
        for lname, u in self.true_usage().items():
            lc = self.loc_cfg[lname]
            if lc["hw"] is not None:
                cap = load_hw(lc["hw"])
                if u["cores"] > Fraction(cap.cores) + tol:
                    bad.append(f"{lname}: cores required by occupying jobs {u['cores']} > capacity {cap.cores}")
                if u["memory"] > Fraction(cap.memory) + tol:
                    bad.append(f"{lname}: memory required by occupying jobs {u['memory']} > capacity {cap.memory}")
                ct = totals(cap)
                for mp, v in u["mounts"].items():
                    if v > ct.get(mp, Fraction(0)) + tol:
                        bad.append(f"{lname}: storage {mp} required by occupying jobs {v} > capacity {ct.get(mp, 0)}")
            else:
                slots = lc["slots"] if lc["slots"] is not None else 1
                if u["count"] > slots:
                    bad.append(f"{lname}: {u['count']} occupying jobs > {slots} slots")
        return bad

    def check_all_done_zero(self, tol: float = 0.0) -> list[str]:
        """C11 on the real state: with no occupying job, reserved cores and memory are exactly zero"""
        if self.occupying():
            return []
        bad = []
        for lname, h in self.scheduler.hardware_locations.items():
            if abs(h.cores) > tol or abs(h.memory) > tol:
                bad.append(f"{lname}: reserved cores={h.cores!r} memory={h.memory!r} with no fireable/running job")
        return bad

    def fits(self, job_name: str, req: Hardware, ti: int) -> tuple[bool, str]:
        """does the request fit target `ti` now? cores/memory/slots against the TRUE usage of occupying jobs,
        storage against the scheduler's own books (which include measured residues)"""
        t = self.targets[ti]
        use = self.true_usage()
        ok_locs = []
        for l in next(d for d in self.cfg["deployments"] if d["name"] == t.deployment.name)["locs"]:
            res = self.true_req.get((job_name, l["name"]))
            if res is None:
                return False, "unresolved"
            good = True
            for lvl in self.chain(l["name"]):
                need = res.get(posixpath.join(lvl["dep"], lvl["name"]))
                u = use.get(lvl["name"], {"cores": Fraction(0), "memory": Fraction(0), "mounts": {}, "count": 0})
                if lvl["hw"] is not None:
                    cap = load_hw(lvl["hw"])
                    if Fraction(cap.cores) - u["cores"] < Fraction(need.cores) or Fraction(cap.memory) - u["memory"] < Fraction(need.memory):
                        good = False
                        break
                    books = self.scheduler.hardware_locations.get(lvl["name"])
                    bt = totals(books) if books is not None else {}
                    ct = totals(cap)
                    for mp, v in totals(need).items():
                        if mp not in ct or ct[mp] - bt.get(mp, Fraction(0)) < v:
                            good = False
                            break
                    if not good:
                        break
                else:
                    slots = lvl["slots"] if lvl["slots"] is not None else 1
                    if not u["count"] < slots:
                        good = False
                        break
            if good:
                ok_locs.append(l["name"])
        return len(ok_locs) >= t.locations, ",".join(ok_locs)

    def check_no_missed_fit(self) -> list[dict]:
        """C12 on the real state at a quiescent point"""
        missed = []
        for rid, r in self.requests.items():
            if r["done"] or r["error"] is not None:
                continue
            if r["job"] in self.scheduler.job_allocations and self.scheduler.job_allocations[r["job"]].status in OCCUPYING:
                continue
            for ti in r["targets"]:
                ok, where = self.fits(r["job"], load_hw(r["req"]), ti)
                if ok:
                    missed.append({"request": rid, "job": r["job"], "target": ti, "fits_on": where})
        return missed


def _no_paths(h: Hardware) -> Hardware:
    return Hardware(h.cores, h.memory, {k: Storage(s.mount_point, s.size, None, s.bind) for k, s in h.storage.items()})


def _process_target_frame():
    t = asyncio.current_task()
    if t is None:
        return None
    coro = t.get_coro()
    if getattr(coro, "__name__", "") != "_process_target":
        return None
    fr = getattr(coro, "cr_frame", None)
    return fr.f_locals if fr is not None else None


class _LoggingConnector(FakeConnector):
    def __init__(self, name, specs, sizes, world):
        super().__init__(name, specs, sizes)
        self._world = world

    async def get_available_locations(self, service=None, _sfv_quiet=False):
        fl = None if _sfv_quiet else _process_target_frame()
        if fl is not None and fl["target"].deployment.name == self.deployment_name:
            self._world.on_pass(fl["job_context"].job.name, fl["target"], fl["job_context"])
            if self._world.suspend_rng is not None:
                for _ in range(self._world.suspend_rng.randint(0, 2)):
                    await asyncio.sleep(0)     # a real connector suspends here, holding the scheduler lock
        return await super().get_available_locations(service)


class _LoggingWrapper(FakeWrapper):
    def __init__(self, name, inner, specs, sizes, world):
        super().__init__(name, inner, specs, sizes)
        self._world = world

    async def get_available_locations(self, service=None, _sfv_quiet=False):
        fl = None if _sfv_quiet else _process_target_frame()
        if fl is not None and fl["target"].deployment.name == self.deployment_name:
            self._world.on_pass(fl["job_context"].job.name, fl["target"], fl["job_context"])
        return await super().get_available_locations(service)


# ------------------------------------------------------------------------------------------------
# the model side
# ------------------------------------------------------------------------------------------------
def config_lines(world: World) -> list[str]:
    nm, cfg = world.names, world.cfg
    lines = ["reset"]
    # translate table of bind_mount_point and sizes
    seen = set()
    for d in cfg["deployments"]:
        for l in d["locs"]:
            if l["hw"] is None:
                continue
            for _k, mp, _sz, _paths, bind in l["hw"]["storage"]:
                if bind is None:
                    continue
                # every path that can sit in a storage of this mount: the registered paths and their translations upward
                cands = set(JOB_PATHS)
                for dd in cfg["deployments"]:
                    for ll in dd["locs"]:
                        if ll["hw"]:
                            for st in ll["hw"]["storage"]:
                                cands.update(st[3])
                                cands.add(st[1])
                for p in cands:
                    key = (bind, mp, p)
                    if key in seen:
                        continue
                    seen.add(key)
                    out = posixpath.normpath(posixpath.join(bind, posixpath.relpath(p, mp)))
                    lines.append(f"tr {nm.id(bind)} {nm.id(mp)} {nm.id(p)} {nm.id(out)}")
    for dep, tbl in cfg["sizes"].items():
        for p, b in tbl.items():
            if b < 0:
                lines.append(f"fail {nm.id(dep)} {nm.id(p)}")        # scripted failure of the disk-usage probe
            else:
                lines.append(f"size {nm.id(dep)} {nm.id(p)} {rat(Fraction(b, 2 ** 20))}")
    stack_ids = {}
    for d in cfg["deployments"]:
        for l in d["locs"]:
            sid = len(stack_ids)
            stack_ids[l["name"]] = sid
            lv = []
            for c in world.chain(l["name"]):
                hw = enc_hw(load_hw(c["hw"]), nm) if c["hw"] is not None else "-"
                sl = "-" if c["slots"] is None else str(c["slots"])
                lv.append(f"{nm.id(c['dep'])},{nm.id(c['name'])},{sl},{hw}")
            lines.append(f"stack {sid} {';'.join(lv)}")
    for ti, t in enumerate(cfg["targets"]):
        d = next(x for x in cfg["deployments"] if x["name"] == t["dep"])
        lines.append(f"target {ti} {t['locations']} " + " ".join(str(stack_ids[l["name"]]) for l in d["locs"]))
    return lines


def model_lines(world: World) -> tuple[list[str], list[dict]]:
    """one protocol line per logged atomic step"""
    nm = world.names
    lines, evs = [], []
    for ev in world.log:
        if ev["ev"] == "pass":
            j = world.jobs[ev["job"]]
            lines.append(f"try {j['id']} {j['step']} {j['tag']} {enc_hw(load_hw(j['req']), nm)} {ev['target']}")
            evs.append(ev)
        elif ev["ev"] == "notify":
            jid = world.jobs[ev["job"]]["id"] if ev["job"] in world.jobs else 999
            lines.append(f"notify {jid} {ev['status']}")
            evs.append(ev)
    return lines, evs


def compare(world: World, outs: list[str], evs: list[dict]) -> list[tuple[str, str]]:
    """model outputs vs the real log; returns (what, detail) disagreements"""
    diffs = []
    prev_snap = "R - J - L -"
    for out, ev in zip(outs, evs):
        head, _, dump = out.partition(" | ")
        if ev["ev"] == "pass":
            if ev.get("after_granted"):
                diffs.append(("pass after the request was granted", f"job {ev['job']} target {ev['target']}: a task of a request whose job was "
                              f"already allocated through another target ran the critical section again (JobContext.scheduled ignored)"))
            real_head = "allocated" if ev["alloc"] else ("err" if ev["err"] else "waiting")
            model_head = head.split(" ")[0]
            real_snap = ev["snap"] if ev["alloc"] else prev_snap
            if model_head != real_head:
                diffs.append(("pass outcome", f"job {ev['job']} target {ev['target']}: code {real_head} {ev.get('err') or ''}, model {head}"))
            elif real_head == "err" and head != f"err {ev['err']}":
                diffs.append(("pass error kind", f"job {ev['job']}: code raised {ev['err']}, model {head}"))
            if real_head != "err" and dump != real_snap:
                diffs.append(("state after pass", f"job {ev['job']} target {ev['target']} ({real_head}): code {real_snap} ; model {dump}"))
            if ev["alloc"]:
                prev_snap = ev["snap"]
            elif real_head == "err":
                prev_snap = dump   # an exception inside a pass: follow the model (state changes are compared at the next step)
        else:
            if ev.get("stale_connector"):
                # the job was re-allocated between notify_status's connector look-up and its critical section:
                # outside the modelled domain (the model's notify is atomic) — stop comparing this scenario here
                break
            real_head = f"err {ev['err']}" if ev["err"] else "done true"
            if head != real_head:
                diffs.append(("notify outcome", f"job {ev['job']} status {ev['status']}: code {real_head}, model {head}"))
            if dump != ev["snap"]:
                diffs.append(("state after notify", f"job {ev['job']} status {ev['status']}: code {ev['snap']} ; model {dump}"))
            prev_snap = ev["snap"]
    return diffs


# ------------------------------------------------------------------------------------------------
# scenario runner
# ------------------------------------------------------------------------------------------------
def run_scenario(cfg: dict, ops, seed: int, timeout: float = 30.0, names: Names | None = None, shuffle: bool = True,
                 suspend_seed: int | None = None):
    """run ops on the real scheduler under the controlled loop. `ops` is a list of op dicts, or a callable
    `chooser(world, i) -> op | None` (adaptive generation; the executed ops are returned for replay).
    Returns (world, checks, timed_out, executed_ops); checks[i] = invariants evaluated on the REAL state after op i."""
    world = World(cfg, names)
    if suspend_seed is not None:
        import random as _random
        world.suspend_rng = _random.Random(suspend_seed)
    checks: list[dict] = []
    executed: list[dict] = []

    async def main():
        bg = []
        i = 0
        while True:
            if callable(ops):
                op = ops(world, i)
            else:
                op = ops[i] if i < len(ops) else None
            if op is None:
                break
            executed.append(op)
            if op["op"] == "schedule":
                job = world.make_job(op["job"], op["step"], op["tag"], op["req"], op.get("inputs"))
                if op.get("probe_fits"):
                    await world.compute_true_reqs(job, load_hw(op["req"]), op["targets"])
                    op["fits_before"] = [world.fits(job.name, load_hw(op["req"]), ti)[0] for ti in op["targets"]]
                await world.schedule(op["rid"], job, op["req"], op["targets"], op.get("filters"))
            elif op["op"] == "notify":
                name = f"/s{op['step']}/{op['tag']}"
                if op.get("bg"):
                    bg.append(asyncio.create_task(world.notify(name, op["status"])))
                else:
                    await world.notify(name, op["status"])
            for _ in range(op.get("yields", 0)):
                await asyncio.sleep(0)
            chk = {"at": i, "op": op["op"], "capacity": world.check_capacity(), "zero": [], "missed": [], "quiescent": False}
            if op["op"] == "settle" or op.get("settle"):
                chk["quiescent"] = await world.settle()
                chk["capacity"] = world.check_capacity()
                chk["zero"] = world.check_all_done_zero()
                chk["missed"] = world.check_no_missed_fit() if chk["quiescent"] else []
            chk["capacity_tol"] = world.check_capacity(Fraction(1, 10 ** 9)) if chk["capacity"] else []
            chk["zero_tol"] = world.check_all_done_zero(1e-9) if chk["zero"] else []
            chk["log_len"] = len(world.log)
            checks.append(chk)
            i += 1
        for t in bg:
            await t
        chk = {"at": i, "op": "end", "quiescent": await world.settle()}
        chk["capacity"] = world.check_capacity()
        chk["zero"] = world.check_all_done_zero()
        chk["missed"] = world.check_no_missed_fit() if chk["quiescent"] else []
        chk["capacity_tol"] = world.check_capacity(Fraction(1, 10 ** 9)) if chk["capacity"] else []
        chk["zero_tol"] = world.check_all_done_zero(1e-9) if chk["zero"] else []
        chk["log_len"] = len(world.log)
        checks.append(chk)
        world.finalize()

    timed_out = False
    try:
        run_controlled(main, seed, timeout=timeout, shuffle=shuffle)
    except (TimeoutError, asyncio.TimeoutError):
        timed_out = True
    return world, checks, timed_out, executed


# ------------------------------------------------------------------------------------------------
# adaptive history generator
# ------------------------------------------------------------------------------------------------
TERMINAL = (Status.COMPLETED, Status.FAILED, Status.CANCELLED)
NOTIFIABLE = [Status.RUNNING, Status.COMPLETED, Status.FAILED, Status.CANCELLED, Status.ROLLBACK, Status.RECOVERY]


def proto_ok(prev: int | None, new: int) -> bool:
    """the engine's protocol: a notification never moves a non-occupying job to an occupying status"""
    if new in (int(Status.FIREABLE), int(Status.RUNNING)):
        return (prev == int(Status.FIREABLE) and new == int(Status.RUNNING)) or prev == new
    return True


def make_chooser(rng, cfg: dict, n_ops: int, *, out_of_protocol: bool = False, decimal: bool = False,
                 n_jobs: int | None = None, drive_to_completion: bool = True):
    """adaptive generator of schedule / notify / settle operations; protocol-conforming unless out_of_protocol"""
    n_jobs = n_jobs or rng.randint(2, 6)
    n_targets = len(cfg["targets"])
    jobs = []
    for j in range(n_jobs):
        step = rng.randint(1, 3)
        tag = rng.choice(["0", "0", "1", "0.1", "2"])
        while any(x["step"] == step and x["tag"] == tag for x in jobs):
            step = rng.randint(1, 6)
        k = rng.choice([1, 1, 1, 2]) if n_targets > 1 else 1
        jobs.append({"id": j, "step": step, "tag": tag, "req": gen_req(rng, cfg, decimal),
                     "targets": rng.sample(range(n_targets), min(k, n_targets)), "requested": False})
    state = {"rid": 0, "phase": "random"}

    def status_of(world, j):
        a = world.scheduler.job_allocations.get(f"/s{j['step']}/{j['tag']}")
        return None if a is None else a.status

    def pending(world, j):
        name = f"/s{j['step']}/{j['tag']}"
        return any(r["job"] == name and not r["done"] and r["error"] is None for r in world.requests.values())

    def sched_op(j):
        state["rid"] += 1
        j["requested"] = True
        return {"op": "schedule", "rid": state["rid"], "job": j["id"], "step": j["step"], "tag": j["tag"], "req": j["req"],
                "targets": j["targets"], "yields": rng.randint(0, 4)}

    def next_conforming(st):
        if st == Status.FIREABLE:
            return rng.choice([Status.RUNNING, Status.RUNNING, Status.RUNNING, Status.FIREABLE, Status.RECOVERY, Status.CANCELLED, Status.FAILED])
        if st == Status.RUNNING:
            return rng.choice([Status.COMPLETED, Status.COMPLETED, Status.FAILED, Status.CANCELLED, Status.RECOVERY, Status.RUNNING])
        if st == Status.FAILED:
            return rng.choice([Status.RECOVERY, Status.ROLLBACK, Status.FAILED])
        if st in (Status.COMPLETED, Status.CANCELLED):
            return rng.choice([st, st, Status.ROLLBACK])
        if st == Status.RECOVERY:
            return rng.choice([Status.ROLLBACK, Status.RECOVERY, Status.COMPLETED])
        if st == Status.ROLLBACK:
            return rng.choice([Status.ROLLBACK, Status.COMPLETED])
        return Status.COMPLETED

    def chooser(world, i):
        if i >= n_ops and state["phase"] == "random":
            state["phase"] = "drain" if drive_to_completion else "stop"
        if state["phase"] == "stop" or i >= n_ops * 3 + 40:
            return None
        if state["phase"] == "drain":
            # drive every job to a non-occupying status, in random order, then stop
            occ = [j for j in jobs if status_of(world, j) in OCCUPYING]
            if not occ:
                if state.get("settled"):
                    waiting = [j for j in jobs if pending(world, j)]
                    if not waiting or state.get("drain_rounds", 0) > 3 * n_jobs:
                        return None
                state["settled"] = True
                state["drain_rounds"] = state.get("drain_rounds", 0) + 1
                return {"op": "settle"}
            state["settled"] = False
            j = rng.choice(occ)
            st = status_of(world, j)
            new = Status.RUNNING if (st == Status.FIREABLE and rng.random() < 0.5) else rng.choice([Status.COMPLETED, Status.FAILED, Status.CANCELLED])
            return {"op": "notify", "job": j["id"], "step": j["step"], "tag": j["tag"], "status": int(new), "yields": rng.randint(0, 3),
                    "settle": rng.random() < 0.5}
        r = rng.random()
        unrequested = [j for j in jobs if not j["requested"]]
        rolled = [j for j in jobs if status_of(world, j) == Status.ROLLBACK and not pending(world, j)]
        allocated = [j for j in jobs if status_of(world, j) is not None]
        if r < 0.12:
            return {"op": "settle"}
        if (r < 0.45 and unrequested) or not allocated:
            if unrequested:
                return sched_op(rng.choice(unrequested))
            if rolled:
                return sched_op(rng.choice(rolled))
            return {"op": "settle"}
        if r < 0.55 and rolled:
            return sched_op(rng.choice(rolled))
        j = rng.choice(allocated)
        st = status_of(world, j)
        if out_of_protocol and rng.random() < 0.4:
            new = rng.choice(NOTIFIABLE)
        else:
            new = next_conforming(st)
        return {"op": "notify", "job": j["id"], "step": j["step"], "tag": j["tag"], "status": int(new),
                "yields": rng.randint(0, 3), "bg": rng.random() < 0.25, "settle": rng.random() < 0.3}

    return chooser


def history_conforms(world: World, upto: int | None = None) -> tuple[bool, list[str]]:
    """does the executed history respect the engine protocol (per job: no notification moves a non-occupying job to
    an occupying status; a job is (re-)allocated only while not occupying)"""
    status: dict[str, int] = {}
    bad = []
    for ev in (world.log if upto is None else world.log[:upto]):
        if ev["ev"] == "pass" and ev["alloc"]:
            if status.get(ev["job"]) in (int(Status.FIREABLE), int(Status.RUNNING)):
                bad.append(f"{ev['job']} re-allocated while {Status(status[ev['job']]).name}")
            status[ev["job"]] = int(Status.FIREABLE)
        elif ev["ev"] == "notify" and ev["job"] in status:
            prev = status[ev["job"]]
            if not proto_ok(prev, ev["status"]):
                bad.append(f"{ev['job']} notified {Status(ev['status']).name} while {Status(prev).name}")
            if ev["status"] != prev:
                status[ev["job"]] = ev["status"]
    return not bad, bad
