"""Common explore/replay engine of C10, C11, C12: scenarios on the real DefaultScheduler (sfv.rt.schedharness), the
property's invariant on the REAL state after every call, the same atomic steps on the Lean model (Drivers/C10.lean).

Scenario classes
    plain    : protocol-conforming history, distinct inner locations, homogeneous multi-location targets, dyadic values
    shared   : several available locations of a target stacked on the same inner location        (known finding)
    hetero   : multi-location target over locations with different mount layouts                 (known finding)
    oop      : notifications outside the engine protocol                                         (known finding)
    decimal  : decimal (non-dyadic) amounts: binary-float residues                               (known finding)
A failure of the property gets the key `<invariant>:<cause>`; the cause is the first feature present in the
scenario among stale-connector / out-of-protocol / shared-inner / hetero-multi / rollback-inner-slots / float; a
failure in a scenario with none of them has cause `unexplained` and is always a VIOLATION.
"""
from __future__ import annotations

import random
from typing import Any

from streamflow.core.workflow import Status

from sfv.framework import Ctx
from sfv.rt import schedharness as H
from sfv.rt.hwenc import Names

INVARIANTS = {"C10": ("capacity",), "C11": ("zero", "notify-raised"), "C12": ("missed", "timeout")}


# ------------------------------------------------------------------------------------------------
# corpus: the witnesses of the known findings and a few boundary histories (run first, every time)
# ------------------------------------------------------------------------------------------------
def _hw(cores, memory, storage):
    return {"cores": cores, "memory": memory, "storage": storage}


def _sched(rid, job, step, tag, req, targets=(0,), **kw):
    return {"op": "schedule", "rid": rid, "job": job, "step": step, "tag": tag, "req": req, "targets": list(targets), "yields": 3, **kw}


def _notify(job, step, tag, status, **kw):
    return {"op": "notify", "job": job, "step": step, "tag": tag, "status": int(status), "yields": 2, **kw}


def corpus() -> list[dict]:
    S = Status
    out = []
    one = {"deployments": [{"name": "d0", "wraps": None, "locs": [
        {"name": "d0l0", "hw": _hw(2.0, 4.0, [["/", "/", 10.0, ["/w/out", "/w/tmp"], None]]), "slots": None, "wraps": None}]}],
        "sizes": {"d0": {}}, "targets": [{"dep": "d0", "locations": 1}]}
    r2 = _hw(2.0, 1.0, [])
    # 1. the double free: FIREABLE -> COMPLETED -> RUNNING -> COMPLETED, then two full-capacity jobs
    out.append({"name": "double-free", "class": "oop", "cfg": one, "seed": 1, "ops": [
        _sched(1, 0, 1, "0", r2), {"op": "settle"}, _notify(0, 1, "0", S.COMPLETED), _notify(0, 1, "0", S.RUNNING), _notify(0, 1, "0", S.COMPLETED),
        _sched(2, 1, 2, "0", r2), _sched(3, 2, 3, "0", r2), {"op": "settle"}]})
    # 2. the same jobs, protocol respected: second job waits, is granted after the first completes
    out.append({"name": "protocol-wait-then-grant", "class": "plain", "cfg": one, "seed": 2, "ops": [
        _sched(1, 0, 1, "0", r2), _sched(2, 1, 2, "0", r2), {"op": "settle"}, _notify(0, 1, "0", S.RUNNING),
        _notify(0, 1, "0", S.COMPLETED), _notify(0, 1, "0", S.COMPLETED), {"op": "settle"},
        _notify(1, 2, "0", S.RUNNING), _notify(1, 2, "0", S.FAILED), {"op": "settle"}]})
    # 3. binary floats: jobs of 0.1 and 0.3 cores on a 0.4-core location leave 5.55e-17 reserved; a 0.4-core job then never fits
    dec = {"deployments": [{"name": "d0", "wraps": None, "locs": [
        {"name": "d0l0", "hw": _hw(0.4, 4.0, [["/", "/", 10.0, ["/w/out", "/w/tmp"], None]]), "slots": None, "wraps": None}]}],
        "sizes": {"d0": {}}, "targets": [{"dep": "d0", "locations": 1}]}
    out.append({"name": "float-residue", "class": "decimal", "cfg": dec, "seed": 3, "ops": [
        _sched(1, 0, 1, "0", _hw(0.1, 0.0, [])), {"op": "settle"}, _sched(2, 1, 2, "0", _hw(0.3, 0.0, [])), {"op": "settle"},
        _notify(0, 1, "0", S.RUNNING), _notify(1, 2, "0", S.RUNNING), _notify(0, 1, "0", S.COMPLETED),
        _notify(1, 2, "0", S.COMPLETED), {"op": "settle"}, _sched(3, 2, 3, "0", _hw(0.4, 0.0, [])), {"op": "settle"}]})
    # 4. two containers stacked on one host
    host = _hw(8.0, 8.0, [["/", "/", 100.0, ["/host/d1", "/host/d1/out", "/host/d1/tmp"], None]])
    cont = _hw(4.0, 4.0, [["/", "/", 10.0, [], None], ["/w", "/w", 20.0, ["/w/out", "/w/tmp"], "/host/d1"]])
    shared = {"deployments": [
        {"name": "d0", "wraps": None, "locs": [{"name": "d0l0", "hw": host, "slots": None, "wraps": None}]},
        {"name": "d1", "wraps": "d0", "locs": [{"name": "d1l0", "hw": cont, "slots": None, "wraps": "d0l0"},
                                              {"name": "d1l1", "hw": cont, "slots": None, "wraps": "d0l0"}]}],
        "sizes": {"d0": {"/host/d1/out": 5 * 2 ** 20}, "d1": {"/w/out": 3 * 2 ** 20}},
        "targets": [{"dep": "d0", "locations": 1}, {"dep": "d1", "locations": 1}]}
    r1 = _hw(1.0, 1.0, [["__outdir__", "/", 2.0, ["/w/out"], None]])
    out.append({"name": "shared-inner-leak", "class": "shared", "cfg": shared, "seed": 4, "ops": [
        _sched(1, 0, 1, "0", r1, targets=(1,)), {"op": "settle"}, _notify(0, 1, "0", S.RUNNING), _notify(0, 1, "0", S.COMPLETED),
        {"op": "settle"}]})
    # 5. a single container on the host: exact
    single = {"deployments": [shared["deployments"][0], {"name": "d1", "wraps": "d0", "locs": [shared["deployments"][1]["locs"][0]]}],
              "sizes": shared["sizes"], "targets": shared["targets"]}
    out.append({"name": "stacked-single", "class": "plain", "cfg": single, "seed": 5, "ops": [
        _sched(1, 0, 1, "0", r1, targets=(1,)), _sched(2, 1, 2, "0", r1, targets=(1,)), {"op": "settle"},
        _notify(0, 1, "0", S.RUNNING), _notify(0, 1, "0", S.COMPLETED), _notify(1, 2, "0", S.RECOVERY), _notify(1, 2, "0", S.ROLLBACK),
        _sched(3, 1, 2, "0", r1, targets=(1,)), {"op": "settle"}, _notify(1, 2, "0", S.RUNNING), _notify(1, 2, "0", S.COMPLETED),
        {"op": "settle"}]})
    # 6. heterogeneous multi-location target
    het = {"deployments": [{"name": "d0", "wraps": None, "locs": [
        {"name": "d0l0", "hw": None, "slots": 2, "wraps": None},
        {"name": "d0l1", "hw": _hw(2.0, 2.0, [["/", "/", 2.0, [], None], ["/w", "/w", 4.0, ["/w/out", "/w/tmp"], None]]), "slots": None, "wraps": None}]}],
        "sizes": {"d0": {}}, "targets": [{"dep": "d0", "locations": 2}]}
    out.append({"name": "hetero-multi-location", "class": "hetero", "cfg": het, "seed": 6, "ops": [
        _sched(1, 0, 1, "0", _hw(0.25, 1.0, [["__outdir__", "/", 1.0, ["/w/out"], None]])), {"op": "settle"},
        _notify(0, 1, "0", S.RUNNING), _notify(0, 1, "0", S.COMPLETED), {"op": "settle"}]})
    # 7. wrapper on a slot-only location: a rolled-back job stays listed on the inner location
    rb = {"deployments": [
        {"name": "d0", "wraps": None, "locs": [{"name": "d0l0", "hw": None, "slots": 1, "wraps": None}]},
        {"name": "d1", "wraps": "d0", "locs": [{"name": "d1l0", "hw": _hw(4.0, 2.0, [["/", "/", 2.0, ["/w/out", "/w/tmp"], None]]), "slots": 1, "wraps": "d0l0"}]}],
        "sizes": {"d0": {}, "d1": {}}, "targets": [{"dep": "d0", "locations": 1}, {"dep": "d1", "locations": 1}]}
    r0 = _hw(1.0, 1.0, [])
    out.append({"name": "rollback-inner-slots", "class": "plain", "cfg": rb, "seed": 7, "ops": [
        _sched(1, 0, 2, "0", r0, targets=(1,)), {"op": "settle"}, _notify(0, 2, "0", S.ROLLBACK), {"op": "settle"},
        _sched(2, 1, 2, "1", r0, targets=(1,)), {"op": "settle"}]})
    # 9. the disk-usage probe fails at release time: the job must still be released (usage counted as 0)
    pf = {"deployments": [{"name": "d0", "wraps": None, "locs": [
        {"name": "d0l0", "hw": _hw(2.0, 4.0, [["/", "/", 10.0, ["/w/out", "/w/tmp"], None]]), "slots": None, "wraps": None}]}],
        "sizes": {"d0": {"/w/out": -1, "/w/tmp": 2 ** 20}}, "targets": [{"dep": "d0", "locations": 1}]}
    rs = _hw(2.0, 1.0, [["__outdir__", "/", 2.0, ["/w/out"], None], ["__tmpdir__", "/", 1.0, ["/w/tmp"], None]])
    out.append({"name": "failing-usage-probe", "class": "plain", "cfg": pf, "seed": 9, "ops": [
        _sched(1, 0, 1, "0", rs), _sched(2, 1, 2, "0", rs), {"op": "settle"}, _notify(0, 1, "0", S.RUNNING),
        _notify(0, 1, "0", S.COMPLETED), {"op": "settle"}, _notify(1, 2, "0", S.RUNNING), _notify(1, 2, "0", S.FAILED), {"op": "settle"}]})
    pfs = {"deployments": [
        {"name": "d0", "wraps": None, "locs": [{"name": "d0l0", "hw": host, "slots": None, "wraps": None}]},
        {"name": "d1", "wraps": "d0", "locs": [{"name": "d1l0", "hw": cont, "slots": None, "wraps": "d0l0"}]}],
        "sizes": {"d0": {"/host/d1/out": -1}, "d1": {"/w/out": 3 * 2 ** 20}},
        "targets": [{"dep": "d0", "locations": 1}, {"dep": "d1", "locations": 1}]}
    out.append({"name": "failing-usage-probe-inner-level", "class": "plain", "cfg": pfs, "seed": 10, "ops": [
        _sched(1, 0, 1, "0", r1, targets=(1,)), {"op": "settle"}, _notify(0, 1, "0", S.RUNNING), _notify(0, 1, "0", S.COMPLETED),
        {"op": "settle"}, _sched(2, 1, 2, "0", r1, targets=(1,)), {"op": "settle"}, _notify(1, 2, "0", S.CANCELLED), {"op": "settle"}]})
    # 8. slots: three jobs on a two-slot location
    sl = {"deployments": [{"name": "d0", "wraps": None, "locs": [{"name": "d0l0", "hw": None, "slots": 2, "wraps": None}]}],
          "sizes": {"d0": {}}, "targets": [{"dep": "d0", "locations": 1}]}
    out.append({"name": "slots", "class": "plain", "cfg": sl, "seed": 8, "ops": [
        _sched(1, 0, 1, "0", r0), _sched(2, 1, 1, "1", r0), _sched(3, 2, 1, "2", r0), {"op": "settle"},
        _notify(1, 1, "1", S.RUNNING), _notify(1, 1, "1", S.CANCELLED), {"op": "settle"},
        _notify(0, 1, "0", S.FAILED), _notify(2, 1, "2", S.RUNNING), _notify(2, 1, "2", S.COMPLETED), {"op": "settle"}]})
    return out


# ------------------------------------------------------------------------------------------------
def scenario_class(rng: random.Random, mode: str) -> str:
    if mode == "search":
        return "plain"
    r = rng.random()
    if r < 0.58:
        return "plain"
    if r < 0.70:
        return "shared"
    if r < 0.80:
        return "hetero"
    if r < 0.92:
        return "oop"
    return "decimal"


def generate(rng: random.Random, cls: str):
    cfg = H.gen_config(rng, decimal=(cls == "decimal"), allow_shared=(cls == "shared"), allow_hetero=(cls == "hetero"))
    chooser = H.make_chooser(rng, cfg, rng.randint(6, 26), out_of_protocol=(cls == "oop"), decimal=(cls == "decimal"))
    return cfg, chooser


def _tiny_negative_raised(log) -> bool:
    """a Storage constructor raised on a negative size of rounding magnitude (a float residue turned into an exception)"""
    import re
    for e in log:
        if e.get("err") == "negativeSize":
            m = re.search(r"negative size: (-[0-9.e+-]+)", e.get("err_text", ""))
            if m and abs(float(m.group(1))) < 1e-9:
                return True
    return False


def causes(world: H.World, cfg: dict, cls: str, upto: int | None = None, exact_domain: bool = False) -> str:
    feats = H.config_features(cfg)
    log = world.log if upto is None else world.log[:upto]
    if cls == "decimal" and (not exact_domain or _tiny_negative_raised(log)):
        return "float"
    if any(e.get("after_granted") for e in log if e["ev"] == "pass"):
        # the engine itself allocated a job twice within one request: never a known finding
        return "request-allocated-twice"
    if not H.history_conforms(world, upto)[0]:
        return "out-of-protocol"
    if any(e.get("stale_connector") for e in log if e["ev"] == "notify"):
        return "stale-connector"
    if feats["shared_inner"]:
        return "shared-inner"
    if feats["hetero_multi"]:
        return "hetero-multi"
    if feats["slot_inner"] and any(e["ev"] == "notify" and e["status"] == int(Status.ROLLBACK) for e in log):
        return "rollback-inner-slots"
    return "unexplained"


def _fail(ctx: Ctx, key: str, detail: str, replay: Any, per_key: int = 6) -> None:
    """ctx.fail with a per-key cap: the framework keeps at most 200 failures, known findings must not crowd out others"""
    counts = ctx.extra.setdefault("failures_by_key", {})
    counts[key] = counts.get(key, 0) + 1
    if counts[key] <= per_key:
        ctx.fail(key, detail, replay)


def evaluate(ctx: Ctx, pid: str, world: H.World, checks: list[dict], timed_out: bool, cfg: dict, ops: list[dict],
             seed: int, cls: str, name: str | None = None) -> None:
    """the property's own invariants on the REAL state"""
    inv = INVARIANTS[pid]
    replay = {"cfg": cfg, "ops": ops, "seed": seed, "class": cls, "name": name}
    if "capacity" in inv:
        for c in checks:
            if c.get("capacity"):
                # in the decimal class an excess within 1e-9 is the float finding, a larger one is not
                cause = causes(world, cfg, cls, c.get("log_len"), exact_domain=bool(c.get("capacity_tol")))
                _fail(ctx, f"over-capacity:{cause}", f"after op {c['at']} ({c.get('op')}): " + "; ".join(c["capacity"][:3]), replay)
                break
    if "zero" in inv:
        for c in checks:
            if c.get("zero"):
                cause = causes(world, cfg, cls, c.get("log_len"), exact_domain=bool(c.get("zero_tol")))
                _fail(ctx, f"not-zero:{cause}", f"after op {c['at']} ({c.get('op')}): " + "; ".join(c["zero"][:3]), replay)
                break
    if "notify-raised" in inv:
        for i, e in enumerate(world.log):
            if e["ev"] == "notify" and e["err"] not in (None, "unknownJob"):
                cause = causes(world, cfg, cls, i + 1)
                _fail(ctx, f"notify-raised:{cause}", f"notify_status({e['job']}, {Status(e['status']).name}) raised {e['err']}: "
                         f"{e.get('err_text', '')[:200]}", replay)
                break
    if "missed" in inv:
        for c in checks:
            if c.get("missed"):
                m = c["missed"][0]
                cause = causes(world, cfg, cls, c.get("log_len"))
                _fail(ctx, f"missed-fit:{cause}", f"quiescent after op {c['at']} ({c.get('op')}): request for {m['job']} still waiting while it "
                         f"fits target {m['target']} on {m['fits_on']}", replay)
                break
    if "timeout" in inv and timed_out:
        _fail(ctx, f"hang:{causes(world, cfg, cls)}", "scenario did not finish within its time bound", replay)


def explore(ctx: Ctx, pid: str) -> None:
    import logging
    from streamflow.log_handler import logger
    old = logger.level
    logger.setLevel(logging.ERROR)      # _free_resources warns on every scripted failure of the disk-usage probe
    try:
        _explore(ctx, pid)
    finally:
        logger.setLevel(old)


def _explore(ctx: Ctx, pid: str) -> None:
    rng = ctx.rng
    n = {"quick": 260, "thorough": 2600}[ctx.tier]
    if ctx.mode == "search":
        n *= 2
    lines: list[str] = []
    metas: list[tuple] = []
    todo: list[tuple] = []
    for w in corpus():
        todo.append((w["cfg"], w["ops"], w["seed"], w["class"], w["name"]))
    ctx.corpus_replayed += len(todo)
    for i in range(n):
        cls = scenario_class(rng, ctx.mode)
        seed = rng.randrange(1 << 30)
        sub = random.Random(seed)
        cfg, chooser = generate(sub, cls)
        todo.append((cfg, chooser, seed, cls, None))
    for cfg, ops, seed, cls, name in todo:
        if ctx.out_of_time():
            ctx.extra["incomplete"] = True
            break
        names = Names()
        world, checks, timed_out, executed = H.run_scenario(cfg, ops, seed, timeout=20.0, names=names)
        feats = H.config_features(cfg)
        n_alloc = sum(1 for e in world.log if e["ev"] == "pass" and e["alloc"])
        key = (repr(cfg), repr(executed)) if n_alloc >= 1 and len(world.log) >= 3 else None
        ctx.case({"class": cls, "name": name, "deployments": [(d["name"], d["wraps"], len(d["locs"])) for d in cfg["deployments"]],
                  "targets": cfg["targets"], "ops": len(executed), "passes": sum(1 for e in world.log if e["ev"] == "pass"),
                  "allocations": n_alloc, "notifications": sum(1 for e in world.log if e["ev"] == "notify")}, key, cls)
        for f, v in feats.items():
            if v:
                ctx.count("cfg:" + f)
        for e in world.log:
            if e["ev"] == "pass":
                ctx.count("pass:" + ("allocated" if e["alloc"] else ("raised" if e["err"] else "waiting")))
            elif e["ev"] == "notify":
                ctx.count("notify:" + ("raised" if e["err"] else Status(e["status"]).name))
        ctx.count("quiescent-points", sum(1 for c in checks if c.get("quiescent")))
        evaluate(ctx, pid, world, checks, timed_out, cfg, executed, seed, cls, name)
        if cls != "decimal" and not timed_out:
            cl = H.config_lines(world)
            ml, evs = H.model_lines(world)
            metas.append((world, len(lines) + len(cl), evs, cfg, executed, seed, cls))
            lines += cl + ml + ["refhyp"]
    outs = ctx.lean("Drivers/C10.lean", lines)
    try:
        hyps = ctx.lean("Drivers/C10Hyp.lean", lines)      # imports the lemma files: unavailable while a proof is broken
    except Exception as e:  # noqa: BLE001
        hyps = None
        ctx.notes.append(f"hypothesis driver Drivers/C10Hyp.lean unavailable ({type(e).__name__}); refinement hypotheses not measured in this run")
    for world, off, evs, cfg, executed, seed, cls in metas:
        ds = H.compare(world, outs[off:off + len(evs)], evs)
        for what, detail in ds[:1]:
            ctx.disagree(f"scheduler model vs DefaultScheduler: {what}", detail[:1500], {"cfg": cfg, "ops": executed, "seed": seed, "class": cls})
        for o in outs[off:off + len(evs)]:
            ctx.count("model:" + o.split(" ")[0])
        # hypothesis of C10.sched_refines_ledger (flat hardware configuration + protocol, evaluated by the Lean driver with
        # the decidable Refine.OkS at every step) and whether some step raised
        if hyps is None:
            continue
        hyp = hyps[off + len(evs)].split(" ")
        stale = any(e.get("stale_connector") for e in world.log if e["ev"] == "notify")
        if hyp[0] == "true":
            ctx.count("refinement-hypothesis:holds")
            if stale:
                # the real run left the modelled domain (notification racing with a re-allocation: the model's notify is atomic)
                ctx.count("refinement-hypothesis:holds-but-real-run-has-stale-connector-race")
            elif hyp[1] == "false":
                ctx.count("refinement-hypothesis:holds-and-no-step-raised")
                # the theorem's conclusion, observed on the REAL state: reserved cores/memory = what the occupying jobs need
                use = world.true_usage()
                for lname, h in world.scheduler.hardware_locations.items():
                    u = use.get(lname, {"cores": 0, "memory": 0})
                    if h.cores != u["cores"] or h.memory != u["memory"]:
                        ctx.disagree("conclusion of sched_refines_ledger on the real scheduler",
                                     f"{lname}: reserved cores/memory {h.cores}/{h.memory}, occupying jobs need {u['cores']}/{u['memory']}",
                                     {"cfg": cfg, "ops": executed, "seed": seed, "class": cls})
        else:
            ctx.count("refinement-hypothesis:does-not-hold")
        # hypothesis of C10.sched_refines_slots (flat slot-only configuration + protocol) and its conclusion on the real state
        if len(hyp) > 2 and hyp[2] == "true":
            ctx.count("slots-refinement-hypothesis:holds")
            if hyp[1] == "false" and not stale:
                ctx.count("slots-refinement-hypothesis:holds-and-no-step-raised")
                for lname, u in world.true_usage().items():
                    lc = world.loc_cfg[lname]
                    slots = lc["slots"] if lc["slots"] is not None else 1
                    if lc["hw"] is None and u["count"] > slots:
                        ctx.disagree("conclusion of sched_refines_slots on the real scheduler",
                                     f"{lname}: {u['count']} occupying jobs > {slots} slots", {"cfg": cfg, "ops": executed, "seed": seed, "class": cls})


def replay(ctx: Ctx, pid: str, data: Any) -> None:
    r = data.get("replay") or (data.get("no_longer_checks") or [{}])[0].get("case") or {}
    if not r or "cfg" not in r:
        import json
        print(json.dumps(data, indent=1)[:3000])
        return
    names = Names()
    world, checks, timed_out, executed = H.run_scenario(r["cfg"], r["ops"], r["seed"], timeout=20.0, names=names)
    print("configuration:", r["cfg"])
    print("real scheduler events:")
    for e in world.log:
        print("  ", {k: v for k, v in e.items() if k not in ("real", "snap")})
        if e.get("snap"):
            print("      state:", e["snap"])
    for c in checks:
        if c.get("capacity") or c.get("zero") or c.get("missed"):
            print("  invariant on the real state after op", c["at"], {k: v for k, v in c.items() if k in ("capacity", "zero", "missed") and v})
    cl = H.config_lines(world)
    ml, evs = H.model_lines(world)
    outs = ctx.lean("Drivers/C10.lean", cl + ml)
    print("Lean model:")
    for ln, o in zip(ml, outs[len(cl):]):
        print("  ", ln, "->", o)
    if r.get("class") != "decimal":
        for what, detail in H.compare(world, outs[len(cl):], evs)[:3]:
            ctx.disagree(what, detail[:1500], None)
    evaluate(ctx, pid, world, checks, timed_out, r["cfg"], executed, r["seed"], r.get("class", "plain"), r.get("name"))
