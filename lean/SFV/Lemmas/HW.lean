import SFV.Model.HW
/-! Helper lemmas about the `Hardware` / `Storage` model (`SFV/Model/HW.lean`). -/
namespace SFV.HW
open SFV.Gen.Sched

theorem bind_eq_ok {ε α β} (e : Except ε α) (f : α → Except ε β) (r : β) :
    (e >>= f) = .ok r ↔ ∃ x, e = .ok x ∧ f x = .ok r := by
  cases e with
  | error err => simp [bind, Except.bind]
  | ok x => simp [bind, Except.bind]

theorem mkStorage_eq_ok (m : Name) (sz : Rat) (p : List Name) (b : Option Name) (s : Storage) :
    mkStorage m sz p b = .ok s ↔ 0 ≤ sz ∧ s = ⟨m, sz, p, b⟩ := by
  unfold mkStorage sizeRejected
  by_cases h : sz < 0
  · simp [h]; intro h'; exact absurd h' (by grind)
  · simp [h]; constructor
    · intro e; exact ⟨by grind, e.symm⟩
    · intro ⟨_, e⟩; exact e.symm

theorem mkStorage_error (m : Name) (sz : Rat) (p : List Name) (b : Option Name) (e : Err) :
    mkStorage m sz p b = .error e ↔ sz < 0 ∧ e = .negativeSize := by
  unfold mkStorage sizeRejected
  by_cases h : sz < 0 <;> simp [h, eq_comm]

theorem combine_eq_ok (f : Rat → Rat → Rat) (a b s : Storage) :
    Storage.combine f a b = .ok s ↔
      a.mount = b.mount ∧ 0 ≤ f a.size b.size ∧ s = ⟨a.mount, f a.size b.size, unionPaths a.paths b.paths, a.bind⟩ := by
  unfold Storage.combine mountMismatch
  by_cases h : a.mount = b.mount
  · simp [h, mkStorage_eq_ok]
  · simp [h]

/-- per-mount total of a list of storages -/
def listTotal : List Storage → Name → Rat
  | [], _ => 0
  | s :: rest, m => (if s.mount = m then s.size else 0) + listTotal rest m

theorem mountTotal_eq_listTotal (m : StorageMap) (μ : Name) : mountTotal m μ = listTotal (values m) μ := by
  induction m with
  | nil => rfl
  | cons kd rest ih => obtain ⟨k, s⟩ := kd; simp [mountTotal, listTotal, values, ih]

theorem listTotal_append (a b : List Storage) (μ : Name) : listTotal (a ++ b) μ = listTotal a μ + listTotal b μ := by
  induction a with
  | nil => simp only [listTotal, List.nil_append]; grind
  | cons s rest ih => simp only [listTotal, List.cons_append, ih]; grind

theorem mountTotal_append (a b : StorageMap) (μ : Name) : mountTotal (a ++ b) μ = mountTotal a μ + mountTotal b μ := by
  simp [mountTotal_eq_listTotal, values, listTotal_append]

/-- keys equal mount points, keys duplicate-free, sizes acceptable: the shape `_reduce_storages` produces -/
structure Normal (m : StorageMap) : Prop where
  keyMount : ∀ kd ∈ m, kd.1 = kd.2.mount
  nodup : (keys m).Nodup
  valid : ∀ kd ∈ m, 0 ≤ kd.2.size

@[simp] theorem keys_cons (k : Name) (s : Storage) (m : StorageMap) : keys ((k, s) :: m) = k :: keys m := rfl
@[simp] theorem keys_nil : keys [] = [] := rfl
@[simp] theorem keys_append (a b : StorageMap) : keys (a ++ b) = keys a ++ keys b := by simp [keys]

theorem Normal.nil : Normal [] := ⟨by simp, by simp [keys], by simp⟩

theorem Normal.tail {kd : Name × Storage} {m : StorageMap} (h : Normal (kd :: m)) : Normal m :=
  ⟨fun x hx => h.keyMount x (List.mem_cons_of_mem _ hx),
   (by obtain ⟨k, s⟩ := kd; exact (List.nodup_cons.mp h.nodup).2),
   fun x hx => h.valid x (List.mem_cons_of_mem _ hx)⟩

theorem lookup_none_iff (m : StorageMap) (k : Name) : lookup m k = none ↔ k ∉ keys m := by
  induction m with
  | nil => simp [lookup, keys]
  | cons kd rest ih =>
    obtain ⟨k', s⟩ := kd
    by_cases h : k' = k
    · simp [lookup, keys, h]
    · simp only [lookup, h, if_false, ih]; simp [keys]; grind

theorem lookup_some_mem {m : StorageMap} {k : Name} {s : Storage} (h : lookup m k = some s) : (k, s) ∈ m := by
  induction m with
  | nil => simp [lookup] at h
  | cons kd rest ih =>
    obtain ⟨k', s'⟩ := kd
    by_cases hk : k' = k
    · simp [lookup, hk] at h; simp [hk, h]
    · simp [lookup, hk] at h; exact List.mem_cons_of_mem _ (ih h)

theorem mem_keys_iff_lookup (m : StorageMap) (k : Name) : k ∈ keys m ↔ ∃ s, lookup m k = some s := by
  have := lookup_none_iff m k
  cases h : lookup m k with
  | none => simp [h] at this; simp [this]
  | some s => simp [h] at this; simp [this]

theorem mountTotal_of_not_mem {m : StorageMap} (hk : ∀ kd ∈ m, kd.1 = kd.2.mount) {μ : Name} (h : μ ∉ keys m) :
    mountTotal m μ = 0 := by
  induction m with
  | nil => rfl
  | cons kd rest ih =>
    obtain ⟨k, s⟩ := kd
    have h1 : k = s.mount := hk (k, s) (List.mem_cons_self ..)
    have h2 : μ ≠ k := by intro e; apply h; simp [keys, e]
    have h3 : μ ∉ keys rest := by intro e; apply h; simp [keys] at e ⊢; exact Or.inr e
    simp only [mountTotal]
    rw [ih (fun x hx => hk x (List.mem_cons_of_mem _ hx)) h3, if_neg (by rw [← h1]; exact fun e => h2 e.symm)]
    grind

theorem Normal.total_of_lookup {m : StorageMap} (hn : Normal m) {μ : Name} {s : Storage} (h : lookup m μ = some s) :
    mountTotal m μ = s.size := by
  induction m with
  | nil => simp [lookup] at h
  | cons kd rest ih =>
    obtain ⟨k, s'⟩ := kd
    have h1 : k = s'.mount := hn.keyMount (k, s') (List.mem_cons_self ..)
    have hnd := List.nodup_cons.mp hn.nodup
    by_cases hk : k = μ
    · simp [lookup, hk] at h
      subst h
      have : μ ∉ keys rest := by rw [← hk]; exact hnd.1
      simp only [mountTotal]
      rw [mountTotal_of_not_mem hn.tail.keyMount this, if_pos (by rw [← h1, hk])]
      grind
    · simp [lookup, hk] at h
      simp only [mountTotal]
      rw [ih hn.tail h, if_neg (by rw [← h1]; exact hk)]
      grind

/-! ### `upsert` -/

theorem upsert_keys {op} {acc acc' : StorageMap} {d : Storage} (h : upsert op acc d = .ok acc') :
    keys acc' = if d.mount ∈ keys acc then keys acc else keys acc ++ [d.mount] := by
  induction acc generalizing acc' with
  | nil =>
    simp only [upsert, bind_eq_ok] at h
    obtain ⟨s, _, h⟩ := h
    cases h; simp [keys]
  | cons kd rest ih =>
    obtain ⟨k, s⟩ := kd
    by_cases hk : k = d.mount
    · simp only [upsert, hk, if_true, bind_eq_ok] at h
      obtain ⟨s', _, h⟩ := h
      cases h; simp [keys, hk]
    · simp only [upsert, hk, if_false, bind_eq_ok] at h
      obtain ⟨r, hr, h⟩ := h
      cases h
      have := ih hr
      have hne : d.mount ≠ k := fun e => hk e.symm
      simp only [keys_cons, List.mem_cons, hne, false_or, this]
      split <;> simp

/-- effect of one `upsert` with `Storage.combine f` on the per-mount totals, when `f · d.size` is a shift by `δ` -/
theorem upsert_total {f : Rat → Rat → Rat} {acc acc' : StorageMap} {d : Storage} (δ : Rat)
    (hf : ∀ a, f a d.size = a + δ) (h : upsert (Storage.combine f) acc d = .ok acc') (μ : Name) :
    mountTotal acc' μ = mountTotal acc μ +
      (if d.mount = μ then (if d.mount ∈ keys acc then δ else d.size) else 0) := by
  induction acc generalizing acc' with
  | nil =>
    simp only [upsert, bind_eq_ok, mkStorage_eq_ok] at h
    obtain ⟨s, ⟨_, hs⟩, h⟩ := h
    cases h; subst hs
    simp only [mountTotal, keys_nil, List.not_mem_nil, if_false]; grind
  | cons kd rest ih =>
    obtain ⟨k, s⟩ := kd
    by_cases hk : k = d.mount
    · simp only [upsert, hk, if_true, bind_eq_ok, combine_eq_ok] at h
      obtain ⟨s', ⟨hm, _, hs'⟩, h⟩ := h
      cases h; subst hs'
      simp only [mountTotal, keys, List.map_cons, hk, List.mem_cons, true_or, if_true, hf, hm]
      by_cases hμ : d.mount = μ <;> simp [hμ] <;> grind
    · simp only [upsert, hk, if_false, bind_eq_ok] at h
      obtain ⟨r, hr, h⟩ := h
      cases h
      have := ih hr
      have hne : d.mount ≠ k := fun e => hk e.symm
      simp only [mountTotal, this, keys_cons, List.mem_cons, hne, false_or]
      grind

/-- every entry after an `upsert` is an old entry or the (new / combined) entry of `d`'s mount point -/
theorem upsert_mem {f : Rat → Rat → Rat} {acc acc' : StorageMap} {d : Storage}
    (h : upsert (Storage.combine f) acc d = .ok acc') :
    ∀ kd ∈ acc', kd ∈ acc ∨ (kd.1 = d.mount ∧ kd.2.mount = d.mount ∧ 0 ≤ kd.2.size) := by
  induction acc generalizing acc' with
  | nil =>
    simp only [upsert, bind_eq_ok, mkStorage_eq_ok] at h
    obtain ⟨s, ⟨h0, hs⟩, h⟩ := h
    cases h; subst hs
    intro kd hkd; simp at hkd; subst hkd; exact Or.inr ⟨rfl, rfl, h0⟩
  | cons kd0 rest ih =>
    obtain ⟨k, s⟩ := kd0
    by_cases hk : k = d.mount
    · simp only [upsert, hk, if_true, bind_eq_ok, combine_eq_ok] at h
      obtain ⟨s', ⟨hm, h0, hs'⟩, h⟩ := h
      cases h; subst hs'
      intro kd hkd
      rcases List.mem_cons.mp hkd with e | e
      · subst e; exact Or.inr ⟨rfl, hm, h0⟩
      · exact Or.inl (List.mem_cons_of_mem _ e)
    · simp only [upsert, hk, if_false, bind_eq_ok] at h
      obtain ⟨r, hr, h⟩ := h
      cases h
      intro kd hkd
      rcases List.mem_cons.mp hkd with e | e
      · subst e; exact Or.inl (List.mem_cons_self ..)
      · rcases ih hr kd e with e' | e'
        · exact Or.inl (List.mem_cons_of_mem _ e')
        · exact Or.inr e'

theorem upsert_normal {f : Rat → Rat → Rat} {acc acc' : StorageMap} {d : Storage} (hn : Normal acc)
    (h : upsert (Storage.combine f) acc d = .ok acc') : Normal acc' := by
  refine ⟨?_, ?_, ?_⟩
  · intro kd hkd
    rcases upsert_mem h kd hkd with e | ⟨e1, e2, _⟩
    · exact hn.keyMount kd e
    · rw [e1, e2]
  · rw [upsert_keys h]
    split
    · exact hn.nodup
    · rename_i hm
      refine List.nodup_append.mpr ⟨hn.nodup, by simp, ?_⟩
      intro a ha b hb e
      simp at hb; subst hb; subst e; exact hm ha
  · intro kd hkd
    rcases upsert_mem h kd hkd with e | ⟨_, _, e3⟩
    · exact hn.valid kd e
    · exact e3

/-- `upsert` succeeds when the new size is acceptable -/
theorem upsert_ok {f : Rat → Rat → Rat} (acc : StorageMap) (d : Storage) (hk : ∀ kd ∈ acc, kd.1 = kd.2.mount)
    (hnew : d.mount ∉ keys acc → 0 ≤ d.size)
    (hold : ∀ s, lookup acc d.mount = some s → 0 ≤ f s.size d.size) :
    ∃ acc', upsert (Storage.combine f) acc d = .ok acc' := by
  induction acc with
  | nil =>
    exact ⟨[(d.mount, ⟨d.mount, d.size, d.paths, d.bind⟩)], by
      simp only [upsert, bind_eq_ok, mkStorage_eq_ok]
      exact ⟨_, ⟨hnew (by simp), rfl⟩, rfl⟩⟩
  | cons kd rest ih =>
    obtain ⟨k, s⟩ := kd
    have hks : k = s.mount := hk (k, s) (List.mem_cons_self ..)
    by_cases hkd : k = d.mount
    · refine ⟨(k, ⟨s.mount, f s.size d.size, unionPaths s.paths d.paths, s.bind⟩) :: rest, ?_⟩
      simp only [upsert, hkd, if_true, bind_eq_ok, combine_eq_ok]
      exact ⟨_, ⟨by rw [← hks, hkd], hold s (by simp [lookup, hkd]), rfl⟩, by rw [← hkd]; rfl⟩
    · obtain ⟨r, hr⟩ := ih (fun x hx => hk x (List.mem_cons_of_mem _ hx))
        (fun hm => hnew (by simp only [keys_cons, List.mem_cons, not_or]; exact ⟨fun e => hkd e.symm, hm⟩))
        (fun s' hs' => hold s' (by simp [lookup, hkd, hs']))
      exact ⟨(k, s) :: r, by simp only [upsert, hkd, if_false, bind_eq_ok]; exact ⟨r, hr, rfl⟩⟩

/-- a fresh mount point is appended unchanged, whatever the operator -/
theorem upsert_fresh {op} (acc : StorageMap) (d : Storage) (hm : d.mount ∉ keys acc) (h0 : 0 ≤ d.size) :
    upsert op acc d = .ok (acc ++ [(d.mount, d)]) := by
  induction acc with
  | nil =>
    simp only [upsert, bind_eq_ok, mkStorage_eq_ok]
    exact ⟨d, ⟨h0, rfl⟩, rfl⟩
  | cons kd rest ih =>
    obtain ⟨k, s⟩ := kd
    simp only [keys_cons, List.mem_cons, not_or] at hm
    have hkd : k ≠ d.mount := fun e => hm.1 e.symm
    simp only [upsert, hkd, if_false, bind_eq_ok]
    exact ⟨_, ih hm.2, rfl⟩

/-! ### `reduceFrom` -/

theorem reduceFrom_normal {f : Rat → Rat → Rat} {ds : List Storage} {acc r : StorageMap} (hn : Normal acc)
    (h : reduceFrom (Storage.combine f) acc ds = .ok r) : Normal r := by
  induction ds generalizing acc with
  | nil => simp only [reduceFrom] at h; cases h; exact hn
  | cons d ds ih =>
    simp only [reduceFrom, bind_eq_ok] at h
    obtain ⟨acc', h1, h2⟩ := h
    exact ih (upsert_normal hn h1) h2

theorem reduceFrom_keys {op} {ds : List Storage} {acc r : StorageMap}
    (h : reduceFrom op acc ds = .ok r) (μ : Name) : μ ∈ keys r ↔ μ ∈ keys acc ∨ μ ∈ ds.map (·.mount) := by
  induction ds generalizing acc with
  | nil => simp only [reduceFrom] at h; cases h; simp
  | cons d ds ih =>
    simp only [reduceFrom, bind_eq_ok] at h
    obtain ⟨acc', h1, h2⟩ := h
    rw [ih h2, upsert_keys h1]
    split <;> simp <;> grind

/-- per-mount totals after reducing with `Storage.add` -/
theorem reduceFrom_add_total {ds : List Storage} {acc r : StorageMap}
    (h : reduceFrom Storage.add acc ds = .ok r) (μ : Name) : mountTotal r μ = mountTotal acc μ + listTotal ds μ := by
  induction ds generalizing acc with
  | nil => simp only [reduceFrom] at h; cases h; simp only [listTotal]; grind
  | cons d ds ih =>
    simp only [reduceFrom, bind_eq_ok] at h
    obtain ⟨acc', h1, h2⟩ := h
    rw [ih h2, upsert_total d.size (by intro a; rfl) h1 μ]
    simp only [listTotal]; grind

/-- reducing acceptable storages with `Storage.add` never raises -/
theorem reduceFrom_add_ok (ds : List Storage) (acc : StorageMap) (hn : Normal acc) (hv : ∀ d ∈ ds, 0 ≤ d.size) :
    ∃ r, reduceFrom Storage.add acc ds = .ok r := by
  induction ds generalizing acc with
  | nil => exact ⟨acc, rfl⟩
  | cons d ds ih =>
    obtain ⟨acc', h1⟩ := upsert_ok (f := storageAdd) acc d hn.keyMount (fun _ => hv d (List.mem_cons_self ..))
      (fun s hs => by
        have := hn.valid _ (lookup_some_mem hs)
        have := hv d (List.mem_cons_self ..)
        simp only [storageAdd]; grind)
    obtain ⟨r, h2⟩ := ih acc' (upsert_normal hn h1) (fun x hx => hv x (List.mem_cons_of_mem _ hx))
    exact ⟨r, by simp only [reduceFrom, bind_eq_ok]; exact ⟨acc', h1, h2⟩⟩

/-- reducing the values of a normal map from its own prefix copies it, whatever the operator -/
theorem reduceFrom_copy {op} (rest acc : StorageMap) (hn : Normal (acc ++ rest)) :
    reduceFrom op acc (values rest) = .ok (acc ++ rest) := by
  induction rest generalizing acc with
  | nil => simp [values, reduceFrom]
  | cons kd rest ih =>
    obtain ⟨k, s⟩ := kd
    have hks : k = s.mount := hn.keyMount (k, s) (by simp)
    have hnd : k ∉ keys acc := by
      have := hn.nodup
      simp only [keys_append, keys_cons] at this
      have := (List.nodup_append.mp this).2.2
      intro hm; exact this k hm k (List.mem_cons_self ..) rfl
    have h0 : 0 ≤ s.size := hn.valid (k, s) (by simp)
    simp only [values, List.map_cons, reduceFrom, bind_eq_ok]
    refine ⟨acc ++ [(k, s)], ?_, ?_⟩
    · rw [hks]; exact upsert_fresh acc s (by rw [← hks]; exact hnd) h0
    · have := ih (acc ++ [(k, s)]) (by simpa using hn)
      simpa [values] using this

/-- subtracting storages whose mount points are all present and not larger than what is there never raises and
    subtracts exactly -/
theorem reduceFrom_sub (ds : List Storage) (acc : StorageMap) (hn : Normal acc) (hnd : (ds.map (·.mount)).Nodup)
    (hle : ∀ d ∈ ds, d.mount ∈ keys acc ∧ d.size ≤ mountTotal acc d.mount) :
    ∃ r, reduceFrom Storage.sub acc ds = .ok r ∧ Normal r ∧ keys r = keys acc ∧
      ∀ μ, mountTotal r μ = mountTotal acc μ - listTotal ds μ := by
  induction ds generalizing acc with
  | nil => exact ⟨acc, rfl, hn, rfl, fun μ => by simp only [listTotal]; grind⟩
  | cons d ds ih =>
    obtain ⟨hdm, hds⟩ := hle d (List.mem_cons_self ..)
    obtain ⟨acc', h1⟩ := upsert_ok (f := storageSub) acc d hn.keyMount (fun h => absurd hdm h)
      (fun s hs => by
        have := hn.total_of_lookup hs
        simp only [storageSub]; grind)
    have hn' := upsert_normal hn h1
    have hk' : keys acc' = keys acc := by rw [upsert_keys h1, if_pos hdm]
    have ht' : ∀ μ, mountTotal acc' μ = mountTotal acc μ + (if d.mount = μ then -d.size else 0) := by
      intro μ
      rw [upsert_total (-d.size) (by intro a; simp only [storageSub]; grind) h1 μ, if_pos hdm]
    simp only [List.map_cons, List.nodup_cons] at hnd
    obtain ⟨r, h2, hnr, hkr, htr⟩ := ih acc' hn' hnd.2 (fun x hx => by
      obtain ⟨a, b⟩ := hle x (List.mem_cons_of_mem _ hx)
      refine ⟨hk' ▸ a, ?_⟩
      have hne : d.mount ≠ x.mount := fun e => hnd.1 (e ▸ List.mem_map_of_mem hx)
      rw [ht', if_neg hne]; grind)
    refine ⟨r, by simp only [reduceFrom, bind_eq_ok]; exact ⟨acc', h1, h2⟩, hnr, hkr.trans hk', fun μ => ?_⟩
    rw [htr, ht']; simp only [listTotal]; grind

/-! ### normalisation -/

theorem normalizeStorage_normal {m n : StorageMap} (h : normalizeStorage m = .ok n) : Normal n :=
  reduceFrom_normal (f := storageAdd) Normal.nil h

theorem normalizeStorage_total {m n : StorageMap} (h : normalizeStorage m = .ok n) (μ : Name) :
    mountTotal n μ = mountTotal m μ := by
  have := reduceFrom_add_total h μ
  rw [this, mountTotal_eq_listTotal m]
  have : mountTotal [] μ = 0 := rfl
  grind

theorem normalizeStorage_keys {m n : StorageMap} (h : normalizeStorage m = .ok n) (μ : Name) :
    μ ∈ keys n ↔ μ ∈ mounts m := by
  have := reduceFrom_keys h μ
  simpa [values, mounts] using this

theorem normalizeStorage_ok (m : StorageMap) (hv : ∀ kd ∈ m, 0 ≤ kd.2.size) : ∃ n, normalizeStorage m = .ok n :=
  reduceFrom_add_ok (values m) [] Normal.nil (by
    intro d hd
    simp only [values, List.mem_map] at hd
    obtain ⟨kd, hkd, e⟩ := hd
    exact e ▸ hv kd hkd)

theorem normalizeStorage_of_normal {n : StorageMap} (hn : Normal n) : normalizeStorage n = .ok n := by
  have := reduceFrom_copy (op := Storage.add) n [] (by simpa using hn)
  simpa [normalizeStorage, reduceStorages] using this

theorem ValidMap_iff (m : StorageMap) : ValidMap m ↔ ∀ kd ∈ m, 0 ≤ kd.2.size := by
  unfold ValidMap sizeRejected
  constructor <;> intro h kd hkd <;> have := h kd hkd <;> simp at this ⊢ <;> grind

theorem mountTotal_nonneg {m : StorageMap} (hv : ∀ kd ∈ m, 0 ≤ kd.2.size) (μ : Name) : 0 ≤ mountTotal m μ := by
  induction m with
  | nil => simp only [mountTotal]; grind
  | cons kd rest ih =>
    obtain ⟨k, s⟩ := kd
    have h1 := hv (k, s) (List.mem_cons_self ..)
    have h2 := ih (fun x hx => hv x (List.mem_cons_of_mem _ hx))
    simp only [mountTotal]; split <;> grind

theorem values_nodup_of_normal {n : StorageMap} (hn : Normal n) : ((values n).map (·.mount)).Nodup := by
  have : (values n).map (·.mount) = keys n := by
    simp only [values, keys, List.map_map]
    apply List.map_congr_left
    intro kd hkd
    exact (hn.keyMount kd hkd).symm
  rw [this]; exact hn.nodup

theorem mem_values_normal {n : StorageMap} (hn : Normal n) {d : Storage} (hd : d ∈ values n) :
    lookup n d.mount = some d := by
  simp only [values, List.mem_map] at hd
  obtain ⟨kd, hkd, e⟩ := hd
  obtain ⟨k, s⟩ := kd
  simp only at e; subst e
  have hk := hn.keyMount _ hkd
  simp only at hk
  induction n with
  | nil => simp at hkd
  | cons kd' rest ih =>
    obtain ⟨k', s'⟩ := kd'
    have hnd := List.nodup_cons.mp hn.nodup
    rcases List.mem_cons.mp hkd with e | e
    · cases e; simp [lookup, hk]
    · have hne : k' ≠ s.mount := by
        intro e'; apply hnd.1; rw [e', ← hk]; simp only [List.mem_map]; exact ⟨(k, s), e, rfl⟩
      simp only [lookup, hne, if_false]
      exact ih hn.tail e

theorem mkHardware_total (c m : Rat) (st : StorageMap) (μ : Name) :
    mountTotal (mkHardware c m st).storage μ = mountTotal st μ := by
  unfold mkHardware
  cases st with
  | nil => simp [mountTotal]; grind
  | cons a b => simp

theorem mkHardware_normal (c m : Rat) {st : StorageMap} (hn : Normal st) : Normal (mkHardware c m st).storage := by
  unfold mkHardware
  cases st with
  | nil =>
    simp only [List.isEmpty_nil, if_true]
    refine ⟨by simp, by simp [keys], by simp⟩
  | cons a b => simpa using hn

theorem reduceFrom_append {op} (xs ys : List Storage) (acc : StorageMap) :
    reduceFrom op acc (xs ++ ys) = reduceFrom op acc xs >>= fun acc' => reduceFrom op acc' ys := by
  induction xs generalizing acc with
  | nil => simp [reduceFrom, bind, Except.bind]
  | cons d xs ih =>
    simp only [List.cons_append, reduceFrom]
    cases h : upsert op acc d with
    | error e => simp [bind, Except.bind]
    | ok acc' => simp only [bind, Except.bind]; exact ih acc'

theorem mkHardware_storage_of_ne (c m : Rat) {st : StorageMap} (h : st ≠ []) : (mkHardware c m st).storage = st := by
  unfold mkHardware
  cases st with
  | nil => exact absurd rfl h
  | cons a b => simp

theorem mkHardware_idem (c m : Rat) (st : StorageMap) :
    mkHardware c m (mkHardware c m st).storage = mkHardware c m st := by
  cases st with
  | nil => simp [mkHardware]
  | cons a b => simp [mkHardware]

/-! ### `satisfies` -/

theorem allDisksOk_iff (selfNorm : StorageMap) (ds : List Storage) :
    allDisksOk selfNorm ds = true ↔ ∀ d ∈ ds, ∃ s, lookup selfNorm d.mount = some s ∧ d.size ≤ s.size := by
  induction ds with
  | nil => simp [allDisksOk]
  | cons d ds ih =>
    simp only [allDisksOk, Bool.and_eq_true, ih, List.mem_cons, forall_eq_or_imp]
    constructor
    · rintro ⟨h1, h2⟩
      refine ⟨?_, h2⟩
      cases hl : lookup selfNorm d.mount with
      | none => simp [hl] at h1
      | some s => simp only [hl, diskOk, decide_eq_true_eq] at h1; exact ⟨s, rfl, h1⟩
    · rintro ⟨⟨s, hl, hs⟩, h2⟩
      refine ⟨?_, h2⟩
      simp only [hl, diskOk, decide_eq_true_eq]; exact hs

theorem any_missing_iff (a b : List Name) :
    (a.any (fun k => !b.contains k)) = true ↔ ∃ μ ∈ a, μ ∉ b := by
  simp [List.any_eq_true]

/-- with both maps normalised and every requirement mount present, the `all(...)` compares per-mount totals -/
theorem allDisksOk_totals {sn on : StorageMap} (hs : Normal sn) (ho : Normal on)
    (hsub : ∀ μ ∈ keys on, μ ∈ keys sn) :
    allDisksOk sn (values on) = true ↔ ∀ μ ∈ keys on, mountTotal on μ ≤ mountTotal sn μ := by
  rw [allDisksOk_iff]
  constructor
  · intro h μ hμ
    obtain ⟨d, hd⟩ := (mem_keys_iff_lookup on μ).mp hμ
    have hmem := lookup_some_mem hd
    have hdm : μ = d.mount := ho.keyMount _ hmem
    have hdv : d ∈ values on := by simp only [values, List.mem_map]; exact ⟨_, hmem, rfl⟩
    obtain ⟨s, hl, hle⟩ := h d hdv
    rw [ho.total_of_lookup hd, hdm, hs.total_of_lookup hl]; exact hle
  · intro h d hd
    have hl := mem_values_normal ho hd
    have hk : d.mount ∈ keys on := (mem_keys_iff_lookup on d.mount).mpr ⟨d, hl⟩
    obtain ⟨s, hs'⟩ := (mem_keys_iff_lookup sn d.mount).mp (hsub _ hk)
    have := h _ hk
    rw [ho.total_of_lookup hl, hs.total_of_lookup hs'] at this
    exact ⟨s, hs', this⟩

/-! ### `__ior__` -/

theorem iorKey_lookup {acc acc' : StorageMap} {k : Name} {d : Storage} (h : iorKey acc k d = .ok acc') (k' : Name) :
    lookup acc' k' = if k' = k then
        (match lookup acc k with
         | none => some d
         | some s => some { s with size := storageIor s.size d.size, paths := unionPaths s.paths d.paths })
      else lookup acc k' := by
  induction acc generalizing acc' with
  | nil =>
    simp only [iorKey] at h; cases h
    by_cases e : k' = k
    · simp [lookup, e]
    · have e' : k ≠ k' := fun x => e x.symm
      simp [lookup, e, e']
  | cons kd rest ih =>
    obtain ⟨k0, s0⟩ := kd
    by_cases h0 : k0 = k
    · subst h0
      simp only [iorKey, if_true, bind_eq_ok, Storage.ior] at h
      obtain ⟨s', hs', h⟩ := h
      cases h
      split at hs'
      · cases hs'
      · cases hs'
        by_cases e : k' = k0
        · simp [lookup, e]
        · have e' : k0 ≠ k' := fun x => e x.symm
          simp [lookup, e, e']
    · simp only [iorKey, h0, if_false, bind_eq_ok] at h
      obtain ⟨r, hr, h⟩ := h
      cases h
      have := ih hr
      by_cases e : k' = k
      · subst e; simp only [lookup, h0, if_false, this, if_true]
      · by_cases e0 : k0 = k'
        · simp [lookup, e0, e]
        · simp only [lookup, e0, if_false, this, e]

theorem iorLoop_lookup {b acc r : StorageMap} (hb : (keys b).Nodup) (h : iorLoop acc b = .ok r) (k : Name) :
    lookup r k = match lookup b k with
      | none => lookup acc k
      | some d => (match lookup acc k with
         | none => some d
         | some s => some { s with size := storageIor s.size d.size, paths := unionPaths s.paths d.paths }) := by
  induction b generalizing acc with
  | nil => simp only [iorLoop] at h; cases h; simp [lookup]
  | cons kd rest ih =>
    obtain ⟨k0, d0⟩ := kd
    simp only [iorLoop, bind_eq_ok] at h
    obtain ⟨acc', h1, h2⟩ := h
    have hnd := List.nodup_cons.mp hb
    rw [ih hnd.2 h2]
    by_cases e : k0 = k
    · subst e
      have hn : lookup rest k0 = none := (lookup_none_iff rest k0).mpr hnd.1
      simp only [hn, lookup, if_true, iorKey_lookup h1 k0]
    · have e' : k ≠ k0 := fun x => e x.symm
      simp only [lookup, e, if_false, iorKey_lookup h1 k, e']

/-! ### subtraction on a mount point the minuend has -/

theorem reduceFrom_sub_total_present {ds : List Storage} {acc r : StorageMap} {μ : Name} (hμ : μ ∈ keys acc)
    (h : reduceFrom Storage.sub acc ds = .ok r) : mountTotal r μ = mountTotal acc μ - listTotal ds μ := by
  induction ds generalizing acc with
  | nil => simp only [reduceFrom] at h; cases h; simp only [listTotal]; grind
  | cons d ds ih =>
    simp only [reduceFrom, bind_eq_ok] at h
    obtain ⟨acc', h1, h2⟩ := h
    have hk : μ ∈ keys acc' := by
      rw [upsert_keys h1]; split
      · exact hμ
      · exact List.mem_append_left _ hμ
    rw [ih hk h2, upsert_total (-d.size) (by intro a; simp only [storageSub]; grind) h1 μ]
    simp only [listTotal]
    by_cases hd : d.mount = μ
    · rw [if_pos hd, if_pos hd, if_pos (hd ▸ hμ)]; grind
    · rw [if_neg hd, if_neg hd]; grind

/-- `a − b` on cores, memory and every mount point `a` has -/
theorem sub_totals {a b r : Hardware} (h : a.sub b = .ok r) :
    r.cores = a.cores - b.cores ∧ r.memory = a.memory - b.memory ∧
    ∀ μ ∈ mounts a.storage, mountTotal r.storage μ = mountTotal a.storage μ - mountTotal b.storage μ := by
  simp only [Hardware.sub, bind_eq_ok] at h
  obtain ⟨sa, hsa, sb, hsb, st, hst, e⟩ := h
  cases e
  refine ⟨rfl, rfl, fun μ hμ => ?_⟩
  rw [mkHardware_total]
  simp only [reduceStorages, reduceFrom_append, bind_eq_ok] at hst
  obtain ⟨acc, h1, h2⟩ := hst
  have han := normalizeStorage_normal hsa
  have hacc : acc = sa := by
    have := reduceFrom_copy (op := Storage.sub) sa [] (by simpa using han)
    simp only [List.nil_append] at this
    rw [this] at h1; cases h1; rfl
  subst hacc
  rw [reduceFrom_sub_total_present ((normalizeStorage_keys hsa μ).mpr hμ) h2, ← mountTotal_eq_listTotal,
    normalizeStorage_total hsa, normalizeStorage_total hsb]

/-- the mount points of `a − b` -/
theorem sub_mounts {a b r : Hardware} (h : a.sub b = .ok r) (μ : Name) (hμ : μ ∈ mounts r.storage) :
    μ ∈ mounts a.storage ∨ μ ∈ mounts b.storage ∨ μ = root := by
  simp only [Hardware.sub, bind_eq_ok] at h
  obtain ⟨sa, hsa, sb, hsb, st, hst, e⟩ := h
  cases e
  by_cases hne : st = []
  · subst hne
    simp [mkHardware, mounts] at hμ
    exact Or.inr (Or.inr hμ)
  · rw [mkHardware_storage_of_ne _ _ hne] at hμ
    have hn : Normal st := reduceFrom_normal (f := storageSub) Normal.nil hst
    have hk : μ ∈ keys st := by
      simp only [mounts, List.mem_map] at hμ
      obtain ⟨kd, hkd, e⟩ := hμ
      simp only [keys, List.mem_map]
      exact ⟨kd, hkd, by rw [hn.keyMount kd hkd]; exact e⟩
    rw [reduceFrom_keys hst] at hk
    simp only [keys_nil, List.not_mem_nil, false_or, List.map_append, List.mem_append] at hk
    rcases hk with hk | hk
    · left
      have : μ ∈ keys sa := by
        have hna := normalizeStorage_normal hsa
        simp only [values, List.map_map, List.mem_map] at hk
        obtain ⟨kd, hkd, e⟩ := hk
        simp only [keys, List.mem_map]
        exact ⟨kd, hkd, by rw [hna.keyMount kd hkd]; exact e⟩
      exact (normalizeStorage_keys hsa μ).mp this
    · right; left
      have : μ ∈ keys sb := by
        have hnb := normalizeStorage_normal hsb
        simp only [values, List.map_map, List.mem_map] at hk
        obtain ⟨kd, hkd, e⟩ := hk
        simp only [keys, List.mem_map]
        exact ⟨kd, hkd, by rw [hnb.keyMount kd hkd]; exact e⟩
      exact (normalizeStorage_keys hsb μ).mp this

/-- `satisfies` returns `True` exactly when cores, memory and every mount point of the requirement fit -/
theorem satisfies_ok_true_iff (cap req : Hardware) (hc : ValidMap cap.storage) (hr : ValidMap req.storage) :
    cap.satisfies req = .ok true ↔
      req.cores ≤ cap.cores ∧ req.memory ≤ cap.memory ∧
      ∀ μ ∈ mounts req.storage, μ ∈ mounts cap.storage ∧ mountTotal req.storage μ ≤ mountTotal cap.storage μ := by
  obtain ⟨on, hon⟩ := normalizeStorage_ok req.storage ((ValidMap_iff _).mp hr)
  obtain ⟨sn, hsn⟩ := normalizeStorage_ok cap.storage ((ValidMap_iff _).mp hc)
  have hO := normalizeStorage_normal hon
  have hS := normalizeStorage_normal hsn
  unfold Hardware.satisfies coresMemoryOk
  by_cases hcm : req.cores ≤ cap.cores ∧ req.memory ≤ cap.memory
  · have : (decide (cap.cores ≥ req.cores) && decide (cap.memory ≥ req.memory)) = true := by simpa using hcm
    simp only [this, if_true, hon, hsn, bind, Except.bind, pure, Except.pure]
    by_cases hmiss : ((keys on).any (fun k => !(keys sn).contains k)) = true
    · simp only [hmiss, if_true]
      obtain ⟨μ, h1, h2⟩ := (any_missing_iff _ _).mp hmiss
      constructor
      · intro h; cases h
      · rintro ⟨_, _, h⟩
        exact absurd ((normalizeStorage_keys hsn μ).mpr (h μ ((normalizeStorage_keys hon μ).mp h1)).1) h2
    · simp only [hmiss]
      have hsub : ∀ μ ∈ keys on, μ ∈ keys sn := by
        intro μ hμ
        by_cases h : μ ∈ keys sn
        · exact h
        · exact absurd ((any_missing_iff _ _).mpr ⟨μ, hμ, h⟩) hmiss
      simp only [Bool.false_eq_true, if_false, Except.ok.injEq, allDisksOk_totals hS hO hsub]
      constructor
      · intro h
        refine ⟨hcm.1, hcm.2, fun μ hμ => ?_⟩
        have hk := (normalizeStorage_keys hon μ).mpr hμ
        refine ⟨(normalizeStorage_keys hsn μ).mp (hsub μ hk), ?_⟩
        rw [← normalizeStorage_total hon, ← normalizeStorage_total hsn]; exact h μ hk
      · rintro ⟨_, _, h⟩ μ hμ
        rw [normalizeStorage_total hon, normalizeStorage_total hsn]
        exact (h μ ((normalizeStorage_keys hon μ).mp hμ)).2
  · have : (decide (cap.cores ≥ req.cores) && decide (cap.memory ≥ req.memory)) = false := by
      simp only [ge_iff_le, Bool.and_eq_false_iff, decide_eq_false_iff_not]
      by_cases h1 : req.cores ≤ cap.cores
      · exact Or.inr (fun h2 => hcm ⟨h1, h2⟩)
      · exact Or.inl h1
    simp only [this, Bool.false_eq_true, if_false, pure, Except.pure]
    constructor
    · intro h; cases h
    · rintro ⟨h1, h2, _⟩; exact absurd ⟨h1, h2⟩ hcm

/-- what `a + b` is: cores and memory add, every mount point gets the sum of the two totals -/
theorem add_totals_lem (a b s : Hardware) (h : a.add b = .ok s) :
    s.cores = a.cores + b.cores ∧ s.memory = a.memory + b.memory ∧
    ∀ μ, mountTotal s.storage μ = mountTotal a.storage μ + mountTotal b.storage μ := by
  simp only [Hardware.add, bind_eq_ok] at h
  obtain ⟨sa, hsa, sb, hsb, st, hst, e⟩ := h
  cases e
  refine ⟨rfl, rfl, fun μ => ?_⟩
  rw [mkHardware_total, reduceFrom_add_total hst, listTotal_append, ← mountTotal_eq_listTotal,
    ← mountTotal_eq_listTotal, normalizeStorage_total hsa, normalizeStorage_total hsb]
  have : mountTotal [] μ = 0 := rfl
  grind

end SFV.HW
