import SFV.Model.Graph
import SFV.Model.Mapper
import SFV.Model.Proto
open SFV SFV.Proto SFV.Graph SFV.Mapper

def showList (l : List Nat) : String := if l.isEmpty then "-" else ",".intercalate (l.map toString)
def sortN (l : List Nat) : List Nat := l.mergeSort (· ≤ ·)

def showMap (keys : List Nat) (f : Nat → List Nat) : String :=
  if keys.isEmpty then "-" else
  ";".intercalate ((sortN keys).map (fun k => s!"{k}:{showList (sortN (f k))}"))

/-- canonical dump: both key lists and both maps, sorted -/
def dump (g : G) : String :=
  s!"{showList (sortN g.sk)}|{showList (sortN g.pk)}|{showMap g.sk g.succ}|{showMap g.pk g.pred}"

def nats (ws : List String) : Option (List Nat) := ws.mapM (·.toNat?)

def step (g : G) : List String → G × String
  | ["new"] => (G.empty, "ok")
  | ["add", u, "-"] =>
      match u.toNat? with
      | some u => let g' := g.add u none; (g', s!"-|{dump g'}")
      | none => (g, "bad-op")
  | ["add", u, v] =>
      match u.toNat?, v.toNat? with
      | some u, some v => let g' := g.add u (some v); (g', s!"-|{dump g'}")
      | _, _ => (g, "bad-op")
  | "rm" :: p :: ns =>
      match nats ns, p with
      | some ns, "0" => let r := g.removeNodes ns false; (r.1, s!"{showList (sortN r.2)}|{dump r.1}")
      | some ns, "1" => let r := g.removeNodes ns true; (r.1, s!"{showList (sortN r.2)}|{dump r.1}")
      | _, _ => (g, "bad-op")
  | ["rep", o, n] =>
      match o.toNat?, n.toNat? with
      | some o, some n =>
          match g.replace o n with
          | some g' => (g', s!"ok|{dump g'}")
          | none => (g, s!"ValueError|{dump g}")
      | _, _ => (g, "bad-op")
  | ["prom", n] =>
      match n.toNat? with
      | some n => let r := g.promote n; (r.1, s!"{showList (sortN r.2)}|{dump r.1}")
      | none => (g, "bad-op")
  | ["srcsnk"] => (g, s!"{showList (sortN g.sources)}|{showList (sortN g.sinks)}")
  | _ => (g, "bad-op")

/-! ### GraphMapper -/

def showDict {α : Type} (d : Dict α) (f : α → String) : String :=
  if d.isEmpty then "-" else
  ";".intercalate (((d.map (fun e => (e.1, s!"{e.1}:{f e.2}"))).mergeSort (fun a b => a.1 ≤ b.1)).map (·.2))

def mdump (m : M) : String :=
  s!"{dump m.toks}#{dump m.ports}#{showDict m.portTokens (fun l => showList (sortN l))}#{showDict m.avail (fun b => if b then "1" else "0")}#{showDict m.inst toString}#{showDict m.portIds (fun l => showList (sortN l))}#{if m.consistentB then "consistent" else "INCONSISTENT"}"

def parseInfo : List String → Option Info
  | [p, pid, t, k, a] =>
      match p.toNat?, pid.toNat?, t.toNat?, k.toNat? with
      | some p, some pid, some t, some k => some ⟨p, pid, t, k, a = "1"⟩
      | _, _, _, _ => none
  | _ => none

structure DSt where
  g : G := G.empty
  m : M := M.empty

def mstep (m : M) : List String → M × String
  | ["mnew"] => (M.empty, "ok")
  | ["mroot", t] =>
      match t.toNat? with
      | some t => let m' := m.moveToRoot t; (m', mdump m')
      | none => (m, "bad-op")
  | ["mrep", p, n, k, a] =>
      match p.toNat?, n.toNat?, k.toNat? with
      | some p, some n, some k =>
          match m.replaceToken p n k (a = "1") with
          | some m' => (m', mdump m')
          | none => (m, "EXC")
      | _, _, _ => (m, "bad-op")
  | "madd" :: rest =>
      match parseInfo (rest.take 5), (if rest.length = 10 then (parseInfo (rest.drop 5)).map some else if rest.length = 5 then some none else none) with
      | some a, some b =>
          match m.add a b with
          | some m' => (m', mdump m')
          | none => (m, "EXC")
      | _, _ => (m, "bad-op")
  | _ => (m, "bad-op")

def dstep (d : DSt) (ws : List String) : DSt × String :=
  match ws with
  | w :: _ =>
      if w.startsWith "m" then let r := mstep d.m ws; ({ d with m := r.1 }, r.2)
      else let r := step d.g ws; ({ d with g := r.1 }, r.2)
  | [] => (d, "bad-op")

def main : IO Unit := runStateful ({} : DSt) dstep
