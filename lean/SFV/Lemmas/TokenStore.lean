import SFV.Model.TokenStore
/-! C08: saving a token value and loading it back gives the same value (any nesting depth). -/
namespace SFV.TokenStore

/-- rows exist only below `next` -/
def Ok (db : DB) : Prop := ∀ i, db.next ≤ i → db.rows i = none

/-- `db'` extends `db`: the existing rows are untouched -/
structure Ext (db db' : DB) : Prop where
  le : db.next ≤ db'.next
  same : ∀ i, i < db.next → db'.rows i = db.rows i

theorem ext_refl (db : DB) : Ext db db := ⟨Nat.le_refl _, fun _ _ => rfl⟩
theorem ext_trans {a b c : DB} (h1 : Ext a b) (h2 : Ext b c) : Ext a c :=
  ⟨Nat.le_trans h1.le h2.le, fun i hi => (h2.same i (Nat.lt_of_lt_of_le hi h1.le)).trans (h1.same i hi)⟩

theorem insert_ext (db : DB) (r : Row) : Ext db (db.insert r).1 :=
  ⟨by simp [DB.insert], fun i hi => by simp [DB.insert]; intro e; omega⟩

theorem insert_ok {db : DB} (h : Ok db) (r : Row) : Ok (db.insert r).1 := by
  intro i hi
  simp only [DB.insert] at hi ⊢
  rw [if_neg (by omega)]
  exact h i (by omega)

theorem insert_row (db : DB) (r : Row) : (db.insert r).1.rows (db.insert r).2 = some r := by simp [DB.insert]

theorem save_ext_ok (t : Tok) : ∀ m db, Ok db → Ext db (save m t db).1 ∧ Ok (save m t db).1 := by
  induction t with
  | plain tag v r =>
    intro m db h; cases m
    · exact ⟨insert_ext db _, insert_ok h _⟩
    · exact ⟨ext_refl db, h⟩
  | list tag items ih =>
    intro m db h; cases m
    · have := ih .chain db h
      exact ⟨ext_trans this.1 (insert_ext _ _), insert_ok this.2 _⟩
    · exact ⟨ext_refl db, h⟩
  | obj tag fields ih =>
    intro m db h; cases m
    · have := ih .chain db h
      exact ⟨ext_trans this.1 (insert_ext _ _), insert_ok this.2 _⟩
    · exact ⟨ext_refl db, h⟩
  | job tag jv r inputs ih =>
    intro m db h; cases m
    · have := ih .chain db h
      exact ⟨ext_trans this.1 (insert_ext _ _), insert_ok this.2 _⟩
    · exact ⟨ext_refl db, h⟩
  | nil => intro m db h; cases m <;> exact ⟨ext_refl db, h⟩
  | cons hd tl ih1 ih2 =>
    intro m db h; cases m
    · exact ⟨ext_refl db, h⟩
    · have a := ih1 .tok db h
      have b := ih2 .chain _ a.2
      exact ⟨ext_trans a.1 b.1, b.2⟩
  | kcons k hd tl ih1 ih2 =>
    intro m db h; cases m
    · exact ⟨ext_refl db, h⟩
    · have a := ih1 .tok db h
      have b := ih2 .chain _ a.2
      exact ⟨ext_trans a.1 b.1, b.2⟩

/-- loading only looks at rows below `next`, so it is stable under extension -/
theorem load_ext {db db' : DB} (hok : Ok db) (he : Ext db db') (fuel : Nat) :
    (∀ id t, load fuel db id = some t → load fuel db' id = some t) ∧
    (∀ l t, loadIds fuel db l = some t → loadIds fuel db' l = some t) ∧
    (∀ l t, loadKv fuel db l = some t → loadKv fuel db' l = some t) := by
  induction fuel with
  | zero => simp [load, loadIds, loadKv]
  | succ f ih =>
    obtain ⟨iA, iB, iC⟩ := ih
    refine ⟨?_, ?_, ?_⟩
    · intro id t h
      simp only [load] at h ⊢
      cases hr : db.rows id with
      | none => simp [hr] at h
      | some r =>
        have hlt : id < db.next := by
          apply Classical.byContradiction; intro hge
          rw [hok id (by omega)] at hr; cases hr
        rw [he.same id hlt, hr]
        simp only [hr] at h
        cases hk : r.kind <;> cases hv : r.value <;> simp only [hk, hv] at h ⊢ <;> first | (cases h; done) | skip
        · exact h
        · rename_i l
          cases hl : loadIds f db l with
          | none => simp [hl] at h
          | some x => simp [hl] at h; simp [iB l x hl, h]
        · rename_i l
          cases hl : loadKv f db l with
          | none => simp [hl] at h
          | some x => simp [hl] at h; simp [iC l x hl, h]
        · rename_i jv l
          cases hl : loadKv f db l with
          | none => simp [hl] at h
          | some x => simp [hl] at h; simp [iC l x hl, h]
    · intro l t h
      cases l with
      | nil => simpa [loadIds] using h
      | cons i is =>
        simp only [loadIds] at h ⊢
        cases h1 : load f db i with
        | none => simp [h1] at h
        | some a =>
          cases h2 : loadIds f db is with
          | none => simp [h1, h2] at h
          | some b => simp [h1, h2] at h; simp [iA i a h1, iB is b h2, h]
    · intro l t h
      cases l with
      | nil => simpa [loadKv] using h
      | cons x is =>
        obtain ⟨k, i⟩ := x
        simp only [loadKv] at h ⊢
        cases h1 : load f db i with
        | none => simp [h1] at h
        | some a =>
          cases h2 : loadKv f db is with
          | none => simp [h1, h2] at h
          | some b => simp [h1, h2] at h; simp [iA i a h1, iC is b h2, h]

/-- more fuel never hurts -/
theorem load_fuel_succ (db : DB) (fuel : Nat) :
    (∀ id t, load fuel db id = some t → load (fuel + 1) db id = some t) ∧
    (∀ l t, loadIds fuel db l = some t → loadIds (fuel + 1) db l = some t) ∧
    (∀ l t, loadKv fuel db l = some t → loadKv (fuel + 1) db l = some t) := by
  induction fuel with
  | zero => simp [load, loadIds, loadKv]
  | succ f ih =>
    obtain ⟨iA, iB, iC⟩ := ih
    refine ⟨?_, ?_, ?_⟩
    · intro id t h
      rw [load] at h
      rw [load]
      cases hr : db.rows id with
      | none => simp [hr] at h
      | some r =>
        simp only [hr] at h ⊢
        cases hk : r.kind <;> cases hv : r.value <;> simp only [hk, hv] at h ⊢ <;> first | (cases h; done) | skip
        · exact h
        · rename_i l
          cases hl : loadIds f db l with
          | none => simp [hl] at h
          | some x => simp [hl] at h; simp [iB l x hl, h]
        · rename_i l
          cases hl : loadKv f db l with
          | none => simp [hl] at h
          | some x => simp [hl] at h; simp [iC l x hl, h]
        · rename_i jv l
          cases hl : loadKv f db l with
          | none => simp [hl] at h
          | some x => simp [hl] at h; simp [iC l x hl, h]
    · intro l t h
      cases l with
      | nil => simp [loadIds] at h ⊢; exact h
      | cons i is =>
        rw [loadIds] at h
        rw [loadIds]
        cases h1 : load f db i with
        | none => simp [h1] at h
        | some a =>
          cases h2 : loadIds f db is with
          | none => simp [h1, h2] at h
          | some b => simp [h1, h2] at h; simp [iA i a h1, iB is b h2, h]
    · intro l t h
      cases l with
      | nil => simp [loadKv] at h ⊢; exact h
      | cons x is =>
        obtain ⟨k, i⟩ := x
        rw [loadKv] at h
        rw [loadKv]
        cases h1 : load f db i with
        | none => simp [h1] at h
        | some a =>
          cases h2 : loadKv f db is with
          | none => simp [h1, h2] at h
          | some b => simp [h1, h2] at h; simp [iA i a h1, iC is b h2, h]

theorem load_fuel_le (db : DB) {f f' : Nat} (hle : f ≤ f') :
    (∀ id t, load f db id = some t → load f' db id = some t) ∧
    (∀ l t, loadIds f db l = some t → loadIds f' db l = some t) ∧
    (∀ l t, loadKv f db l = some t → loadKv f' db l = some t) := by
  induction hle with
  | refl => exact ⟨fun _ _ h => h, fun _ _ h => h, fun _ _ h => h⟩
  | @step m _ ih =>
    have s := load_fuel_succ db m
    exact ⟨fun id t h => s.1 id t (ih.1 id t h), fun l t h => s.2.1 l t (ih.2.1 l t h), fun l t h => s.2.2 l t (ih.2.2 l t h)⟩

/-- **save then load** for the three positions of the traversal -/
theorem load_save (t : Tok) :
    (Wf .tok t → ∀ db, Ok db → ∃ id fuel, (save .tok t db).2 = [id] ∧ load fuel (save .tok t db).1 id = some t) ∧
    (Wf .items t → ∀ db, Ok db → ∃ fuel, loadIds fuel (save .chain t db).1 (save .chain t db).2 = some t) ∧
    (Wf .fields t → ∀ db, Ok db →
        ∃ fuel, loadKv fuel (save .chain t db).1 ((keysOf t).zip (save .chain t db).2) = some t) := by
  induction t with
  | plain tag v r =>
    refine ⟨?_, by simp [Wf], by simp [Wf]⟩
    intro _ db _
    refine ⟨db.next, 1, rfl, ?_⟩
    simp [save, load, DB.insert]
  | list tag items ih =>
    refine ⟨?_, by simp [Wf], by simp [Wf]⟩
    intro hw db hok
    obtain ⟨f, hf⟩ := ih.2.1 (by simpa [Wf] using hw) db hok
    have hs := save_ext_ok items .chain db hok
    refine ⟨(save .chain items db).1.next, f + 1, rfl, ?_⟩
    have hl := (load_ext hs.2 (insert_ext (save .chain items db).1 ⟨.list, tag, .ids (save .chain items db).2, false⟩) f).2.1 _ _ hf
    simp only [save, load]
    have hrow := insert_row (save .chain items db).1 ⟨.list, tag, .ids (save .chain items db).2, false⟩
    simp only [DB.insert] at hrow hl ⊢
    simp [hl]
  | obj tag fields ih =>
    refine ⟨?_, by simp [Wf], by simp [Wf]⟩
    intro hw db hok
    obtain ⟨f, hf⟩ := ih.2.2 (by simpa [Wf] using hw) db hok
    have hs := save_ext_ok fields .chain db hok
    refine ⟨(save .chain fields db).1.next, f + 1, rfl, ?_⟩
    have hl := (load_ext hs.2 (insert_ext (save .chain fields db).1
      ⟨.obj, tag, .kv ((keysOf fields).zip (save .chain fields db).2), false⟩) f).2.2 _ _ hf
    simp only [save, load]
    simp only [DB.insert] at hl ⊢
    simp [hl]
  | job tag jv r inputs ih =>
    refine ⟨?_, by simp [Wf], by simp [Wf]⟩
    intro hw db hok
    obtain ⟨f, hf⟩ := ih.2.2 (by simpa [Wf] using hw) db hok
    have hs := save_ext_ok inputs .chain db hok
    refine ⟨(save .chain inputs db).1.next, f + 1, rfl, ?_⟩
    have hl := (load_ext hs.2 (insert_ext (save .chain inputs db).1
      ⟨.job, tag, .jobv jv ((keysOf inputs).zip (save .chain inputs db).2), r⟩) f).2.2 _ _ hf
    simp only [save, load]
    simp only [DB.insert] at hl ⊢
    simp [hl]
  | nil =>
    refine ⟨by simp [Wf], ?_, ?_⟩
    · intro _ db _; exact ⟨1, by simp [save, loadIds]⟩
    · intro _ db _; exact ⟨1, by simp [save, loadKv, keysOf]⟩
  | cons hd tl ih1 ih2 =>
    refine ⟨by simp [Wf], ?_, by simp [Wf]⟩
    intro hw db hok
    have hw' : Wf .tok hd ∧ Wf .items tl := by simpa [Wf] using hw
    obtain ⟨id, f1, hid, h1⟩ := ih1.1 hw'.1 db hok
    have ha := save_ext_ok hd .tok db hok
    obtain ⟨f2, h2⟩ := ih2.2.1 hw'.2 _ ha.2
    have hb := save_ext_ok tl .chain _ ha.2
    have h1' := (load_ext ha.2 hb.1 f1).1 _ _ h1
    refine ⟨max f1 f2 + 1, ?_⟩
    simp only [save, hid, List.cons_append, List.nil_append, loadIds]
    rw [(load_fuel_le _ (Nat.le_max_left f1 f2)).1 _ _ h1', (load_fuel_le _ (Nat.le_max_right f1 f2)).2.1 _ _ h2]
  | kcons k hd tl ih1 ih2 =>
    refine ⟨by simp [Wf], by simp [Wf], ?_⟩
    intro hw db hok
    have hw' : Wf .tok hd ∧ Wf .fields tl := by simpa [Wf] using hw
    obtain ⟨id, f1, hid, h1⟩ := ih1.1 hw'.1 db hok
    have ha := save_ext_ok hd .tok db hok
    obtain ⟨f2, h2⟩ := ih2.2.2 hw'.2 _ ha.2
    have hb := save_ext_ok tl .chain _ ha.2
    have h1' := (load_ext ha.2 hb.1 f1).1 _ _ h1
    refine ⟨max f1 f2 + 1, ?_⟩
    simp only [save, hid, List.cons_append, List.nil_append, keysOf, List.zip_cons_cons, loadKv]
    rw [(load_fuel_le _ (Nat.le_max_left f1 f2)).1 _ _ h1', (load_fuel_le _ (Nat.le_max_right f1 f2)).2.2 _ _ h2]

end SFV.TokenStore
